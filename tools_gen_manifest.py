#!/usr/bin/env python3
"""Regenerates MANIFEST.json from props/registry.py (claimed properties) and props/not_applicable.json."""
import json, os, sys
HERE = os.path.dirname(os.path.abspath(__file__))
sys.path.insert(0, HERE)
os.environ.setdefault('VERIF_REPO', '/repo')
from props import registry
LEVEL_NOTE = ('Trusted: the pyvc VC generator and its Python-subset semantics, z3/cvc5, CPython 3.12.1 only, the axioms on external '
              'functions and the hand-written spec tables listed in the evidence file (assumptions / trusted_base).')
checks = []
for pid in sorted(registry.PROPS):
    p = registry.PROPS[pid]
    checks.append({
        'property_id': pid,
        'quick_cmd': './vcheck %s --tier quick' % pid,
        'thorough_cmd': './vcheck %s --tier thorough' % pid,
        'evidence_file': 'evidence/%s.json' % pid,
        'replay_cmd_template': './vcheck replay {path}',
        'engine': 'pyvc',
        'level_claimed': {'category': p['level'], 'text': p['explanation'], 'design_ref': 'DESIGN.md section 3, ' + pid},
        'level_note': LEVEL_NOTE + ' ' + '; '.join(p['trusted']),
        'technique': p.get('technique', 'contract-based deductive verification: VCs generated from the real source by symbolic execution, discharged by z3'),
    })
na = json.load(open(os.path.join(HERE, 'props', 'not_applicable.json')))
na = [x for x in na if x['property_id'] not in registry.PROPS]
m = {
    'version': 1,
    'setup_cmd': './setup.sh',
    'hooks': {'guard': 'PYTHON_MINIFIER_VERIF', 'enable': 'no source hooks exist: contracts are sidecar files under /verif/contracts and the '
              'engine reads /repo source text directly', 'baseline_off_cmd': 'cd /repo && /venv/bin/python -m pytest -ra -q -p no:cacheprovider --timeout=900 --continue-on-collection-errors',
              'source_commits': [], 'add_only': True},
    'engines': [{'name': 'pyvc', 'path': 'pyvc/', 'serves_properties': sorted(registry.PROPS),
                 'kind_free_text': 'verification-condition generator for Python: re-reads the real functions from /repo on every run, '
                                   'symbolically executes them against sidecar contracts, discharges every obligation with z3 (cvc5 second opinion)'}],
    'checks': checks,
    'not_applicable': na,
    'notes': 'Genuine defects found on the pinned tree were repaired by separate "fix:" commits in /repo (see known_findings.json, "fixed"); '
             'selftest/ holds reverse patches of those fixes and hand-made mutants, run with ./vcheck selftest.',
}
json.dump(m, open(os.path.join(HERE, 'MANIFEST.json'), 'w'), indent=1)
print('claimed', [c['property_id'] for c in checks], 'not applicable', [x['property_id'] for x in na])
