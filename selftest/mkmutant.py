#!/usr/bin/env python3
"""mkmutant.py <name> <expect props,comma> <relative file> <old> <new> [<old2> <new2> ...] : write selftest/mutants/<name>.patch"""
import difflib, os, sys
name, expect, rel = sys.argv[1:4]
pairs = sys.argv[4:]
src = open(os.path.join('/repo', rel)).read()
new = src
for i in range(0, len(pairs), 2):
    old, rep = pairs[i].encode().decode('unicode_escape'), pairs[i + 1].encode().decode('unicode_escape')
    assert new.count(old) == 1, (old, new.count(old))
    new = new.replace(old, rep)
diff = ''.join(difflib.unified_diff(src.splitlines(True), new.splitlines(True), 'a/' + rel, 'b/' + rel))
here = os.path.dirname(os.path.abspath(__file__))
with open(os.path.join(here, 'mutants', name + '.patch'), 'w') as f:
    f.write('# expect: %s\n' % expect.replace(',', ' '))
    f.write(diff)
print(name, len(diff.splitlines()), 'lines')
