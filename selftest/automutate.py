#!/usr/bin/env python3
"""Automatic mutation campaign (development tool, not a registered check).

For every anchored source file small syntactic mutants are generated (condition negated, comparison / boolean operator swapped, one
statement deleted, constant changed, one class dropped from an isinstance tuple).  A mutant that still passes the repository's quick
unit tests (test/) is run through the checks of the properties the file is anchored in; a mutant no check reports is a SURVIVOR and is
written to selftest/automutate_survivors.json for triage (equivalent mutant / property-irrelevant / weak contract).

usage: automutate.py [--files a,b] [--cap N] [--jobs N] [--seed N] [--list]
"""
import ast
import concurrent.futures
import json
import os
import random
import shutil
import subprocess
import sys
import tempfile

HERE = os.path.dirname(os.path.dirname(os.path.abspath(__file__)))
REPO = '/repo'
SRC = 'src/python_minifier'

TARGETS = {
    '__init__.py': ['C05', 'C16', 'C10', 'C09', 'C06', 'C11'],
    '__main__.py': ['C13', 'C14', 'C15'],
    'transforms/remove_pass.py': ['C05'], 'transforms/remove_asserts.py': ['C05'], 'transforms/remove_debug.py': ['C05'],
    'transforms/remove_literal_statements.py': ['C05'], 'transforms/combine_imports.py': ['C05'],
    'transforms/remove_explicit_return_none.py': ['C05'], 'transforms/remove_object_base.py': ['C05'],
    'transforms/remove_exception_brackets.py': ['C05'], 'transforms/remove_annotations.py': ['C05'], 'transforms/remove_posargs.py': ['C05'],
    'transforms/suite_transformer.py': ['C05', 'C06'], 'transforms/constant_folding.py': ['C07', 'C12'],
    'rename/mapper.py': ['C03'], 'rename/bind_names.py': ['C04', 'C03', 'C09'], 'rename/resolve_names.py': ['C03', 'C09', 'C04'],
    'rename/binding.py': ['C03', 'C04', 'C17'], 'rename/renamer.py': ['C03', 'C04', 'C08'], 'rename/util.py': ['C04', 'C10', 'C03', 'C06'],
    'rename/rename_literals.py': ['C06', 'C17'],
    'token_printer.py': ['C02'], 'expression_printer.py': ['C02'], 'module_printer.py': ['C02'], 'f_string.py': ['C02', 'C12'],
    'ministring.py': ['C12', 'C02'], 'util.py': ['C07', 'C05'], 'ast_compare.py': ['C02'],
}

CMP = {ast.Eq: '!=', ast.NotEq: '==', ast.Is: 'is not', ast.IsNot: 'is', ast.In: 'not in', ast.NotIn: 'in', ast.Lt: '<=', ast.LtE: '<', ast.Gt: '>=', ast.GtE: '>'}


def seg(lines, node):
    if node.lineno != node.end_lineno:
        return None
    return lines[node.lineno - 1][node.col_offset:node.end_col_offset]


def replace(lines, node, new):
    out = list(lines)
    l = out[node.lineno - 1]
    out[node.lineno - 1] = l[:node.col_offset] + new + l[node.end_col_offset:]
    return out


def mutants_of(path):
    text = open(path).read()
    lines = text.split('\n')
    tree = ast.parse(text)
    out = []
    skip_lines = set()
    for n in ast.walk(tree):
        # python 2 / other-version branches are version-pruned by the checks: not mutated
        if isinstance(n, ast.If) and 'version_info' in ast.unparse(n.test):
            for m in ast.walk(n):
                if hasattr(m, 'lineno'):
                    skip_lines.add(m.lineno)
        if isinstance(n, (ast.FunctionDef, ast.ClassDef, ast.Module)) and n.body and isinstance(n.body[0], ast.Expr) and \
                isinstance(n.body[0].value, ast.Constant) and isinstance(n.body[0].value.value, str):
            for ln in range(n.body[0].lineno, n.body[0].end_lineno + 1):
                skip_lines.add(ln)
        if isinstance(n, ast.FunctionDef) and n.name in ('__repr__', '__str__') and 'binding' in path:
            for m in ast.walk(n):
                if hasattr(m, 'lineno'):
                    skip_lines.add(m.lineno)
    for n in ast.walk(tree):
        ln = getattr(n, 'lineno', None)
        if ln is None or ln in skip_lines:
            continue
        if isinstance(n, (ast.If, ast.While)) and seg(lines, n.test) is not None:
            out.append(('negate-condition', ln, replace(lines, n.test, 'not (%s)' % seg(lines, n.test))))
        if isinstance(n, ast.IfExp) and seg(lines, n.test) is not None:
            out.append(('negate-condition', ln, replace(lines, n.test, 'not (%s)' % seg(lines, n.test))))
        if isinstance(n, ast.Compare) and len(n.ops) == 1 and type(n.ops[0]) in CMP and seg(lines, n) is not None:
            l, r = seg(lines, n.left), seg(lines, n.comparators[0])
            if l is not None and r is not None:
                out.append(('swap-comparison', ln, replace(lines, n, '%s %s %s' % (l, CMP[type(n.ops[0])], r))))
        if isinstance(n, ast.BoolOp) and seg(lines, n) is not None and len(n.values) == 2:
            a, b = seg(lines, n.values[0]), seg(lines, n.values[1])
            if a is not None and b is not None:
                out.append(('swap-and-or', ln, replace(lines, n, '(%s) %s (%s)' % (a, 'or' if isinstance(n.op, ast.And) else 'and', b))))
        if isinstance(n, ast.UnaryOp) and isinstance(n.op, ast.Not) and seg(lines, n) is not None and seg(lines, n.operand) is not None:
            out.append(('drop-not', ln, replace(lines, n, '(%s)' % seg(lines, n.operand))))
        if isinstance(n, ast.Constant) and isinstance(n.value, bool) and seg(lines, n) is not None:
            out.append(('flip-bool', ln, replace(lines, n, repr(not n.value))))
        elif isinstance(n, ast.Constant) and isinstance(n.value, int) and not isinstance(n.value, bool) and seg(lines, n) is not None and 0 <= n.value < 200:
            out.append(('int+1', ln, replace(lines, n, repr(n.value + 1))))
        elif isinstance(n, ast.Constant) and isinstance(n.value, str) and seg(lines, n) is not None and 0 < len(n.value) <= 24 and '\n' not in n.value \
                and not seg(lines, n).startswith(('f', 'r', 'b')):
            out.append(('change-string', ln, replace(lines, n, repr(n.value + '_'))))
        if isinstance(n, ast.Call) and isinstance(n.func, ast.Name) and n.func.id == 'isinstance' and len(n.args) == 2 and isinstance(n.args[1], ast.Tuple) \
                and len(n.args[1].elts) >= 2 and seg(lines, n.args[1]) is not None:
            for i in range(len(n.args[1].elts)):
                rest = [seg(lines, e) for j, e in enumerate(n.args[1].elts) if j != i]
                if all(r is not None for r in rest):
                    out.append(('isinstance-drop-%d' % i, ln, replace(lines, n.args[1], '(%s,)' % ', '.join(rest))))
    # statement deletion
    for n in ast.walk(tree):
        for field in ('body', 'orelse', 'finalbody'):
            stmts = getattr(n, field, None)
            if not isinstance(stmts, list) or isinstance(n, ast.Module):
                continue
            for st in stmts:
                if not isinstance(st, ast.stmt) or st.lineno in skip_lines or st.lineno != st.end_lineno:
                    continue
                if isinstance(st, (ast.Expr, ast.Assign, ast.AugAssign)) or (isinstance(st, ast.Return) and len(stmts) > 1):
                    if isinstance(st, ast.Expr) and isinstance(st.value, ast.Constant):
                        continue
                    l = lines[st.lineno - 1]
                    ind = l[:len(l) - len(l.lstrip())]
                    new = list(lines)
                    new[st.lineno - 1] = ind + 'pass'
                    out.append(('delete-statement', st.lineno, new))
    res = []
    seen = set()
    for kind, ln, new in out:
        t = '\n'.join(new)
        if t == text or t in seen:
            continue
        seen.add(t)
        try:
            compile(t, path, 'exec')
        except SyntaxError:
            continue
        res.append({'kind': kind, 'line': ln, 'old': lines[ln - 1].strip(), 'new': new[ln - 1].strip(), 'text': t})
    return res


def run_mutant(rel, m, props):
    d = tempfile.mkdtemp(prefix='am-')
    try:
        shutil.copytree(os.path.join(REPO, 'src'), os.path.join(d, 'src'), ignore=shutil.ignore_patterns('__pycache__', '*.pyc'))
        shutil.copytree(os.path.join(REPO, 'docs'), os.path.join(d, 'docs'))
        with open(os.path.join(d, SRC, rel), 'w') as f:
            f.write(m['text'])
        env = dict(os.environ)
        env['PYTHONPATH'] = os.path.join(d, 'src')
        try:
            t = subprocess.run(['/venv/bin/python', '-m', 'pytest', '-x', '-q', '-p', 'no:cacheprovider', 'test'], cwd=REPO, env=env, capture_output=True, text=True, timeout=300)
            tests_ok = t.returncode == 0
        except subprocess.TimeoutExpired:
            tests_ok = False
        rec = {'file': rel, 'kind': m['kind'], 'line': m['line'], 'old': m['old'], 'new': m['new']}
        if not tests_ok:
            rec['status'] = 'killed-by-tests'
            return rec
        env2 = dict(os.environ)
        env2.update({'VERIF_REPO': d, 'PYVC_EVIDENCE_DIR': os.path.join(d, 'ev'), 'PYVC_REPLAY_DIR': os.path.join(d, 'rp'), 'PYVC_JOBS': '6'})
        rcs = {}
        for p in props:
            try:
                r = subprocess.run([os.path.join(HERE, 'vcheck'), p], cwd=HERE, env=env2, capture_output=True, text=True, timeout=1500)
                rcs[p] = r.returncode
                if r.returncode == 1:
                    how = set()
                    for l in r.stdout.splitlines():
                        if l.startswith('refuted:'):
                            how.add('contract')
                        if l.startswith('bounded stand-in'):
                            how.add('stand-in')
                    rec['status'] = 'caught'
                    rec['by'] = p
                    rec['how'] = '+'.join(sorted(how))
                    rec['first'] = next((l[:200] for l in r.stdout.splitlines() if l.startswith(('refuted:', 'bounded stand-in'))), '')
                    return rec
            except subprocess.TimeoutExpired:
                rcs[p] = 'timeout'
        rec['rcs'] = rcs
        rec['status'] = 'undecided' if any(v in (2, 3, 'timeout') for v in rcs.values()) else 'SURVIVED'
        return rec
    finally:
        shutil.rmtree(d, ignore_errors=True)


def main(argv):
    files, cap, jobs, seed = None, 40, 4, 1
    for i, a in enumerate(argv):
        if a == '--files':
            files = argv[i + 1].split(',')
        if a == '--cap':
            cap = int(argv[i + 1])
        if a == '--jobs':
            jobs = int(argv[i + 1])
        if a == '--seed':
            seed = int(argv[i + 1])
    rnd = random.Random(seed)
    work = []
    for rel, props in TARGETS.items():
        if files and not any(f in rel for f in files):
            continue
        ms = mutants_of(os.path.join(REPO, SRC, rel))
        rnd.shuffle(ms)
        print('%-45s %4d mutants, running %d' % (rel, len(ms), min(cap, len(ms))), flush=True)
        for m in ms[:cap]:
            work.append((rel, m, props))
    if '--list' in argv:
        return 0
    outp = os.path.join(HERE, 'selftest', 'automutate_results.json')
    results = []
    if os.path.exists(outp):
        results = json.load(open(outp))
    done = set((r['file'], r['line'], r['kind'], r['new']) for r in results)
    work = [w for w in work if (w[0], w[1]['line'], w[1]['kind'], w[1]['new']) not in done]
    print('%d mutants to run' % len(work), flush=True)
    with concurrent.futures.ThreadPoolExecutor(max_workers=jobs) as ex:
        futs = [ex.submit(run_mutant, *w) for w in work]
        for k, f in enumerate(concurrent.futures.as_completed(futs)):
            r = f.result()
            results.append(r)
            print('[%d/%d] %-12s %s:%d %s | %s -> %s %s' % (k + 1, len(work), r['status'], r['file'], r['line'], r['kind'], r['old'][:60], r['new'][:60],
                                                         (r.get('by', '') + ' ' + r.get('how', ''))), flush=True)
            if k % 10 == 9:
                json.dump(results, open(outp, 'w'), indent=1)
    json.dump(results, open(outp, 'w'), indent=1)
    import collections
    print(collections.Counter(r['status'] for r in results))
    return 0


if __name__ == '__main__':
    sys.exit(main(sys.argv[1:]))
