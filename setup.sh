#!/bin/bash
# Builds /verif/.venv (CPython 3.12 of /venv + z3-solver, cvc5, jsonschema from the offline wheelhouse). Nothing is fetched.
set -e
HERE="$(cd "$(dirname "${BASH_SOURCE[0]}")" && pwd)"
if [ ! -x "$HERE/.venv/bin/python" ] || ! "$HERE/.venv/bin/python" -c "import z3, jsonschema" 2>/dev/null; then
  rm -rf "$HERE/.venv"
  /venv/bin/python -m venv "$HERE/.venv"
  PIP_NO_INDEX=1 "$HERE/.venv/bin/pip" install -q --no-index --find-links /opt/veriftools/wheels z3-solver cvc5 jsonschema
fi
"$HERE/.venv/bin/python" -c "import z3; print('z3', z3.get_version_string())"
