#!/venv/bin/python
"""Bounded stand-in for C01/C03/C04/C06/C09/C10/C17 (labelled bounded): a generator of small RUNNABLE programs over scope shapes
(module / function / class / lambda / comprehension nestings x every binding form x global/nonlocal declarations x literals to hoist)
is minified under several option sets; oracles independent of python_minifier decide:

  compile   the output compiles                                                                    (C03, C08)
  behaviour stdout, exception type and public module namespace of exec(output) equal exec(input)   (C01, C03, C06)
  interface attribute names, keyword names, class-body names, keyword-callable parameter names, imported names, dunder names and
            free names occur unchanged; module-level bound names unchanged unless rename_globals, added ones start with '_'   (C04)
  preserve  names in preserve_locals / preserve_globals / __all__ keep every occurrence                                        (C10)
  freeze    with a taint trigger in the module every identifier is unchanged and no name is added                             (C09)
  hoist     every introduced alias is assigned exactly once, at the head of an enclosing function/module body, after docstring
            and __future__ imports, to a constant of identical type and value                                                   (C06)
  size      each size option alone never makes this program longer                                                              (C17, reported per program)

usage: rename_sweep.py [--seed S] [--random N] [--only oracle]      prints {"cases": n, "failures": [...]}
"""
import ast
import builtins
import contextlib
import io
import itertools
import json
import os
import random
import sys
import warnings

warnings.simplefilter('ignore')
import python_minifier  # noqa: E402

OFF = dict(remove_annotations=False, remove_pass=False, remove_literal_statements=False, combine_imports=False, hoist_literals=False,
           rename_locals=False, rename_globals=False, remove_object_base=False, convert_posargs_to_args=False, preserve_shebang=False,
           remove_asserts=False, remove_debug=False, remove_explicit_return_none=False, remove_builtin_exception_brackets=False,
           constant_folding=False)
OPTION_SETS = [
    ('default', {}),
    ('locals-only', dict(OFF, rename_locals=True)),
    ('globals', dict(rename_globals=True)),
    ('globals-no-hoist', dict(rename_globals=True, hoist_literals=False)),
    ('hoist-only', dict(OFF, hoist_literals=True)),
    ('no-rename', dict(rename_locals=False, hoist_literals=True)),
    ('all-off', dict(OFF)),
    ('keep-annotations', dict(remove_annotations=False)),
    ('keep-annotations-globals', dict(remove_annotations=False, rename_globals=True)),
    ('no-rename-locals', dict(rename_locals=False)),
]

# ---------------------------------------------------------------------------------------------------------------------
# program pool: hand-written shapes (each prints something so that behaviour is observable)

PROGRAMS = [
    # closures, nonlocal, global
    "def outer():\n    counter=0\n    total=0\n    def inc():\n        nonlocal counter, total\n        counter+=1;counter+=1;counter+=1;total+=counter\n    inc();inc()\n    return counter,total\nprint(outer())",
    "value=10\ndef setter():\n    global value, other\n    value=value+1;value=value*2;other=value\nsetter()\nprint(value,other)",
    "def f(first_argument, second_argument=3, *rest_arguments, keyword_only=5, **keyword_arguments):\n    local_total=first_argument+second_argument+keyword_only\n    local_total+=len(rest_arguments)+len(keyword_arguments)\n    return local_total\nprint(f(1),f(1,2,3,keyword_only=1,z=2),f(first_argument=4,second_argument=1))",
    "def f(positional_only, /, normal_parameter, *, keyword_parameter):\n    return positional_only+normal_parameter+keyword_parameter+positional_only\nprint(f(1,2,keyword_parameter=3),f(1,normal_parameter=2,keyword_parameter=3))",
    "class Shape:\n    sides=4\n    def area(self, width, height=2):\n        result=width*height\n        return result+self.sides\n    @classmethod\n    def make(cls, count):\n        instance=cls()\n        instance.sides=count\n        return instance\n    @staticmethod\n    def helper(first, second):\n        return first-second\nprint(Shape().area(3),Shape.make(5).area(width=1,height=1),Shape.helper(second=1,first=5),Shape.sides)",
    "class Outer:\n    shared='class level text'\n    def method(self):\n        shared='function level text'\n        class Inner:\n            shared2=shared\n            def get(self):\n                return shared\n        return Inner().get(),Inner.shared2,Outer.shared\nprint(Outer().method())",
    "def make_adders():\n    adders=[lambda value, step=step: value+step for step in range(3)]\n    return [adder(10) for adder in adders]\nprint(make_adders())",
    "def comprehension_scopes(items):\n    first=[item*2 for item in items]\n    second={item: index for index, item in enumerate(items)}\n    third={item for item in items if item}\n    fourth=list(item+offset for offset in items for item in items)\n    item='outer item'\n    return first,sorted(second.items()),sorted(third),fourth,item\nprint(comprehension_scopes([1,2,3]))",
    "def walrus(values):\n    results=[doubled for value in values if (doubled:=value*2)>2]\n    return results,doubled\nprint(walrus([1,2,3]))",
    "import os.path as path_module\nimport sys, json\nfrom collections import OrderedDict as Ordered, defaultdict\ndef use():\n    import textwrap\n    local_dict=Ordered();local_dict['k']=defaultdict(int)\n    return path_module.basename('/a/b'),json.dumps([1]),textwrap.dedent(' x'),type(local_dict).__name__,sys.maxsize>0\nprint(use())",
    "def handler(values):\n    try:\n        return values[5]\n    except IndexError as error_object:\n        message=str(type(error_object).__name__)\n    try:\n        error_object\n    except NameError:\n        message+=' cleared'\n    return message\nprint(handler([1]))",
    "def context():\n    import io\n    with io.StringIO('text data') as stream_object, io.StringIO('more') as second_stream:\n        content=stream_object.read()+second_stream.read()\n    for loop_index, loop_value in enumerate('ab'):\n        content+=str(loop_index)+loop_value\n    else:\n        content+='done'\n    return content,loop_index\nprint(context())",
    "def matcher(subject):\n    match subject:\n        case {'kind': kind_value, **remaining}:\n            return kind_value,sorted(remaining)\n        case [first_item, *other_items]:\n            return first_item,other_items\n        case str() as text_value:\n            return text_value\n        case _:\n            return None\nprint(matcher({'kind':1,'x':2}),matcher([1,2,3]),matcher('s'),matcher(5))",
    "def generic[T](argument: T) -> T:\n    return argument\nclass Box[T]:\n    def __init__(self, content: T):\n        self.content=content\ntype Alias = list[int]\nprint(generic(3),Box(4).content,Alias.__value__)",
    "def decorator(function):\n    def wrapper(*arguments, **keywords):\n        return function(*arguments, **keywords)+1\n    return wrapper\n@decorator\ndef decorated(number):\n    return number*2\nprint(decorated(3),decorated(number=4))",
    "def defaults_scope():\n    base_value=5\n    def inner(parameter=base_value, *, other=base_value+1):\n        base_value=100\n        return parameter+other+base_value\n    return inner()\nprint(defaults_scope())",
    "retries=3\ndef configure(*, retries=retries, label='configured label text'):\n    retries=retries+1\n    return retries,label\nprint(configure(),configure(retries=7))",
    "class Registry:\n    entries={}\n    counter=0\n    def register(self, name):\n        Registry.counter+=1\n        self.entries[name]=Registry.counter\n        return [entry for entry in sorted(self.entries)]\n    total=[counter for _ in range(2)]\nprint(Registry().register('b'),Registry().register('a'),Registry.total)",
    "def outer_function():\n    shadowed='outer text value'\n    class Holder:\n        def method(self):\n            return shadowed\n        shadowed_copy=[shadowed for _ in range(1)]\n    return Holder().method(),Holder.shadowed_copy\nprint(outer_function())",
    "__all__=['public_function','PUBLIC_CONSTANT']\nPUBLIC_CONSTANT=42\nprivate_constant=7\ndef public_function(argument):\n    return argument+PUBLIC_CONSTANT+private_constant\ndef _private_function():\n    return public_function(1)\nprint(_private_function())",
    "def uses_builtins(items):\n    return len(items)+len(items)+len(items)+sum(items)+sum(items)+max(items)+isinstance(items,list)+isinstance(items,list)+isinstance(items,tuple)\nprint(uses_builtins([1,2,3]))",
    "print('repeated literal text','repeated literal text','repeated literal text','repeated literal text')\ndef f():\n    return 'repeated literal text'+'another repeated text'+'another repeated text'+'another repeated text'\nprint(f(),b'bytes literal value',b'bytes literal value',b'bytes literal value',None,None,None,None,True,True,True,False,False,False)",
    "'''module docstring text'''\nfrom __future__ import annotations\ndef documented():\n    '''function docstring text'''\n    return 'function docstring text','function docstring text','function docstring text','module docstring text','module docstring text'\nclass Documented:\n    '''class docstring text'''\n    __slots__=('slot_name_one','slot_name_one')\n    label='class docstring text'\nprint(__doc__,documented.__doc__,Documented.__doc__,documented(),Documented.label,Documented.__slots__)",
    "async def coroutine():\n    '''repeated doc text'''\n    return 'repeated doc text','repeated doc text','repeated doc text'\nimport asyncio\nprint(asyncio.run(coroutine()),coroutine.__doc__)",
    "def flags(enabled=True, disabled=False, nothing=None):\n    return [True if enabled else False, True and disabled, nothing is None, True, False, None, True, False, None]\nprint(flags())",
    "def pattern_literals(value):\n    match value:\n        case 'literal in pattern':\n            return 'literal in pattern'\n        case None:\n            return 'literal in pattern'\n        case True:\n            return 'literal in pattern'\n    return f'{value} literal in pattern {\"literal in pattern\"}'\nprint(pattern_literals('literal in pattern'),pattern_literals(None),pattern_literals(3))",
    "def nested_defaults():\n    def inner(first=True|False, second='default text default', third='default text default', *, fourth='default text default'):\n        return first,second,third,fourth\n    return inner()\nprint(nested_defaults())",
    "def kwargs_caller():\n    def target(alpha_parameter, beta_parameter=2):\n        return alpha_parameter*beta_parameter\n    options={'alpha_parameter':3}\n    return target(**options),target(alpha_parameter=1,beta_parameter=1)\nprint(kwargs_caller())",
    "class Units:\n    to_km=staticmethod(lambda miles, factor=1.6: miles*factor)\n    table={'double': lambda quantity: quantity*2}\n    def convert(self, amount, rule=lambda amount: amount+1):\n        return rule(amount=amount)\nprint(Units.to_km(miles=10),Units.table['double'](quantity=2),Units().convert(1))",
    "def traceback_hide():\n    __tracebackhide__=True\n    __custom_dunder__=1\n    return sorted(name for name in locals() if name.startswith('__'))\nprint(traceback_hide())",
    "def star_targets(sequence):\n    first_element, *middle_elements, last_element=sequence\n    (left_value, right_value), extra_value=(1,2),3\n    del extra_value\n    return first_element,middle_elements,last_element,left_value+right_value\nprint(star_targets([1,2,3,4]))",
    "total_calls=0\ndef recursive(depth):\n    global total_calls\n    total_calls+=1\n    return 1 if depth<=0 else depth*recursive(depth-1)\nprint(recursive(4),total_calls)",
    "def lambda_args():\n    chooser=lambda *positional_values, **named_values: (len(positional_values),sorted(named_values))\n    picker=lambda preserved_name=1: preserved_name\n    return chooser(1,2,key=3),picker(),picker(preserved_name=5)\nprint(lambda_args())",
    "import sys\ncurrent_module=sys.modules.get(__name__)\nmodule_level_name='module level value'\ndef reflect():\n    reflected_local='module level value'\n    return reflected_local,module_level_name\nprint(reflect(),'module_level_name' in vars(current_module) if current_module else True)",
]

PROGRAMS += [
    # short names that collide with the names the renamer hands out
    "def outer():\n    x=0;A=0;B=5\n    def f():\n        nonlocal x, A\n        x=1;x=2;x=3;A=B\n    f()\n    return x,A,B\nprint(outer())",
    "a=1;A=2;B=3\ndef g():\n    global a, A\n    a=A+1;a=a+B;a=a*2;A=a\ng()\nprint(a,A,B)",
    # numeric literals repeated (must not be treated as name constants)
    "def numbers():\n    return [0.0,0.0,0.0,0.0,0.0],[1,1,1,1,1,1],[0,0,0,0,0],[1.0,1.0,1.0,1.0],[True,True,True,True],[1j,1j,1j,1j]\nprint(numbers())",
    # a class body that binds a name it never reads, inside a function that has the same name as a local
    "def enclosing():\n    setting='from the function'\n    other='also from the function'\n    class Config:\n        setting='from the class'\n        def read(self):\n            return setting,other\n        reader=lambda self: setting\n    return Config().read(),Config().reader(),Config.setting\nprint(enclosing())",
    "setting='from the module'\nclass Config:\n    setting='from the class'\n    def read(self):\n        return setting\n    values=[setting for _ in range(1)]\nprint(Config().read(),Config.values,Config.setting)",
    # dunder names local to a function
    "def hidden():\n    __tracebackhide__=True\n    __my_private_marker__=3\n    return __tracebackhide__,__my_private_marker__\nprint(hidden())",
    # folded / repeated constants in defaults, decorators and annotations of nested functions
    "def factory():\n    def inner(a=True|False, b=True|False, c=True|False, d=True|False, e='shared default text', f='shared default text', g='shared default text'):\n        return a,b,c,d,e,f,g\n    return inner()\nprint(factory())",
    "def deco(flag):\n    return lambda function: function\ndef outer_level():\n    @deco('decorator text value')\n    def first(): return 'decorator text value'\n    @deco('decorator text value')\n    def second(): return 'decorator text value'\n    return first(),second()\nprint(outer_level())",
    # __all__ in several forms
    "__all__=['exported_one','exported_two']\n__all__=sorted(__all__)\ndef exported_one():\n    return 1\ndef exported_two():\n    return exported_one()+1\ndef internal_helper():\n    return exported_two()\nprint(internal_helper(),__all__)",
    "__all__=['exported_one']\n__all__+=['exported_two']\ndef exported_one():\n    return 1\ndef exported_two():\n    return exported_one()+1\nprint(exported_two(),__all__)",
    "__all__: list=['exported_one']\ndef exported_one():\n    return 1\nprint(exported_one(),__all__)",
    "_platform_names=['platform_helper']\n__all__=['exported_one', 'EXPORTED_CONSTANT', *_platform_names]\nEXPORTED_CONSTANT=3\ndef exported_one():\n    return EXPORTED_CONSTANT\ndef platform_helper():\n    return exported_one()\nprint(platform_helper(),__all__)",
    "__all__=('exported_one',)\ndef exported_one():\n    return 1\nprint(exported_one(),__all__)",
    # __all__ at every position of a chained assignment
    "__all__=public_names=['exported_one','public_names']\ndef exported_one():\n    return 1\ndef internal_helper():\n    return exported_one()\nprint(internal_helper(),__all__,public_names)",
    "public_names=__all__=['exported_one','public_names']\ndef exported_one():\n    return 1\ndef internal_helper():\n    return exported_one()\nprint(internal_helper(),__all__,public_names)",
    "first_alias=second_alias=__all__=['exported_one','EXPORTED_CONSTANT']\nEXPORTED_CONSTANT=3\ndef exported_one():\n    return EXPORTED_CONSTANT\ndef internal_helper():\n    return exported_one()\nprint(internal_helper(),__all__,first_alias,second_alias)",
    # the same name bound by several imports / several binding forms, with few uses
    "try:\n    from os.path import basename_missing as chosen_function\nexcept ImportError:\n    from os.path import basename as chosen_function\nprint(chosen_function('/a/b'))",
    "def importer():\n    try:\n        from json import dumps\n    except ImportError:\n        from json import dumps\n    return dumps([1])\nprint(importer())",
    "def importer(flag):\n    if flag:\n        import json\n    else:\n        import json\n    import os.path\n    return json.dumps(os.path.basename('/x/y'))\nprint(importer(1))",
    "def handler_names():\n    try:\n        raise ValueError('first text')\n    except ValueError as caught_error:\n        saved=str(caught_error)\n    try:\n        raise KeyError('k')\n    except KeyError as caught_error:\n        saved+=str(caught_error)\n    return saved\nprint(handler_names())",
    # annotations kept (the annotation of *args / **kwargs is evaluated in the enclosing scope)
    "Tag=int\ndef annotated(first: Tag, *rest: Tag, key: Tag=1, **extra: Tag) -> Tag:\n    Tag='local text value'\n    return first+key+len(rest)+len(extra),Tag\nprint(annotated(1,2,3,key=4,z=5))",
    # lambdas with star arguments and walrus targets
    "def lambdas():\n    collect=lambda *gathered_items, **gathered_options: (gathered_items,sorted(gathered_options))\n    compute=lambda: (assigned_inside:=5)+assigned_inside\n    nested=lambda: [element_value*2 for element_value in range(3)]\n    return collect(1,k=2),compute(),nested()\nprint(lambdas())",
]

# every hoistable-looking literal kind x number of uses x scope (the cost decision is per literal and count)
for _lit in ("'ab'", "'abcdef'", "b'ab'", 'None', 'True', 'False', '0.0', '1.0', '0', '1', '10.5', '1e100', '1j', '...', "''", "'a'", "'\u2713'", "'\u00e9\u00e9'",
             "'\U0001f600'", "'\\n\\t'", "b'\\xff'", "'\x7f'"):
    for _k in (2, 3, 4, 5, 6, 9):
        PROGRAMS.append('def repeated():\n    return [%s]\nprint(repeated())' % ','.join([_lit] * _k))
        if _k in (3, 6):
            PROGRAMS.append('print([%s])' % ','.join([_lit] * _k))

# programs that reproduce the recorded known findings (genuine defects of the pinned tree that were not repaired): tagged so that they
# are reported as KNOWN-FINDING and any OTHER failure is still a violation
KNOWN_PROGRAMS = {
    "A='module level A'\ndef outer():\n    def helper():\n        def identity[A](x: A) -> A:\n            return x\n        return identity(A)\n    return helper()\nprint(outer())": 'type-parameter-bound-in-the-enclosing-scope',
    "class Resource:\n    def __del__(self):\n        print('resource released')\ndef consume(resource):\n    print('using', type(resource).__name__)\n    print('still using', type(resource).__name__)\n    del resource\n    print('after del')\nconsume(Resource())": 'parameter-alias-keeps-the-argument-alive',
    "class Settings:\n    def from_environment(variable_name, default_value=None):\n        return (variable_name, default_value)\n    DEBUG = from_environment(variable_name='APP_DEBUG')\nprint(Settings.DEBUG)": 'old-style-staticmethod-first-parameter',
    "def area(r):\n    from re import A\n    x = r * r\n    return x * A + x\nprint(area(2))": 'tie-rename-steals-an-import-name',
    "def lookup(x):\n    if x:\n        return x['abc']\n    return x.get('abc')\nprint(lookup({}))": 'hoisted-assignment-indentation-not-priced',
    "class Factory:\n    def create(config_name, extra=1):\n        return config_name, extra\n    create=staticmethod(create)\nprint(Factory.create(config_name='x'))": 'old-style-staticmethod-first-parameter',
    "def pick(flag):\n    if flag:\n        return 'abcd'\n    return 'abcd'\nprint(pick(1))": 'hoisted-literal-after-keyword',
    "def noisy():\n    print('annotation evaluated')\n    return int\ndef annotated(x: noisy()) -> noisy():\n    return x\nprint(annotated(1))": 'annotation-with-side-effect-removed',
}
# control flow: an early return inside every kind of nested suite, observable through what runs afterwards
PROGRAMS += [
    "log=[]\ndef handle(item):\n    try:\n        value=int(item)\n        if value<0:\n            log.append('negative')\n            return\n    except ValueError:\n        log.append('not a number')\n        return None\n    else:\n        log.append('accepted')\n    finally:\n        log.append('done')\nfor item in ('1','-1','x'):\n    handle(item)\nprint(log)",
    "log=[]\ndef search(items, wanted):\n    for item in items:\n        if item==wanted:\n            log.append('found')\n            return\n    else:\n        log.append('missing')\n        return None\ndef countdown(n):\n    while n:\n        n-=1\n        if n==2:\n            log.append('two')\n            return\n    else:\n        log.append('zero')\nsearch([1,2],2);search([1],3);countdown(5);countdown(1)\nprint(log)",
    "import contextlib\nlog=[]\n@contextlib.contextmanager\ndef manager():\n    log.append('enter')\n    yield\n    log.append('exit')\ndef managed(flag):\n    with manager():\n        if flag:\n            log.append('early')\n            return None\n        log.append('late')\n    log.append('after')\n    return\nmanaged(True);managed(False)\nprint(log)",
    "log=[]\ndef classify(value):\n    match value:\n        case int():\n            log.append('int')\n            return\n        case _:\n            log.append('other')\n    log.append('fallthrough')\nclassify(1);classify('s')\nprint(log)",
]
# a handler / pattern / import name that coincides with an ordinary local of the same function
PROGRAMS += [
    "def walrus_in_filter(data):\n    kept=[item for item in data if (last_seen := item)]\n    return kept,last_seen\nprint(walrus_in_filter([1,2]))",
    "def nested_walrus(rows):\n    grid=[[(last_cell := cell) for cell in row] for row in rows]\n    return grid,last_cell\nprint(nested_walrus([[1,2],[3]]))",
    "def reuse_handler_name():\n    problem='no problem yet'\n    before=problem\n    try:\n        raise ValueError('went wrong')\n    except ValueError as problem:\n        during=str(problem)\n    try:\n        after=problem\n    except NameError:\n        after='cleared'\n    return before,during,after\nprint(reuse_handler_name())",
    "def reuse_pattern_name(subject):\n    captured='initial value'\n    rest_of_mapping={}\n    match subject:\n        case {'key': captured, **rest_of_mapping}:\n            pass\n        case [captured, *rest_of_mapping]:\n            pass\n    return captured,rest_of_mapping\nprint(reuse_pattern_name({'key':1,'other':2}),reuse_pattern_name([1,2,3]),reuse_pattern_name(5))",
    "def reuse_import_name():\n    json='not a module'\n    first=json\n    import json\n    return first,json.dumps([1])\nprint(reuse_import_name())",
]
# more renamable names than one-letter names: the rarely used short original names compete with the generated ones
_many = ['    value_%d=%d' % (k, k) for k in range(60)]
_uses = '+'.join('value_%d*value_%d+value_%d' % (k, k, k) for k in range(60))
PROGRAMS.append('def many_names():\n' + '\n'.join(_many) + '\n    i=1000\n    j=2000\n    return ' + _uses + '+i+j\nprint(many_names())')
PROGRAMS.append('\n'.join('global_value_%d=%d' % (k, k) for k in range(60)) + '\ni=1000\ndef use_globals():\n    return ' +
                '+'.join('global_value_%d*global_value_%d' % (k, k) for k in range(60)) + '+i\nprint(use_globals())')
# zero-argument super() used often enough to be worth an alias, with globals renamed
PROGRAMS.append("class Base:\n    def first(self):\n        return 1\n    def second(self):\n        return 2\n    def third(self):\n        return 3\n"
                "class Derived(Base):\n    def first(self):\n        return super().first()+10\n    def second(self):\n        return super().second()+10\n"
                "    def third(self):\n        return super().third()+super().first()+super().second()\nprint(Derived().first(),Derived().second(),Derived().third())")
# hoisted literals used inside comprehensions / lambdas / class bodies nested in the function that receives the alias
PROGRAMS += [
    "def render(rows):\n    return ['<td>'+str(cell)+'</td>'+'<td>' for cell in rows],['<td>' for _ in rows],'<td>'\nprint(render([1,2]))",
    "def table(rows):\n    cells=[('<td class=x>', value, '<td class=x>') for value in rows]\n    pick=lambda *values: ('<td class=x>', values)\n    class Row:\n        tag='<td class=x>'\n        other='<td class=x>'\n    return cells,pick(1),Row.tag\nprint(table([1]))",
    "__all__=['public_function']\nMESSAGE='a module level text that repeats'\ndef public_function():\n    return 'a module level text that repeats','a module level text that repeats','a module level text that repeats'\nprint(public_function(),MESSAGE)",
    "def masks(flags):\n    return flags&(1<<17),flags|(1<<18),flags^(255<<16),flags&(1<<19)\nprint(masks(3))",
]
# repaired defects reported by the bug-hunting sub-agents: a regression is an ordinary violation
PROGRAMS += [
    "x='global'\ndef f():\n    x='local'\n    class C:\n        print(x)\n        if 0: del x\nf()",
    "eval = eval\ndef compute(expression_text, threshold_value=10):\n    doubled_threshold = threshold_value * 2\n    return eval(expression_text)\nprint(compute('doubled_threshold + 1'))",
    "__all__ = ('public_api',)\ndef public_api():\n    return 1\ndef helper_function():\n    return public_api()\nprint(helper_function(), __all__)",
    "import sys\nif sys:\n    __all__ = ['public_api']\ndef public_api():\n    return 1\nprint(public_api(), __all__)",
    "from __future__ import annotations\ndef make():\n    class Point:\n        x: 'coordinate in millimetres' = 0\n        y: 'coordinate in millimetres' = 0\n    def scaled(a: 'coordinate in millimetres' = 0) -> 'coordinate in millimetres':\n        return a\n    return sorted(Point.__annotations__.items()), scaled(2)\nprint(make())",
    "__all__: list = ['public_api']\n__all__ += ['other_api']\ndef public_api():\n    return 1\ndef other_api():\n    return 2\ndef helper_function():\n    return public_api() + other_api()\nprint(helper_function(), __all__)",
    "def make_base():\n    class Base:\n        def __init__(self): self.__token = 'base'\n        def base_token(self): return self.__token\n    return Base\ndef make_derived(base):\n    class Derived(base):\n        def __init__(self): super().__init__(); self.__token = 'derived'\n        def derived_token(self): return self.__token\n    return Derived\nd = make_derived(make_base())()\nprint(d.base_token(), d.derived_token())",
]
# a class body inside a function that declares a name global / nonlocal (or not) and reads / binds it, with a same-named function local and module global
for _decl in ('global registry', 'nonlocal registry', 'pass'):
    for _use in ('seen = registry[0]', 'registry = [name]', 'registry.append(name)', 'seen = registry[0]\n        registry = [name]', 'registry += [name]',
                 'seen = [registry[0] for _ in range(1)]', 'def method(self):\n            return registry[0]'):
        PROGRAMS.append("registry = ['module']\ndef make(name):\n    registry = ['local']\n    class Plugin:\n        %s\n        %s\n"
                        "    return registry, getattr(Plugin, 'seen', None), Plugin().method() if hasattr(Plugin, 'method') else None\nprint(make('a'), registry)" % (_decl, _use))
PROGRAMS += list(KNOWN_PROGRAMS)
PROGRAMS.append("def f():\n    pass\n    'not a docstring'\n    return 1\nclass K:\n    pass\n    'not a class docstring'\nprint(f.__doc__, K.__doc__)")      # repaired in e235f6e
# fixed in 7a1a7a4 / f054637 / 3bb1e82 / 8cd404d: a regression is an ordinary violation
GLOBAL_DECLARATION_TAINT = "def declare():\n    global eval\ndef compute(value):\n    doubled=value*2\n    return eval('doubled+value')\nprint(compute(2))"     # repaired in 8cd404d
PROGRAMS.append(GLOBAL_DECLARATION_TAINT)
PROGRAMS.append("class Base:\n    marker='from Base'\nobject=Base\nclass Derived(object):\n    pass\nprint(Derived.marker)")
PROGRAMS.append("value='global value'\ndef outer():\n    value='function value'\n    class Inner:\n        seen=value\n        value='class value'\n    return Inner.seen\nprint(outer())")
PROGRAMS.append("def collect(a, /, **kw):\n    return a, sorted(kw.items())\nprint(collect(1, a=2))")

CLASS_TAINT = "class Formula:\n    def __init__(self, text):\n        self.text=text\n    def eval(self, area_value):\n        doubled_value=area_value*2\n        return eval(self.text)\nprint(Formula('doubled_value+area_value').eval(2))"
TAINT_TRIGGERS = ["eval('1+1')", "exec('pass')", "sorted(k for k in locals() if not k.startswith('_'))", "len(globals())>0", "isinstance(vars(), dict)",
                  "vars(sys.modules[__name__]) is not None"]
TAINT_TEMPLATE = "import sys\nmodule_constant='some repeated text'\ndef tainted_function(first_parameter):\n    local_variable='some repeated text'\n    other_local=first_parameter+1\n    observed=%s\n    return local_variable,other_local,'some repeated text','some repeated text',observed\nprint(tainted_function(1)[:4],module_constant)"
STAR_IMPORT = "from os.path import *\nmodule_constant='some repeated text'\ndef uses_star(first_parameter):\n    local_variable='some repeated text'\n    return basename(local_variable),first_parameter,'some repeated text','some repeated text'\nprint(uses_star(1),module_constant)"


def random_programs(rnd, n):
    """Seeded variations: a function with several locals of different reference counts and name lengths, nested scopes chosen at random."""
    out = []
    names = ['a_name', 'longer_local_name', 'x1', 'value', 'accumulator_value', 'n', 'idx', 'temporary', 'result_list', 'k', 'A', 'B', 'C', 'a', 'b', '_A']
    for i in range(n):
        rnd.shuffle(names)
        ls = names[:rnd.randint(2, 6)]
        body = []
        for j, nm in enumerate(ls):
            body.append('    %s=%d' % (nm, j + 1))
        uses = []
        for nm in ls:
            uses += [nm] * rnd.randint(1, 5)
        rnd.shuffle(uses)
        kind = rnd.choice(['plain', 'closure', 'comprehension', 'class', 'lambda', 'nonlocal', 'global'])
        expr = '+'.join(uses)
        if kind == 'plain':
            body.append('    return %s' % expr)
        elif kind == 'closure':
            body.append('    def inner(extra=%s):\n        return extra+%s\n    return inner()' % (ls[0], expr))
        elif kind == 'comprehension':
            body.append('    return [%s+element for element in range(2) if element<%s+5]' % (expr, ls[0]))
        elif kind == 'class':
            body.append('    class Local:\n        attribute=%s\n        def method(self):\n            return %s\n    return Local.attribute,Local().method()' % (ls[0], expr))
        elif kind == 'lambda':
            body.append('    return (lambda shift, scale=%s: shift*scale+%s)(2)' % (ls[0], expr))
        elif kind == 'nonlocal':
            body.append('    def bump():\n        nonlocal %s\n        %s+=1;%s+=1\n        return %s\n    return bump(),%s' % (','.join(ls[:2]), ls[0], ls[1], expr, expr))
        else:
            body.append('    global %s\n    %s=%s\n    return %s' % ('global_' + ls[0], 'global_' + ls[0], expr, expr))
        lit = rnd.choice(["'text %d'" % i, "b'bytes %d'" % i, 'None', 'True', '0.0', '1', '1.0', '0', 'False', '12345.5'])
        k = rnd.randint(1, 6)
        out.append('def generated(%s):\n%s\nprint(generated(%s),[%s])' % (', '.join('p%d=%d' % (q, q) for q in range(rnd.randint(0, 3))), '\n'.join(body),
                                                                        '', ','.join([lit] * k)))
    return out


# ---------------------------------------------------------------------------------------------------------------------
# oracles

def run(src):
    ns = {'__name__': 'sweep_module'}
    out = io.StringIO()
    exc = None
    try:
        code = compile(src, '<sweep>', 'exec')
    except SyntaxError as e:
        return ('does-not-compile', str(e)[:80]), None
    try:
        with contextlib.redirect_stdout(out):
            exec(code, ns)
    except BaseException as e:  # noqa
        exc = type(e).__name__
    return (out.getvalue(), exc), ns


def public_view(ns):
    out = {}
    for k, v in ns.items():
        if k.startswith('__') or k == 'sys':
            continue
        if isinstance(v, (int, float, str, bytes, bool, tuple, list, dict, set, type(None))):
            try:
                out[k] = repr(v)
            except Exception:
                out[k] = '<unrepr>'
        else:
            out[k] = type(v).__name__
    return out


def interface_names(tree):
    """Identifiers that other code can see: attribute names, keyword names, names bound in class bodies, keyword-callable parameter
    names, imported module/member names, dunder names, module-level bound names, free names."""
    out = {'attr': [], 'kwarg': [], 'classbody': [], 'params': [], 'imports': [], 'dunder': [], 'module': []}
    for n in ast.walk(tree):
        if isinstance(n, ast.Attribute):
            out['attr'].append(n.attr)
        if isinstance(n, ast.keyword) and n.arg:
            out['kwarg'].append(n.arg)
        if isinstance(n, (ast.Import, ast.ImportFrom)):
            for a in n.names:
                out['imports'].append(a.name)
            if isinstance(n, ast.ImportFrom):
                out['imports'].append(n.module or '')
        if isinstance(n, ast.ClassDef):
            # a name the class body declares global / nonlocal is bound outside the class: it is not an attribute of the class
            outside = set(nm for s in n.body if isinstance(s, (ast.Global, ast.Nonlocal)) for nm in s.names)
            for s in n.body:
                if isinstance(s, (ast.FunctionDef, ast.AsyncFunctionDef, ast.ClassDef)) and s.name not in outside:
                    out['classbody'].append(s.name)
                if isinstance(s, (ast.Assign, ast.AnnAssign, ast.AugAssign)):
                    targets = s.targets if isinstance(s, ast.Assign) else [s.target]
                    for tt in targets:
                        for t in ast.walk(tt):
                            if isinstance(t, ast.Name) and isinstance(t.ctx, ast.Store) and t.id not in outside:
                                out['classbody'].append(t.id)
        if isinstance(n, (ast.FunctionDef, ast.AsyncFunctionDef, ast.Lambda)):
            a = n.args
            in_class_method = False
            for p in a.args + a.kwonlyargs:
                out['params'].append(p.arg)
        if isinstance(n, ast.Name) and n.id.startswith('__') and n.id.endswith('__'):
            out['dunder'].append(n.id)
    for s in tree.body:
        for t in ast.walk(s) if isinstance(s, (ast.Assign, ast.AnnAssign, ast.AugAssign, ast.For, ast.With, ast.Import, ast.ImportFrom)) else []:
            if isinstance(t, ast.Name) and isinstance(t.ctx, ast.Store):
                out['module'].append(t.id)
        if isinstance(s, (ast.FunctionDef, ast.AsyncFunctionDef, ast.ClassDef)):
            out['module'].append(s.name)
    return out


def first_params_of_methods(tree):
    """self/cls-like first parameters of plain or @classmethod functions directly in a class body (these may be renamed)."""
    out = set()
    for n in ast.walk(tree):
        if isinstance(n, ast.ClassDef):
            for s in n.body:
                if isinstance(s, (ast.FunctionDef, ast.AsyncFunctionDef)):
                    decs = s.decorator_list
                    ok = len(decs) == 0 or (len(decs) == 1 and isinstance(decs[0], ast.Name) and decs[0].id == 'classmethod')
                    allp = s.args.posonlyargs + s.args.args
                    if ok and allp:
                        out.add(allp[0].arg)
    return out


def check_interface(src, out, opts, fails, label):
    ti, to = ast.parse(src), ast.parse(out)
    a, b = interface_names(ti), interface_names(to)
    for key in ('attr', 'kwarg', 'imports', 'dunder'):
        if sorted(set(a[key])) != sorted(set(b[key])):
            fails.append({'oracle': 'interface', 'options': label, 'input': src, 'failure': '%s names changed: %s -> %s' % (key, sorted(set(a[key])), sorted(set(b[key])))})
            return
    if sorted(set(a['classbody'])) != sorted(set(b['classbody'])):
        fails.append({'oracle': 'interface', 'options': label, 'input': src, 'failure': 'class body names changed: %s -> %s' % (sorted(set(a['classbody'])), sorted(set(b['classbody'])))})
        return
    selfs = first_params_of_methods(ti)
    pa = [p for p in a['params'] if p not in selfs]
    pb = set(b['params'])
    missing = [p for p in pa if p not in pb]
    if missing:
        fails.append({'oracle': 'interface', 'options': label, 'input': src, 'failure': 'keyword-callable parameter names renamed: %s' % missing})
        return
    if not opts.get('rename_globals'):
        ma, mb = set(a['module']), set(b['module'])
        if not ma <= mb:
            fails.append({'oracle': 'interface', 'options': label, 'input': src, 'failure': 'module-level names lost: %s' % sorted(ma - mb)})
        elif any(not x.startswith('_') for x in mb - ma):
            fails.append({'oracle': 'interface', 'options': label, 'input': src, 'failure': 'added module-level names without underscore: %s' % sorted(mb - ma)})


def all_identifiers(tree):
    out = []
    for n in ast.walk(tree):
        for f in ('id', 'name', 'arg', 'attr', 'asname', 'rest', 'module'):
            v = getattr(n, f, None)
            if isinstance(v, str):
                out.append(v)
        if isinstance(n, (ast.Global, ast.Nonlocal)):
            out += list(n.names)
    return out


def check_hoist(src, out, fails, label):
    """every Name that is assigned a constant at the head of a body and did not exist in the input is an alias: check its discipline"""
    ti, to = ast.parse(src), ast.parse(out)
    before = set(all_identifiers(ti))
    for scope in [to] + [n for n in ast.walk(to) if isinstance(n, (ast.FunctionDef, ast.AsyncFunctionDef))]:
        body = scope.body
        i = 0
        while i < len(body) and ((isinstance(body[i], ast.Expr) and isinstance(body[i].value, ast.Constant) and isinstance(body[i].value.value, str))
                                 or (isinstance(body[i], ast.ImportFrom) and body[i].module == '__future__')):
            i += 1
        head_aliases = {}
        j = i
        while j < len(body) and isinstance(body[j], ast.Assign) and len(body[j].targets) == 1 and isinstance(body[j].targets[0], ast.Name) \
                and body[j].targets[0].id not in before:
            head_aliases[body[j].targets[0].id] = body[j].value
            j += 1
        # aliases must not be assigned anywhere else in this scope or below
        for nm, val in head_aliases.items():
            if not isinstance(val, (ast.Constant, ast.Name)):
                fails.append({'oracle': 'hoist', 'options': label, 'input': src, 'failure': 'alias %s bound to a non-constant %s' % (nm, ast.dump(val)[:60])})
            stores = [n for n in ast.walk(scope) if isinstance(n, ast.Name) and n.id == nm and isinstance(n.ctx, (ast.Store, ast.Del))]
            if len(stores) != 1:
                fails.append({'oracle': 'hoist', 'options': label, 'input': src, 'failure': 'alias %s assigned %d times' % (nm, len(stores))})
    # docstrings stay first, __future__ imports stay ahead of other code
    for a, b in zip([ti] + [n for n in ast.walk(ti) if isinstance(n, (ast.FunctionDef, ast.AsyncFunctionDef, ast.ClassDef))],
                    [to] + [n for n in ast.walk(to) if isinstance(n, (ast.FunctionDef, ast.AsyncFunctionDef, ast.ClassDef))]):
        if ast.get_docstring(a, clean=False) != ast.get_docstring(b, clean=False):
            fails.append({'oracle': 'hoist', 'options': label, 'input': src, 'failure': 'docstring of %s changed: %r -> %r' % (getattr(a, 'name', 'module'),
                                                                                                                                     ast.get_docstring(a), ast.get_docstring(b))})
    seen_other = False
    for s in to.body:
        if isinstance(s, ast.ImportFrom) and s.module == '__future__':
            if seen_other:
                fails.append({'oracle': 'hoist', 'options': label, 'input': src, 'failure': '__future__ import is no longer ahead of all other code'})
        elif not (isinstance(s, ast.Expr) and isinstance(s.value, ast.Constant) and isinstance(s.value.value, str)):
            seen_other = True


def size_mechanism(src, kw, growth):
    """Classify a size regression by its mechanism (used to tell the recorded known finding from a new one)."""
    try:
        out = python_minifier.minify(src, **kw)
        t = ast.parse(out)
    except Exception:
        return 'unknown'
    rebinds = 0
    for fn in [n for n in ast.walk(t) if isinstance(n, (ast.FunctionDef, ast.AsyncFunctionDef))]:
        params = set(a.arg for a in fn.args.args + fn.args.kwonlyargs + fn.args.posonlyargs)
        for i, st in enumerate(fn.body):
            if isinstance(st, ast.Assign) and isinstance(st.value, ast.Name) and st.value.id in params and len(st.targets) == 1 \
                    and isinstance(st.targets[0], ast.Name):
                nxt = fn.body[i + 1] if i + 1 < len(fn.body) else None
                if isinstance(nxt, (ast.If, ast.For, ast.While, ast.With, ast.Try, ast.Match, ast.FunctionDef, ast.ClassDef, ast.AsyncFunctionDef,
                                    ast.AsyncFor, ast.AsyncWith)):
                    rebinds += 1
    if rebinds and growth <= 4 * rebinds:
        return 'param-rebind-before-compound-statement'
    if src in KNOWN_PROGRAMS and KNOWN_PROGRAMS[src] in ('hoisted-literal-after-keyword', 'tie-rename-steals-an-import-name', 'hoisted-assignment-indentation-not-priced'):
        return KNOWN_PROGRAMS[src]
    return 'other'


def main(argv):
    seed, nrand, only = int(os.environ.get('VERIF_SEED', '0') or 0), 40, None
    for i, a in enumerate(argv):
        if a == '--seed':
            seed = int(argv[i + 1])
        if a == '--random':
            nrand = int(argv[i + 1])
        if a == '--only':
            only = argv[i + 1]
    rnd = random.Random(seed)
    programs = list(PROGRAMS) + random_programs(rnd, nrand)
    fails = []
    cases = 0
    sizes = []
    for src in programs:
        ref, ref_ns = run(src)
        if ref[0] == 'does-not-compile':
            continue
        for label, opts in OPTION_SETS:
            cases += 1
            try:
                out = python_minifier.minify(src, **opts)
            except Exception as e:
                fails.append({'oracle': 'compile', 'options': label, 'input': src, 'failure': 'minify raised %s: %s' % (type(e).__name__, str(e)[:80])})
                continue
            got, got_ns = run(out)
            if got[0] == 'does-not-compile':
                fails.append({'oracle': 'compile', 'options': label, 'input': src, 'failure': 'output does not compile: %s | %r' % (got[1], out[:200])})
                continue
            if got != ref:
                fails.append({'oracle': 'behaviour', 'options': label, 'input': src, 'failure': 'observable behaviour differs: %r vs %r | output %r' % (ref, got, out[:300])})
                continue
            if not opts.get('rename_globals'):
                pa, pb = public_view(ref_ns), public_view(got_ns)
                extra = {k: v for k, v in pb.items() if k not in pa and not k.startswith('_')}
                lost = {k: v for k, v in pa.items() if pb.get(k) != v}
                if extra or lost:
                    fails.append({'oracle': 'behaviour', 'options': label, 'input': src, 'failure': 'public namespace differs: lost/changed %r, added %r' % (lost, extra)})
                    continue
            check_interface(src, out, opts, fails, label)
            if label in ('hoist-only', 'no-rename'):
                check_hoist(src, out, fails, label)     # without renaming every new identifier is a hoisted alias
        # preserve lists: every local / global name of the program, one at a time for a few
        tree = ast.parse(src)
        module_names = set(interface_names(tree)['module'])
        local_names = set()
        for fn in [n for n in ast.walk(tree) if isinstance(n, (ast.FunctionDef, ast.AsyncFunctionDef, ast.Lambda))]:
            for n in ast.walk(fn):
                if isinstance(n, ast.Name) and isinstance(n.ctx, ast.Store):
                    local_names.add(n.id)
                if isinstance(n, ast.arg):
                    local_names.add(n.arg)
        tests = [(nm, dict(preserve_locals=[nm])) for nm in sorted(local_names - module_names - set(dir(builtins)))[:5]]
        tests += [(nm, dict(rename_globals=True, preserve_globals=nm)) for nm in sorted(module_names - local_names - set(dir(builtins)))[:4]]
        tests += [(nm, dict(rename_globals=True, preserve_globals=[nm], preserve_locals=nm)) for nm in sorted(module_names & local_names)[:2]]
        tests += [(nm, dict(rename_globals=True, preserve_globals=[nm], preserve_locals=[nm])) for nm in sorted(module_names - set(dir(builtins)))[:2]]
        # names listed in a literal __all__ keep every occurrence when globals are renamed
        exported = []
        for st in ast.walk(tree):           # a literal __all__ list may sit inside an if / try statement of the module
            if not isinstance(st, (ast.Assign, ast.AugAssign, ast.AnnAssign)):
                continue
            tgs = st.targets if isinstance(st, ast.Assign) else [getattr(st, 'target', None)]      # any target of a chained assignment
            if any(isinstance(tg, ast.Name) and tg.id == '__all__' for tg in tgs) and isinstance(getattr(st, 'value', None), (ast.List, ast.Tuple)):
                exported += [e.value for e in st.value.elts if isinstance(e, ast.Constant) and isinstance(e.value, str)]
        if exported:
            cases += 1
            for extra_kw in ({}, {'remove_annotations': False}):
                outg = python_minifier.minify(src, rename_globals=True, **extra_kw)
                for nm in exported:
                    if all_identifiers(ast.parse(outg)).count(nm) < all_identifiers(tree).count(nm):
                        fails.append({'oracle': 'preserve', 'options': 'rename_globals with __all__ %r' % (extra_kw,), 'input': src,
                                      'failure': 'name %s listed in __all__ was renamed: %r' % (nm, outg[:200])})
        for nm, kw in tests:
            cases += 1
            kw = dict(kw, remove_annotations=False)
            # the caller's list objects must come back unchanged, and a second call with the same objects gives the same output
            given = dict((k, (list(v) if isinstance(v, list) else v)) for k, v in kw.items())
            try:
                first = python_minifier.minify(src, **kw)
                second = python_minifier.minify(src, **kw)
                if any(isinstance(v, list) and v != given[k] for k, v in kw.items()):
                    fails.append({'oracle': 'frame', 'options': repr(given), 'input': src, 'failure': 'argument list changed by the call: %r' % (kw,)})
                if first != second:
                    fails.append({'oracle': 'frame', 'options': repr(given), 'input': src, 'failure': 'second call with the same argument objects differs'})
                kw = given
            except Exception:
                pass
            try:
                out = python_minifier.minify(src, **kw)
            except Exception as e:
                fails.append({'oracle': 'preserve', 'options': repr(kw), 'input': src, 'failure': 'minify raised %s' % type(e).__name__})
                continue
            before = all_identifiers(tree).count(nm)
            after = all_identifiers(ast.parse(out)).count(nm)
            if after < before:
                fails.append({'oracle': 'preserve', 'options': repr(kw), 'input': src, 'failure': 'name %s occurs %d times in the input and %d in the output %r' % (nm, before, after, out[:200])})
            got, _ = run(out)
            if got != ref:
                fails.append({'oracle': 'behaviour', 'options': repr(kw), 'input': src, 'failure': 'observable behaviour differs with preserve list: %r vs %r' % (ref, got)})
        # size: each size option alone
        base = dict(OFF)
        try:
            l0 = len(python_minifier.minify(src, **base))
            for opt in ('combine_imports', 'remove_pass', 'remove_object_base', 'remove_builtin_exception_brackets', 'remove_explicit_return_none',
                        'convert_posargs_to_args', 'hoist_literals', 'rename_locals', 'rename_globals', 'constant_folding'):
                kw = dict(base)
                kw[opt] = True
                cases += 1
                l1 = len(python_minifier.minify(src, **kw))
                if l1 > l0:
                    fails.append({'oracle': 'size', 'options': opt, 'input': src, 'mechanism': size_mechanism(src, kw, l1 - l0),
                                  'failure': 'output grows from %d to %d bytes when %s is enabled alone' % (l0, l1, opt)})
            d0 = len(python_minifier.minify(src))
            for opt in ('hoist_literals', 'rename_locals', 'constant_folding', 'combine_imports'):
                cases += 1
                l1 = len(python_minifier.minify(src, **{opt: False}))
                if d0 > l1:
                    fails.append({'oracle': 'size', 'options': 'default minus ' + opt, 'input': src, 'mechanism': size_mechanism(src, {}, d0 - l1),
                                  'failure': 'default output (%d bytes) is longer than with %s disabled (%d)' % (d0, opt, l1)})
        except Exception as e:
            fails.append({'oracle': 'compile', 'options': 'size', 'input': src, 'failure': 'minify raised %s' % type(e).__name__})
    # freeze
    extra_taint = [GLOBAL_DECLARATION_TAINT, CLASS_TAINT]
    for trig in TAINT_TRIGGERS + extra_taint:
        for src in ((TAINT_TEMPLATE % trig,) if trig not in extra_taint else (trig,)):
            for label, opts in OPTION_SETS + [('everything', dict(rename_globals=True, remove_literal_statements=True))]:
                cases += 1
                try:
                    out = python_minifier.minify(src, **opts)
                except Exception as e:
                    fails.append({'oracle': 'compile', 'options': label, 'input': src, 'failure': 'minify raised %s: %s' % (type(e).__name__, str(e)[:80])})
                    continue
                a, b = sorted(all_identifiers(ast.parse(src))), sorted(all_identifiers(ast.parse(out)))
                if a != b:
                    fails.append({'oracle': 'freeze', 'options': label, 'input': src, 'failure': 'identifiers changed in a module that uses %s: %s' % (trig, sorted(set(a) ^ set(b)))})
                got, _ = run(out)
                if got != run(src)[0]:
                    fails.append({'oracle': 'behaviour', 'options': label, 'input': src, 'failure': 'behaviour differs in tainted module'})
    for label, opts in OPTION_SETS:
        cases += 1
        try:
            out = python_minifier.minify(STAR_IMPORT, **opts)
        except Exception as e:
            fails.append({'oracle': 'compile', 'options': label, 'input': STAR_IMPORT, 'failure': 'minify raised %s: %s' % (type(e).__name__, str(e)[:80])})
            continue
        a, b = sorted(all_identifiers(ast.parse(STAR_IMPORT))), sorted(all_identifiers(ast.parse(out)))
        if a != b:
            fails.append({'oracle': 'freeze', 'options': label, 'input': STAR_IMPORT, 'failure': 'identifiers changed in a module with a star import: %s' % sorted(set(a) ^ set(b))})
    # attribution: a behaviour failure that persists with renaming and hoisting switched off is not a renaming failure (C03/C06 ask for 'behaviour:rename')
    for f in fails:
        if f['oracle'] != 'behaviour':
            continue
        try:
            kw = dict(OPTION_SETS).get(f['options'])
            if kw is None:
                kw = eval(f['options']) if f['options'].startswith('{') else {}
            ref = run(f['input'])[0]
            if kw.get('hoist_literals', True) and run(python_minifier.minify(f['input'], **dict(kw, hoist_literals=False)))[0] == ref:
                f['attributed'] = 'hoist'
            else:
                kw = dict(kw, rename_locals=False, rename_globals=False, hoist_literals=False)
                f['attributed'] = 'other' if run(python_minifier.minify(f['input'], **kw))[0] != ref else 'rename'
        except Exception:
            f['attributed'] = 'rename'
    if '--safe-only' in argv:
        # C01 quantifies over the documented-safe options only: rename_globals and remove_literal_statements are not among them
        unsafe = set(l for l, o in OPTION_SETS if o.get('rename_globals') or o.get('remove_literal_statements')) | {'everything', 'rename_globals with __all__'}
        fails = [f for f in fails if f['options'] not in unsafe and "'rename_globals': True" not in f['options']]
    if only:
        want = only.split(',')
        fails = [f for f in fails if f['oracle'] in want or (f['oracle'] == 'behaviour' and 'behaviour:' + f.get('attributed', 'rename') in want)]
    for f in fails:
        if f.get('input') in KNOWN_PROGRAMS and not f.get('mechanism'):
            f['mechanism'] = KNOWN_PROGRAMS[f['input']]
    fails.sort(key=lambda f: bool(f.get('mechanism')))
    print(json.dumps({'cases': cases, 'failures': fails[:60], 'n_failures': len(fails),
                      'by_oracle': dict((o, len([f for f in fails if f['oracle'] == o])) for o in sorted(set(f['oracle'] for f in fails)))}))


if __name__ == '__main__':
    main(sys.argv[1:])
