#!/venv/bin/python
"""Bounded stand-in for C02/C08 (labelled bounded, never counted as proved): every (slot, child kind) combination of
spec/astlib.py, optionally with one more level of nesting, is printed by the real package and re-parsed strictly.

usage: enum_print.py [--depth 2|3] [--slot-filter K.field] [--child-filter Tag] [--jobs N]
prints one JSON object: {"cases": n, "skipped_invalid": n, "failures": [...]}
"""
import ast
import json
import os
import sys
import warnings

warnings.simplefilter('ignore')
HERE = os.path.dirname(os.path.dirname(os.path.abspath(__file__)))
sys.path.insert(0, HERE)
from spec import astlib  # noqa: E402


def parser_producible(m):
    try:
        text = ast.unparse(m)
        back = ast.parse(text)
    except Exception:
        return False
    return astlib.strict_equal(m, back) is None


def main(argv):
    depth = 2
    slot_filter = child_filter = None
    compile_too = False
    i = 0
    while i < len(argv):
        if argv[i] == '--depth':
            depth = int(argv[i + 1]); i += 2
        elif argv[i] == '--slot-filter':
            slot_filter = argv[i + 1]; i += 2
        elif argv[i] == '--child-filter':
            child_filter = argv[i + 1]; i += 2
        elif argv[i] == '--shard':
            shard = argv[i + 1]; i += 2
        else:
            i += 1
    shard_i, shard_n = 0, 1
    for j, a in enumerate(argv):
        if a == '--shard':
            shard_i, shard_n = [int(x) for x in argv[j + 1].split('/')]
    kinds = astlib.expr_kinds()
    slots = astlib.slots()
    cases = skipped = 0
    failures = []
    n = 0
    for slabel, K, field, build in slots:
        if slot_filter and not (slot_filter == '%s.%s' % (K, field) or slabel.startswith(slot_filter)):
            continue
        for clabel, mk in kinds:
            if child_filter and clabel.split(':')[0] != child_filter.split(':')[0]:
                continue
            if child_filter and ':' in child_filter and clabel != child_filter:
                continue
            if not astlib.child_allowed(slabel, K, field, clabel):
                continue
            variants = [(clabel, mk)]
            if depth >= 3:
                # one more level: the child itself gets each kind in its first expression slot
                for s2, K2, f2, b2 in slots:
                    if K2 != clabel.split(':')[0]:
                        continue
                    if ':' in clabel and not s2.startswith(clabel.replace(':', ':', 1).split('.')[0]):
                        continue
                    for c3, mk3 in kinds:
                        if not astlib.child_allowed(s2, K2, f2, c3):
                            continue

                        def mk2(b2=b2, mk3=mk3):
                            kind, node = b2(mk3())
                            if kind != 'expr':
                                raise ValueError
                            return node
                        if b2(mk3())[0] == 'expr':
                            variants.append(('%s<%s<%s' % (clabel, s2, c3), mk2))
            for vlabel, mkv in variants:
                n += 1
                if n % shard_n != shard_i:
                    continue
                try:
                    kind, node = build(mkv())
                    m = astlib.wrap_module(kind, node)
                except Exception:
                    skipped += 1
                    continue
                if not parser_producible(m) and not (slabel.startswith('withitem.context_expr') and vlabel.split(':')[0].split('<')[0] == 'Tuple'):
                    # (CPython's own ast.unparse drops the parentheses of a sole tuple with-item, so it cannot vouch for that shape)
                    skipped += 1
                    continue
                cases += 1
                r = astlib.roundtrip(m)
                if r:
                    failures.append({'slot': slabel, 'child': vlabel, 'source': ast.unparse(m), 'failure': r})
    print(json.dumps({'cases': cases, 'skipped_invalid': skipped, 'failures': failures[:200], 'n_failures': len(failures)}))


if __name__ == '__main__':
    main(sys.argv[1:])
