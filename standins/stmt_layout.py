#!/venv/bin/python
"""Bounded stand-in (labelled bounded) for statement layout (newlines, semicolons, indentation: L4 of C02/C08).

Every ordered pair (and, with --triples, a seeded sample of triples) of 40 statement templates -- every simple and compound statement kind --
is placed (a) at module level, (b) in a function body, (c) in every kind of nested suite (if/elif/else, for/else, while/else, try/except/else/finally,
with, class, match case, async variants); the module is minified with every transform off and re-parsed strictly.

prints {"cases": n, "failures": [...], "n_failures": n}
"""
import ast
import json
import os
import random
import sys
import warnings

warnings.simplefilter('ignore')
HERE = os.path.dirname(os.path.dirname(os.path.abspath(__file__)))
sys.path.insert(0, HERE)
from spec import astlib  # noqa: E402
import python_minifier  # noqa: E402

OFF = dict(remove_annotations=False, remove_pass=False, remove_literal_statements=False, combine_imports=False, hoist_literals=False,
           rename_locals=False, rename_globals=False, remove_object_base=False, convert_posargs_to_args=False, preserve_shebang=False,
           remove_asserts=False, remove_debug=False, remove_explicit_return_none=False, remove_builtin_exception_brackets=False,
           constant_folding=False)

SIMPLE = ['x=1', 'x+=1', 'x:int=1', '(y):int', 'f(x)', 'pass', 'del x', 'assert x,y', 'import a.b as c', 'from . import d', 'global g', 'raise E from e',
          '"doc"', 'x=yield', 'await z', 'return x', 'lambda:0', 'x=[i for i in y]', 'type T=int', 'nonlocal n', 'break', 'continue']
COMPOUND = ['if a:\n p\nelif b:\n q\nelse:\n r', 'if a:\n if b:\n  p\n else:\n  q', 'for i in y:\n p\nelse:\n q', 'while a:\n p', 'try:\n p\nexcept E as e:\n q\nelse:\n r\nfinally:\n s',
            'try:\n p\nexcept* E:\n q', 'with a as b,c:\n p', 'def g(a,*,b=1):\n p', 'class C(B):\n p', '@d\ndef h():\n p', '@d\nclass D:\n p', 'match a:\n case 1:\n  p\n case _:\n  q',
            'async def k():\n await p', 'async for i in y:\n p', 'async with a:\n p', 'if a:p', 'for i in y:\n if a:\n  break\n else:\n  continue', 'def m():\n def n():\n  p\n return n']
CONTEXTS = ['%s', 'async def F():\n%s', 'async def F():\n v=0\n%s\n w=0', 'class K:\n%s', 'async def F():\n if a:\n%s\n else:\n%s', 'async def F():\n for i in y:\n%s\n else:\n%s',
            'async def F():\n while a:\n%s', 'async def F():\n try:\n%s\n except E:\n%s\n else:\n%s\n finally:\n%s', 'async def F():\n with a:\n%s',
            'async def F():\n match a:\n  case 1:\n%s\n  case _:\n%s', 'async def F():\n async with a:\n%s', 'async def F():\n def G():\n  nonlocal_anchor=0\n%s']


def indent(block, n):
    return '\n'.join(' ' * n + l for l in block.split('\n'))


def build(ctx, stmts):
    body = '\n'.join(stmts)
    if ctx == '%s':
        return body
    # indentation of the placeholder = indentation of its line in the context + 1
    out = ctx
    parts = ctx.split('%s')
    res = parts[0]
    for k in range(1, len(parts)):
        # depth: count of leading spaces of the line before the placeholder, plus one
        before = res.rstrip('\n').split('\n')[-1]
        depth = len(before) - len(before.lstrip(' ')) + 1
        res += indent(body, depth) + parts[k]
    return res


def valid(src):
    try:
        compile(src, 's', 'exec', dont_inherit=True)
        return True
    except (SyntaxError, ValueError):
        return False


def main(argv):
    seed = int(os.environ.get('VERIF_SEED', '0') or 0)
    rnd = random.Random(seed)
    ntriples = 0
    if '--triples' in argv:
        ntriples = int(argv[argv.index('--triples') + 1])
    stmts = SIMPLE + COMPOUND
    seqs = [[a] for a in stmts] + [[a, b] for a in stmts for b in stmts]
    for _ in range(ntriples):
        seqs.append([rnd.choice(stmts) for _ in range(3)])
    cases, fails = 0, []
    seen = set()
    for ctx in CONTEXTS:
        for seq in seqs:
            src = build(ctx, seq)
            if not valid(src):
                continue
            tree = ast.parse(src)
            key = ast.dump(tree)
            if key in seen:
                continue
            seen.add(key)
            cases += 1
            try:
                out = python_minifier.minify(src, **OFF)
            except Exception as e:
                fails.append({'input': src, 'failure': 'minify raised %s: %s' % (type(e).__name__, str(e)[:120])})
                continue
            try:
                back = ast.parse(out)
            except SyntaxError as e:
                fails.append({'input': src, 'failure': 'output does not parse (%s): %r' % (e.msg, out[:200])})
                continue
            d = astlib.strict_equal(tree, back)
            if d:
                fails.append({'input': src, 'failure': 'output parses to a different tree (%s): %r' % (d, out[:200])})
    # depth family: long operator chains and elif ladders that the interpreter compiles (recursive visitors may run out of stack)
    deep = ['x = ' + ' + '.join(['a'] * n) for n in (50, 200, 400)] + ['if a0:\n p\n' + ''.join('elif a%d:\n p\n' % k for k in range(1, n)) for n in (50, 200, 400)] + \
           ['x = ' + '[' * 60 + 'a' + ']' * 60, 'x = ' + 'f(' * 60 + 'a' + ')' * 60, 'x = a' + '.b' * 400, 'x = ' + 'not ' * 90 + 'a']
    for src in deep:
        if not valid(src):
            continue
        cases += 1
        try:
            out = python_minifier.minify(src, **OFF)
            d = astlib.strict_equal(ast.parse(src), ast.parse(out))
            if d:
                fails.append({'input': src[:120] + '...', 'failure': 'output parses to a different tree (%s)' % d})
        except RecursionError:
            fails.append({'input': src[:60] + '... (%d characters)' % len(src), 'mechanism': 'recursion-depth', 'failure': 'minify raised RecursionError on a module the interpreter compiles'})
        except Exception as e:
            fails.append({'input': src[:120] + '...', 'failure': 'minify raised %s: %s' % (type(e).__name__, str(e)[:100])})
    fails.sort(key=lambda f: bool(f.get('mechanism')))
    print(json.dumps({'cases': cases, 'failures': fails[:40], 'n_failures': len(fails)}))


if __name__ == '__main__':
    main(sys.argv[1:])
