#!/venv/bin/python
"""Bounded stand-in (labelled bounded) for f-strings.  Family 1, literal text: every sequence of up to two of 26 text pieces (control characters,
quotes, backslashes, braces, non-ASCII, a lone surrogate) before / after a replacement field, in a nested f-string, in a format spec and as a
str / bytes constant inside the field.  Family 2, the replacement-field opening: every expression whose left-most descendant chain
(through attribute, subscript, call, binary operator (13 operators), comparison, boolean operator, conditional expression; depth <= --depth)
ends in a set/dict display or comprehension is put into f"{...}", minified and re-parsed strictly.

prints {"cases": n, "failures": [...], "n_failures": n}
"""
import ast
import json
import sys
import warnings

warnings.simplefilter('ignore')
import python_minifier

LEAVES = ['{1}', '{1:2}', '{x for x in y}', '{x:1 for x in y}', '{*a}', '{**a}']
BINOPS = ['+', '-', '*', '/', '//', '%', '**', '<<', '>>', '|', '^', '&', '@']


def wrappers(e):
    yield '%s.a' % e
    yield '%s[0]' % e
    yield '%s(1)' % e
    for op in BINOPS:
        yield '%s%s a' % (e, op)
    yield '%s<a' % e
    yield '%s<a<b' % e
    yield '%s in a' % e
    yield '%s and a' % e
    yield '%s or a or b' % e
    yield '%s if a else b' % e
    yield '(%s)' % e


def strip(tree):
    return ast.dump(tree)


TEXT_PIECES = ['a', '\n', '\r', '\t', '\0', '\x08', '\x0b', '\x0c', "'", '"', "'''", '"""', '\\', '{', '}', '\xe9', '\u20ac', '\U0001F600', '\x7f', '\x80',
               '\xa0', ' ', '#', '\\n', '\\N{BULLET}', '\ud800']


def text_family():
    """f-strings built as trees (text part, one replacement field, text part) and as nested f-strings / format specs; source by ast.unparse."""
    out = []

    def js(parts):
        vals = []
        for p in parts:
            if isinstance(p, str):
                if p:
                    vals.append(ast.Constant(value=p))
            else:
                vals.append(p)
        return ast.JoinedStr(values=vals)
    field = lambda e, spec=None: ast.FormattedValue(value=e, conversion=-1, format_spec=spec)
    x = ast.Name(id='x', ctx=ast.Load())
    seqs = [a for a in TEXT_PIECES] + [a + b for a in TEXT_PIECES for b in TEXT_PIECES]
    for t in seqs:
        out.append(js([t, field(x)]))
        out.append(js([field(x), t]))
    for t in TEXT_PIECES:
        out.append(js([t, field(js([t, field(x)])), t]))                          # nested f-string with the same text
        out.append(js([field(x, js([t if t not in '{}' else 'w', field(x)]))]))    # format spec text
        out.append(js([t, field(ast.Constant(value=t + 'k')), t]))                 # string constant inside the field
        out.append(js([t, field(ast.Constant(value=(t + 'k').encode('utf-8', 'surrogatepass')))]))
    res = []
    for tree in out:
        m = ast.Module(body=[ast.Assign(targets=[ast.Name(id='v', ctx=ast.Store())], value=tree, lineno=1)], type_ignores=[])
        ast.fix_missing_locations(m)
        try:
            src = ast.unparse(m)
            ast.parse(src)
        except Exception:
            continue
        res.append(src)
    return res


def main(argv):
    depth = 2
    if '--depth' in argv:
        depth = int(argv[argv.index('--depth') + 1])
    level = list(LEAVES)
    exprs = list(level)
    for _ in range(depth):
        nxt = []
        for e in level:
            for w in wrappers(e):
                nxt.append(w)
        exprs += nxt
        level = nxt
    cases, fails = 0, []
    seen = set()
    for src in text_family():
        try:
            key = strip(ast.parse(src))
        except (SyntaxError, ValueError):
            continue
        if key in seen:
            continue
        seen.add(key)
        cases += 1
        try:
            out = python_minifier.minify(src, rename_locals=False, hoist_literals=False, constant_folding=False)
        except Exception as ex:
            fails.append({'input': src, 'mechanism': 'format-spec-quirk' if ':\r{' in src else None, 'failure': 'minify raised %s: %s' % (type(ex).__name__, str(ex)[:100])})
            continue
        try:
            if strip(ast.parse(out)) != key:
                fails.append({'input': src, 'failure': 'output parses to a different tree: %r' % out[:200]})
        except (SyntaxError, ValueError) as ex:
            fails.append({'input': src, 'failure': 'output does not parse: %r' % out[:200]})
    # family 3: text that looks like a debug specifier for an equal but differently typed constant; empty nested f-strings; format spec corner cases
    lookalikes = [("False", "0"), ("0", "False"), ("1", "1.0"), ("1.0", "1"), ("True", "1"), ("0j", "0"), ("[1, 2]", "[1.0, 2.0]"), ("a[True]", "a[1]"), ("x", "x"), ("1", "1")]
    extra = ["v = f'%s={%s!r}'" % (t, e) for t, e in lookalikes] + ["v = f'%s={%s!r:>5}'" % (t, e) for t, e in lookalikes[:4]] + \
            ["v = f\"{f''}\"", "v = f\"{s:>{w}}{f''}\"", "v = f'''{x if x else f\"\"}'''", "v = f'{a:\\ud800}'", "v = f'{a:\\x00}'"]
    quirks = ["v = f'{x:\r{x}}'", "v = f'{t:\\N{BULLET}^20}'", "v = f'{a:{{b}}}'", "v = f'{a:{{}}}'", "v = f\"{a:'''\\\"\\\"\\\"}\"", "v = f'{x:\\x7d}'"]
    for src in extra + quirks:
        try:
            key = strip(ast.parse(src))
        except (SyntaxError, ValueError):
            continue
        cases += 1
        mech = 'format-spec-quirk' if src in quirks else None
        try:
            out = python_minifier.minify(src, rename_locals=False, hoist_literals=False, constant_folding=False)
            if strip(ast.parse(out)) != key:
                fails.append({'input': src, 'mechanism': mech, 'failure': 'output parses to a different tree: %r' % out[:200]})
        except Exception as ex:
            fails.append({'input': src, 'mechanism': mech, 'failure': 'minify raised %s: %s' % (type(ex).__name__, str(ex)[:100])})
    for e in exprs:
        for conv in ('', '!r', ':>{w}'):
            src = 'x=f"{ %s%s}"' % (e, conv)
            try:
                tree = ast.parse(src)
            except SyntaxError:
                continue
            key = strip(tree)
            if key in seen:
                continue
            seen.add(key)
            cases += 1
            try:
                out = python_minifier.minify(src, rename_locals=False, hoist_literals=False, constant_folding=False)
            except Exception as ex:
                fails.append({'input': src, 'failure': 'minify raised %s: %s' % (type(ex).__name__, str(ex)[:100])})
                continue
            try:
                back = ast.parse(out)
            except SyntaxError as ex:
                fails.append({'input': src, 'failure': 'output does not parse: %r' % out})
                continue
            if strip(back) != key:
                fails.append({'input': src, 'failure': 'output parses to a different tree: %r' % out})
    fails.sort(key=lambda f: bool(f.get('mechanism')))
    print(json.dumps({'cases': cases, 'failures': fails[:40], 'n_failures': len(fails)}))


if __name__ == '__main__':
    main(sys.argv[1:])
