#!/venv/bin/python
"""Bounded stand-in (labelled bounded) for the f-string replacement-field opening: every expression whose left-most descendant chain
(through attribute, subscript, call, binary operator (13 operators), comparison, boolean operator, conditional expression; depth <= --depth)
ends in a set/dict display or comprehension is put into f"{...}", minified and re-parsed strictly.

prints {"cases": n, "failures": [...], "n_failures": n}
"""
import ast
import json
import sys
import warnings

warnings.simplefilter('ignore')
import python_minifier

LEAVES = ['{1}', '{1:2}', '{x for x in y}', '{x:1 for x in y}', '{*a}', '{**a}']
BINOPS = ['+', '-', '*', '/', '//', '%', '**', '<<', '>>', '|', '^', '&', '@']


def wrappers(e):
    yield '%s.a' % e
    yield '%s[0]' % e
    yield '%s(1)' % e
    for op in BINOPS:
        yield '%s%s a' % (e, op)
    yield '%s<a' % e
    yield '%s<a<b' % e
    yield '%s in a' % e
    yield '%s and a' % e
    yield '%s or a or b' % e
    yield '%s if a else b' % e
    yield '(%s)' % e


def strip(tree):
    return ast.dump(tree)


def main(argv):
    depth = 2
    if '--depth' in argv:
        depth = int(argv[argv.index('--depth') + 1])
    level = list(LEAVES)
    exprs = list(level)
    for _ in range(depth):
        nxt = []
        for e in level:
            for w in wrappers(e):
                nxt.append(w)
        exprs += nxt
        level = nxt
    cases, fails = 0, []
    seen = set()
    for e in exprs:
        for conv in ('', '!r', ':>{w}'):
            src = 'x=f"{ %s%s}"' % (e, conv)
            try:
                tree = ast.parse(src)
            except SyntaxError:
                continue
            key = strip(tree)
            if key in seen:
                continue
            seen.add(key)
            cases += 1
            try:
                out = python_minifier.minify(src, rename_locals=False, hoist_literals=False, constant_folding=False)
            except Exception as ex:
                fails.append({'input': src, 'failure': 'minify raised %s: %s' % (type(ex).__name__, str(ex)[:100])})
                continue
            try:
                back = ast.parse(out)
            except SyntaxError as ex:
                fails.append({'input': src, 'failure': 'output does not parse: %r' % out})
                continue
            if strip(back) != key:
                fails.append({'input': src, 'failure': 'output parses to a different tree: %r' % out})
    print(json.dumps({'cases': cases, 'failures': fails[:40], 'n_failures': len(fails)}))


if __name__ == '__main__':
    main(sys.argv[1:])
