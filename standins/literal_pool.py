#!/venv/bin/python
"""Bounded stand-in for C02 layer L3 / C07 (labelled bounded): a pool of constants of every type (and a structured sweep of floats:
every binary exponent with boundary and seeded random mantissas) is printed by the real package in several token contexts and
re-parsed strictly (type, value, sign).

usage: literal_pool.py [--sweep N] [--seed S]   prints {"cases": n, "failures": [...]}
"""
import ast
import json
import os
import random
import struct
import sys
import warnings

warnings.simplefilter('ignore')
HERE = os.path.dirname(os.path.dirname(os.path.abspath(__file__)))
sys.path.insert(0, HERE)
from spec import astlib  # noqa: E402

BASE = [0, 1, 7, 10, 255, 256, 4095, 65536, 10 ** 6, 10 ** 15, 10 ** 16, 2 ** 64, 10 ** 30, 16 ** 20, True, False, None, Ellipsis,
        0.0, 1.0, 0.5, 1.5, 100.0, 1000.0, 120000.0, 1e16, 1e17, 1.5e16, 18014398509481984.0, 1e22, 1e23, 1e-5, 1.5e-7, 1e100, 1e-100,
        1.7976931348623157e308, 5e-324, 0.1, 2.5e-10, 123456789.125, float('inf'), 1j, 0j, 1.5j, 1e100j, complex(0, float('inf')),
        '', 'a', "it's", '"', '\\', '\n', '\x00', '\u20ac', '\U0001f600', '\ud800', b'', b'a', b"'", b'\\', b'\xff\x00', 'a' * 300]
# 17-significant-digit and short mantissas in every decade (systematic, not tuned to any known failure)
for _k in list(range(-30, 31)) + [-300, -100, 100, 300]:
    for _m in ('1', '1.5', '1.25', '9.999999999999999', '1.2345678901234567', '1.8014398509481984', '5.000000000000001'):
        BASE.append(float('%se%d' % (_m, _k)))
# sources that are parsed (not built), for shapes CPython's own unparser cannot vouch for
SOURCES = ['x=0x' + 'f' * 5000, 'x=' + '9' * 4300, "f'{not b\'b\'}'", "f'{x in b\'b\'!r:>{w}}'", "f'{x!r:{y}}{{}}'", 'x=1if y else 2', 'x=0x1for y in z',
           'x=1 .real', 'x=1..real', 'x=1.0.real', 'x=1j.imag', 'x=-1**-1', 'x=(-1)**(-1)', 'x=not-1', 'x=a--b', 'x=a<-b', 'x=a if b else-c',
           'print(*a,**b)', 'x=[*a,*b]', 'x={**a,**b}', 'lambda*a,**k:0', 'x=...', 'x=a[...]', 'x=a[1:2,...]', 'with ((a,b)):pass',
           'async def f():\n async with a as b,c:pass\n await (yield)', 'x=1_000', 'x=0o17', 'x=0b11', 'x=1e5', 'x=1E-5', 'x=.5', 'x=5.',
           'x=r"\\d"', 'x=b"\\x00"', 'x="\\N{BULLET}"', "x='''a\nb'''", 'x=u"a"', 'x=rb"a"']

CONTEXTS = ['x=%s', 'x=-%s', 'x=a if %s else b', 'x=a in %s', 'print(%s)', 'x=%s if a else b', 'x=a is %s', 'x=[%s for y in %s]', 'x=%s.real',
            'x=lambda:%s', 'x=not %s', 'x=%s or %s', 'x=%s**%s', 'x=%s[%s]', 'x={%s:%s}', 'match y:\n case %s:pass',
            'def f():\n return %s', 'async def f():\n await %s', 'x=a<%s']


def build(ctx_src, v):
    m = ast.parse(ctx_src.replace('%s', 'PLACEHOLDER'))
    for n in ast.walk(m):
        for f, val in ast.iter_fields(n):
            if isinstance(val, ast.Name) and val.id == 'PLACEHOLDER':
                setattr(n, f, ast.Constant(value=v))
            elif isinstance(val, list):
                for i, e in enumerate(val):
                    if isinstance(e, ast.Name) and e.id == 'PLACEHOLDER':
                        val[i] = ast.Constant(value=v)
    ast.fix_missing_locations(m)
    return m


def main(argv):
    sweep = 0
    seed = int(os.environ.get('VERIF_SEED', '0') or 0)
    for i, a in enumerate(argv):
        if a == '--sweep':
            sweep = int(argv[i + 1])
        if a == '--seed':
            seed = int(argv[i + 1])
    rnd = random.Random(seed)
    vals = list(BASE)
    ctxs = list(CONTEXTS)
    if sweep:
        for e in range(0, 2047):
            mants = [0, 1, (1 << 52) - 1, 1 << 51] + [rnd.getrandbits(52) for _ in range(sweep)]
            for mant in mants:
                bits = (e << 52) | mant
                f = struct.unpack('>d', struct.pack('>Q', bits))[0]
                if f != f:
                    continue
                vals.append(f)
        for k in range(0, 330):
            vals += [float('1e%d' % k), float('1e-%d' % k), float('%de%d' % (rnd.randint(1, 99999), k % 300))]
        ctxs = ['x=%s', 'x=-%s', 'x=a if %s else b', 'x=%s.real']
    cases = 0
    fails = []
    for v in vals:
        for c in ctxs:
            if c.startswith('match') and (not isinstance(v, (int, float, complex, str, bytes)) or isinstance(v, bool)):
                continue
            try:
                m = build(c, v)
                ok = astlib.strict_equal(m, ast.parse(ast.unparse(m))) is None
            except Exception:
                ok = False
            if not ok:
                continue
            cases += 1
            r = astlib.roundtrip(m)
            if r:
                fails.append({'input': '%r in %r' % (v, c), 'failure': r})
    if not sweep:
        for src in SOURCES:
            try:
                m = ast.parse(src)
            except (SyntaxError, ValueError):
                continue
            cases += 1
            r = astlib.roundtrip(m)
            if r:
                fails.append({'input': 'source %r' % (src[:80],), 'failure': r[:300]})
    print(json.dumps({'cases': cases, 'failures': fails[:50], 'n_failures': len(fails)}))


if __name__ == '__main__':
    main(sys.argv[1:])
