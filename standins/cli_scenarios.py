#!/venv/bin/python
"""Bounded stand-in for C13/C14/C15 (labelled bounded): fixed pool of end-to-end CLI scenarios on real temporary trees, plus every
single flag and a seeded sample of flag subsets compared with the documented API call.  prints {"cases": n, "failures": [...]}"""
import json
import os
import random
import sys

HERE = os.path.dirname(os.path.dirname(os.path.abspath(__file__)))
sys.path.insert(0, HERE)
os.environ.setdefault('VERIF_REPO', os.path.dirname(os.path.dirname(os.path.dirname(__import__('python_minifier').__file__))))
from props import replay  # noqa: E402


def main(argv):
    n = 12
    for i, a in enumerate(argv):
        if a == '--subsets':
            n = int(argv[i + 1])
    fails = replay.cli_scenarios()
    cases = 14
    import ast
    import python_minifier.__main__ as pmm
    tree = ast.parse(open(pmm.__file__).read())
    flags = []
    for node in ast.walk(tree):
        if isinstance(node, ast.Call) and isinstance(node.func, ast.Attribute) and node.func.attr == 'add_argument':
            kw = dict((k.arg, k.value) for k in node.keywords)
            act = kw.get('action')
            if isinstance(act, ast.Constant) and act.value in ('store_true', 'store_false'):
                long = [a.value for a in node.args if isinstance(a, ast.Constant) and a.value.startswith('--')]
                if long and long[0] != '--in-place':
                    flags.append(long[0])
    rnd = random.Random(int(os.environ.get('VERIF_SEED', '0') or 0))
    sets = [[f] for f in flags] + [[]]
    for _ in range(n):
        sets.append(sorted(rnd.sample(flags, rnd.randint(2, len(flags)))))
    for fs in sets:
        if '--remove-class-attribute-annotations' in fs and '--no-remove-annotations' in fs:
            fs = [f for f in fs if f != '--no-remove-annotations']
        cases += 1
        r = replay.cli_vs_api(fs)
        if not r['agree']:
            fails.append({'scenario': 'cli vs api', 'flags': fs, 'cli_rc': r['cli_rc'], 'cli_out': r['cli_out'][:200], 'expected': (r['expected'] or '')[:200]})
    # preserve lists: every name is bound both at module level and in a function, so a name that leaks from one list into the other
    # (or is dropped from its own) changes the output; one, the other and both options, comma-separated and repeated spellings
    psrc = ('name_a=1;name_b=2;name_c=3\ndef f():\n    name_a=4;name_b=5;name_c=6\n    return name_a+name_a+name_b+name_b+name_c+name_c\n'
            'print(name_a,name_a,name_b,name_b,name_c,name_c,f())\n')
    for pres in ({'preserve_globals': ['name_a']}, {'preserve_locals': ['name_b']},
                 {'preserve_globals': ['name_a'], 'preserve_locals': ['name_b']},
                 {'preserve_locals': ['name_a'], 'preserve_globals': ['name_b']},
                 {'preserve_globals': ['name_a,name_c'], 'preserve_locals': ['name_b']},
                 {'preserve_globals': ['name_a', ' name_c ,'], 'preserve_locals': ['name_b', 'name_b']},
                 {'preserve_globals': [','], 'preserve_locals': ['name_c']}):
        for fs in (['--rename-globals'], []):
            cases += 1
            r = replay.cli_vs_api(fs, psrc, pres)
            if not r['agree']:
                fails.append({'scenario': 'cli vs api (preserve lists)', 'flags': r['flags'], 'cli_rc': r['cli_rc'], 'cli_out': r['cli_out'][:200],
                              'expected': (r['expected'] or '')[:200]})
    print(json.dumps({'cases': cases, 'failures': fails[:30], 'n_failures': len(fails)}))


if __name__ == '__main__':
    main(sys.argv[1:])
