#!/venv/bin/python
"""Bounded stand-in for C11 (labelled bounded): a pool of programs x option sets is minified (a) in fresh processes under several
PYTHONHASHSEED values, (b) in one process in different orders and repeatedly (history), (c) from several threads at once, (d) with
argument objects re-used between calls; every result must equal the fresh-process reference and the argument objects must be unchanged.
prints {"cases": n, "failures": [...]}"""
import copy
import json
import os
import subprocess
import sys
import threading
import warnings

warnings.simplefilter('ignore')
HERE = os.path.dirname(os.path.dirname(os.path.abspath(__file__)))

PROGRAMS = [
    "def f():\n    global a, b, c, d\n    a=1;b=2;c=3;d=4\nf()\nprint(a,b,c,d)",
    "__all__=['Exported']\nclass Exported:\n    pass\nOther=1\nprint(Other,Other)",
    "Exported=5\nprint(Exported,Exported,Exported)",
    "def g(x_value, y_value):\n    z_value='some text here';w_value='some text here'\n    return x_value+y_value, z_value, w_value, 'some text here'\nprint(g(1,2))",
    "import os, sys\nfrom collections import OrderedDict, defaultdict\nalpha=1;beta=2;gamma=3;delta=4\nprint(alpha+beta,gamma+delta,alpha,beta,gamma,delta,OrderedDict,defaultdict,os,sys)",
    "class K:\n    one=1;two=2\n    def m(self, p, q):\n        r=p+q;s=p*q\n        return r,s,r,s\nprint(K().m(1,2))",
    "SECONDS=60.0*60\nSTEPS=16*256\nFLAG=True+1\nprint(SECONDS,STEPS,FLAG)",
    "SECONDS_PER_HOUR=60*60\nSTEPS=16.0*256\nCOUNT=1+1\nprint(SECONDS_PER_HOUR,STEPS,COUNT)",
    "def h():\n    x=1\n    def i():\n        nonlocal x\n        x+=1\n        return x\n    return i(),x\nprint(h(),None,None,None,True,True,True)",
]
OPTION_SETS = [{}, {'rename_globals': True}, {'rename_globals': True, 'preserve_globals': ['alpha', 'Exported']}, {'preserve_locals': ['x_value']},
               {'rename_globals': True, 'hoist_literals': False}]

CHILD = r'''
import sys, json
import python_minifier
progs, opts = json.load(sys.stdin)
out = []
for p in progs:
    for o in opts:
        try:
            out.append(python_minifier.minify(p, **o))
        except Exception as e:
            out.append('EXC ' + type(e).__name__)
print(json.dumps(out))
'''


def fresh(seed, order=None):
    env = dict(os.environ)
    env['PYTHONHASHSEED'] = str(seed)
    progs = PROGRAMS if order is None else [PROGRAMS[i] for i in order]
    p = subprocess.run([sys.executable, '-c', CHILD], input=json.dumps([progs, OPTION_SETS]).encode(), capture_output=True, env=env)
    return json.loads(p.stdout.decode())


def main(argv):
    seeds = [0, 1, 2, 3, 7, 42, 1000, 31337]
    fails = []
    cases = 0
    ref = fresh(0)
    for s in seeds[1:]:
        cases += 1
        got = fresh(s)
        for i, (a, b) in enumerate(zip(ref, got)):
            if a != b:
                fails.append({'kind': 'hash seed', 'seed': s, 'program': PROGRAMS[i // len(OPTION_SETS)][:80], 'options': OPTION_SETS[i % len(OPTION_SETS)],
                              'failure': 'output differs from PYTHONHASHSEED=0: %r vs %r' % (a[:100], b[:100])})
                break
    # history: reversed order in one process, and every program after every other
    import python_minifier
    refmap = {}
    k = 0
    for p in PROGRAMS:
        for o in OPTION_SETS:
            refmap[(p, json.dumps(o, sort_keys=True))] = ref[k]
            k += 1
    for first in PROGRAMS:
        for o1 in OPTION_SETS:
            try:
                python_minifier.minify(first, **copy.deepcopy(o1))
            except Exception:
                pass
            for second in PROGRAMS:
                for o2 in OPTION_SETS:
                    cases += 1
                    given = copy.deepcopy(o2)
                    try:
                        got = python_minifier.minify(second, **given)
                    except Exception as e:
                        got = 'EXC ' + type(e).__name__
                    if got != refmap[(second, json.dumps(o2, sort_keys=True))]:
                        fails.append({'kind': 'history', 'earlier': first[:60], 'earlier_options': o1, 'program': second[:80], 'options': o2,
                                      'failure': 'output after an earlier call differs from a fresh process: %r vs %r' % (got[:100], refmap[(second, json.dumps(o2, sort_keys=True))][:100])})
                    if given != o2:
                        fails.append({'kind': 'argument mutated', 'program': second[:80], 'options': o2, 'failure': 'arguments after the call: %r' % (given,)})
                    if len(fails) > 40:
                        break
    # re-used argument objects
    shared = {'rename_globals': True, 'preserve_globals': ['alpha']}
    for p in PROGRAMS + PROGRAMS[::-1]:
        cases += 1
        got = python_minifier.minify(p, **shared)
        want = fresh_one(p, {'rename_globals': True, 'preserve_globals': ['alpha']})
        if got != want:
            fails.append({'kind': 'reused arguments', 'program': p[:80], 'failure': 'with a re-used preserve list: %r vs %r (list is now %r)' % (got[:100], want[:100], shared['preserve_globals'])})
    if shared != {'rename_globals': True, 'preserve_globals': ['alpha']}:
        fails.append({'kind': 'argument mutated', 'failure': 'shared options became %r' % (shared,)})
    # threads
    results = {}

    def worker(i):
        out = []
        for p in PROGRAMS:
            for o in OPTION_SETS:
                try:
                    out.append(python_minifier.minify(p, **copy.deepcopy(o)))
                except Exception as e:
                    out.append('EXC ' + type(e).__name__)
        results[i] = out
    ts = [threading.Thread(target=worker, args=(i,)) for i in range(6)]
    [t.start() for t in ts]
    [t.join() for t in ts]
    for i, out in results.items():
        cases += 1
        if out != ref:
            fails.append({'kind': 'threads', 'failure': 'thread %d produced different output' % i})
    print(json.dumps({'cases': cases, 'failures': fails[:30], 'n_failures': len(fails)}))


_cache = {}


def fresh_one(p, o):
    key = (p, json.dumps(o, sort_keys=True))
    if key not in _cache:
        env = dict(os.environ)
        env['PYTHONHASHSEED'] = '0'
        r = subprocess.run([sys.executable, '-c', CHILD], input=json.dumps([[p], [o]]).encode(), capture_output=True, env=env)
        _cache[key] = json.loads(r.stdout.decode())[0]
    return _cache[key]


if __name__ == '__main__':
    main(sys.argv[1:])
