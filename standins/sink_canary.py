#!/venv/bin/python
"""Bounded stand-in / replay harness for C12 (labelled bounded): adversarial strings, bytes, f-strings and literal arithmetic are run
through the real minifier with builtins.eval/exec/compile/__import__/open wrapped and an audit hook installed.  Every text that
reaches eval must parse to a closed literal expression (constants, arithmetic on constants, implicit literal concatenation);
no import / open / subprocess / socket audit event may be caused by the input.

prints {"cases": n, "failures": [...]}
"""
import ast
import builtins
import itertools
import json
import sys
import warnings

warnings.simplefilter('ignore')
import python_minifier  # noqa: E402
from python_minifier import f_string, ministring  # noqa: E402

violations = []
state = {'active': False, 'case': None}
real_eval = builtins.eval


def closed_literal(text):
    try:
        t = ast.parse(text, mode='eval')
    except (SyntaxError, ValueError):
        return True          # does not even parse: nothing is executed
    for n in ast.walk(t):
        if not isinstance(n, (ast.Expression, ast.Constant, ast.BinOp, ast.UnaryOp, ast.operator, ast.unaryop, ast.Load)):
            return False
    return True


def guarded_eval(text, *a, **k):
    if state['active'] and isinstance(text, str) and not closed_literal(text):
        violations.append({'case': state['case'], 'failure': 'eval of non-literal text %r' % text[:200]})
        raise RuntimeError('blocked')
    return real_eval(text, *a, **k)


def audit(event, args):
    if state['active'] and event in ('os.system', 'subprocess.Popen', 'socket.connect', 'socket.bind', 'os.exec', 'os.posix_spawn', 'os.fork'):
        violations.append({'case': state['case'], 'failure': 'audit event %s' % event})
    if state['active'] and event == 'import' and args and args[0] in ('canary_module_that_does_not_exist', 'os.path.canary'):
        violations.append({'case': state['case'], 'failure': 'import of %s' % args[0]})


builtins.eval = guarded_eval
sys.addaudithook(audit)

PAYLOAD = "__import__('canary_module_that_does_not_exist')"
PIECES = ["'", '"', "''", '""', "'''", '"""', '\\', '\\\\', '\n', '\r', '\0', '{', '}', '+', ' ', PAYLOAD, "''''", '""""', "\\'", '\\"', '#', ')', '(', 'a',
          '+' + PAYLOAD + '#', ')+' + PAYLOAD + '#', '+' + PAYLOAD + '+', '\n' + PAYLOAD + '\n',
          '\N{BULLET}', '\ud800', '\x7f', '\\N{BULLET}', '\\x', '\\u', "'+" + PAYLOAD + "+'", '"+' + PAYLOAD + '+"',
          "'''+" + PAYLOAD + "+'''", '"""+' + PAYLOAD + '+"""',
          # quote, payload, comment: whatever follows the payload is swallowed
          "'+" + PAYLOAD + '#', '"+' + PAYLOAD + '#', "'''+" + PAYLOAD + '#', '"""+' + PAYLOAD + '#']


def strings(maxlen):
    for n in range(1, maxlen + 1):
        for combo in itertools.product(range(len(PIECES)), repeat=n):
            yield ''.join(PIECES[i] for i in combo)


def main(argv):
    maxlen = 2
    for i, a in enumerate(argv):
        if a == '--len':
            maxlen = int(argv[i + 1])
    cases = 0
    quotes = ['"', "'", '"""', "'''"]
    for s in strings(maxlen):
        cases += 1
        state['active'] = True
        state['case'] = repr(s)[:120]
        for q in quotes:
            try:
                str(ministring.MiniString(s, q))
            except Exception:
                pass
        try:
            str(f_string.Str(s, list(quotes), True))
        except Exception:
            pass
        try:
            b = s.encode('latin-1', 'ignore')
            str(f_string.Bytes(b, list(quotes)))
        except Exception:
            pass
        # through the API: as a plain string, inside an f-string (text part and nested expression part), and next to arithmetic
        for src in ('x=%r' % s, 'x=f"{y}" %r' % s):
            try:
                python_minifier.minify(src)
            except Exception:
                pass
        try:
            m = ast.Module(body=[ast.Expr(value=ast.JoinedStr(values=[
                ast.Constant(value=s), ast.FormattedValue(value=ast.Constant(value=s), conversion=-1, format_spec=None),
                ast.FormattedValue(value=ast.Name(id='y', ctx=ast.Load()), conversion=-1,
                                   format_spec=ast.JoinedStr(values=[ast.Constant(value=s)]))]))], type_ignores=[])
            ast.fix_missing_locations(m)
            python_minifier.unparse(m)
        except Exception:
            pass
        state['active'] = False
    # arithmetic: names, calls and attribute access must never reach the evaluator
    for e in ['-x+1', '4*-' + PAYLOAD, '1+' + PAYLOAD, '(1).real+1', '1+f(2)', 'x.y*2', '-(' + PAYLOAD + ')*2', '1+2', '2*-3', '(1-3)*20', 'not 1+1',
              '1 if x else 2+3', '[1][0]+1', '"a"+"b"', '"%s"%' + PAYLOAD, '1+(lambda:2)()', '~x&1', '1+True', '-1**-1', '2**x', '1<<' + PAYLOAD]:
        cases += 1
        state['active'] = True
        state['case'] = e
        try:
            python_minifier.minify('r=' + e)
        except Exception:
            pass
        state['active'] = False
    # closed-looking expressions (no Name node, but calls / attribute access / lambdas) in every position a "helpful" evaluation might look at
    NAMELESS = ["'a b'.split()", "['a'] * (lambda: 0).__code__.co_argcount", "['a'] + [(1).real.__class__.__name__]", "('%s' % 'a').upper()",
                "['a'] * (lambda: 0).__globals__['__builtins__']['len']('xx')", "[].__class__.__base__.__subclasses__()", "(1).__add__(2)", "b'a'.decode()", "f'{1+1}'"]
    for e in NAMELESS:
        for src in ('__all__ = %s\ndef a():\n    return 1\n' % e, '__all__ = ["a"]\n__all__ += %s\ndef a():\n    return 1\n' % e, 'class K:\n    __slots__ = %s\n' % e,
                    '__doc__ = %s\n' % e, 'def f(x=%s):\n    return x\n' % e, 'x = %s\ny = 1 + 2\n' % e, 'if %s:\n    pass\n' % e, 'assert %s\n' % e,
                    '__version__ = %s\n' % e, 'X: %s = 1\n' % e):
            for kw in ({}, {'rename_globals': True, 'remove_literal_statements': True, 'remove_asserts': True, 'remove_debug': True}):
                cases += 1
                state['active'] = True
                state['case'] = src[:100]
                try:
                    python_minifier.minify(src, **kw)
                except Exception:
                    pass
                state['active'] = False
    # a bytes source: the PEP 263 cookie is honoured by the parser; which modules get imported must not depend on it
    python_minifier.minify(b'# coding: utf-8\nx = 1\n')
    for cookie in ('utf-8', 'latin-1', 'ascii', 'idna', 'cp1140', 'bz2_codec', 'zlib_codec', 'punycode', 'canary_codec_that_does_not_exist'):
        for src in (b'# coding: ' + cookie.encode() + b'\nx = 1\n', b'#!/usr/bin/python\n# vim: set fileencoding=' + cookie.encode() + b' :\nx = 1\n'):
            cases += 1
            before = set(sys.modules)
            try:
                python_minifier.minify(src)
            except Exception:
                pass
            new = sorted(m for m in set(sys.modules) - before if not m.startswith('python_minifier'))
            if new:
                violations.append({'case': repr(src)[:80], 'mechanism': 'coding-cookie-imports-codec',
                                   'failure': 'minify(bytes) imported %s, selected by the coding cookie of the input' % ', '.join(new)})
    violations.sort(key=lambda f: bool(f.get('mechanism')))
    print(json.dumps({'cases': cases, 'failures': violations[:40], 'n_failures': len(violations)}))


if __name__ == '__main__':
    main(sys.argv[1:])
