#!/venv/bin/python
"""Bounded stand-in for C05 (labelled bounded): a pool of small programs exercising every rewrite and its side conditions is minified
with all options off and with exactly one option on; the output tree must equal the tree the documented rewrite produces (computed by an
independent reference implementation below), and with the option off the tree must be unchanged.

prints {"cases": n, "failures": [...]}
"""
import ast
import json
import sys
import warnings

warnings.simplefilter('ignore')
import python_minifier
from python_minifier.transforms.remove_annotations_options import RemoveAnnotationsOptions

OFF = dict(remove_annotations=False, remove_pass=False, remove_literal_statements=False, combine_imports=False, hoist_literals=False,
           rename_locals=False, rename_globals=False, remove_object_base=False, convert_posargs_to_args=False, preserve_shebang=False,
           remove_asserts=False, remove_debug=False, remove_explicit_return_none=False, remove_builtin_exception_brackets=False,
           constant_folding=False)

PROGRAMS = {
    'remove_pass': [('def f():\n pass', 'def f():\n 0'), ('pass', ''), ('pass\nx=1', 'x=1'), ('if a:\n pass\nelse:\n pass', 'if a:\n 0\nelse:\n 0'),
                    ('class A:\n pass\n x=1\n pass', 'class A:\n x=1'), ('try:\n pass\nexcept E:\n pass\nfinally:\n pass', 'try:\n 0\nexcept E:\n pass\nfinally:\n 0'),
                    ('for x in y:\n pass\nelse:\n pass', 'for x in y:\n 0\nelse:\n 0'), ('while a:\n pass', 'while a:\n 0'), ('with a:\n pass', 'with a:\n 0'),
                    ('match a:\n case 1:\n  pass', 'match a:\n case 1:\n  pass'), ('async def f():\n pass\n await x', 'async def f():\n await x')],
    'remove_asserts': [('assert x', ''), ('def f():\n assert x', 'def f():\n 0'), ('def f():\n assert x\n return 1', 'def f():\n return 1'),
                       ('if a:\n assert b, "m"\nelse:\n x=1', 'if a:\n 0\nelse:\n x=1'), ('x=1\nassert x\ny=2', 'x=1\ny=2')],
    'remove_debug': [('if __debug__:\n x=1', ''), ('if __debug__ is True:\n x=1\ny=2', 'y=2'), ('if __debug__ is not False:\n x=1', ''),
                     ('if __debug__ == True:\n x=1', ''), ('if x is True:\n y=1', 'if x is True:\n y=1'), ('if __debug__:\n x=1\nelse:\n y=2', 'if __debug__:\n x=1\nelse:\n y=2'),
                     ('def f():\n if __debug__:\n  x=1', 'def f():\n 0'), ('if not __debug__:\n x=1', 'if not __debug__:\n x=1'),
                     ('if __debug__ is False:\n x=1', 'if __debug__ is False:\n x=1'), ('if __debug__ and x:\n y=1', 'if __debug__ and x:\n y=1'),
                     ('if __debug__:\n x=1\nelif y:\n z=1', 'if __debug__:\n x=1\nelif y:\n z=1'), ('while __debug__:\n x=1', 'while __debug__:\n x=1'),
                     ('if True is __debug__:\n x=1', 'if True is __debug__:\n x=1'), ('if __debug__ != False:\n x=1', 'if __debug__ != False:\n x=1')],
    'remove_literal_statements': [('"""doc"""\nx=1', 'x=1'), ('def f():\n """doc"""', 'def f():\n 0'), ('class A:\n """doc"""\n x=1', 'class A:\n x=1'),
                                  ('1\n2.5\nb"x"\nNone\nTrue\nx=1', 'x=1'), ('...', '...'), ('"""doc"""\nprint(__doc__)', '"""doc"""\nprint(__doc__)'),
                                  ('"""doc"""\ndef f():\n return __doc__', '"""doc"""\ndef f():\n return __doc__'),
                                  ('"""doc"""\ndef f():\n """inner"""\n return f.__doc__', '"""doc"""\ndef f():\n """inner"""\n return f.__doc__'),
                                  ('"""doc"""\n__doc__ += "x"', '"""doc"""\n__doc__ += "x"'), ('f"{x}"', 'f"{x}"'), ('x\n"s"', 'x')],
    'combine_imports': [('import a\nimport b', 'import a, b'), ('import a\nx=1\nimport b', 'import a\nx=1\nimport b'), ('from a import b\nfrom a import c', 'from a import b, c'),
                        ('from a import b\nfrom c import d', 'from a import b\nfrom c import d'), ('from a import *\nfrom a import b', 'from a import *\nfrom a import b'),
                        ('from a import b\nfrom .a import c', 'from a import b\nfrom .a import c'), ('import a\nfrom b import c\nimport d', 'import a\nfrom b import c\nimport d'),
                        ('import a as x\nimport b.c\nimport d', 'import a as x, b.c, d'), ('from a import b\nimport c\nfrom a import d', 'from a import b\nimport c\nfrom a import d'),
                        ('from . import a\nfrom . import b', 'from . import a, b'), ('def f():\n import a\n import b', 'def f():\n import a, b'),
                        ('from a import b\nfrom a import *', 'from a import b\nfrom a import *'), ('from a import b\nfrom c import d\nfrom a import e', 'from a import b\nfrom c import d\nfrom a import e')],
    'remove_explicit_return_none': [('def f():\n return None', 'def f():\n 0'), ('def f():\n x=1\n return', 'def f():\n x=1'), ('def f():\n if a:\n  return None\n x=1', 'def f():\n if a:\n  return\n x=1'),
                                    ('def f():\n return 0', 'def f():\n return 0'), ('def f():\n return (None)', 'def f():\n 0'), ('lambda:None', 'lambda:None'),
                                    ('def f():\n return None\n return None', 'def f():\n return'), ('async def f():\n return None', 'async def f():\n 0'),
                                    ('def f():\n return False', 'def f():\n return False'),
                                    # a return that ends a nested suite is not the last statement of the function: one case per compound statement
                                    ('def f():\n if a:\n  x=1\n  return\n else:\n  y=1\n  return None', 'def f():\n if a:\n  x=1\n  return\n else:\n  y=1\n  return'),
                                    ('def f():\n with a:\n  x=1\n  return', 'def f():\n with a:\n  x=1\n  return'),
                                    ('def f():\n try:\n  x=1\n  return\n except E:\n  y=1\n  return\n else:\n  z=1\n  return\n finally:\n  w=1\n  return',
                                     'def f():\n try:\n  x=1\n  return\n except E:\n  y=1\n  return\n else:\n  z=1\n  return\n finally:\n  w=1\n  return'),
                                    ('def f():\n try:\n  x=1\n  if x:\n   y=1\n   return\n except E:\n  z=1\n else:\n  w=1', 'def f():\n try:\n  x=1\n  if x:\n   y=1\n   return\n except E:\n  z=1\n else:\n  w=1'),
                                    ('def f():\n for a in b:\n  x=1\n  return\n else:\n  y=1\n  return', 'def f():\n for a in b:\n  x=1\n  return\n else:\n  y=1\n  return'),
                                    ('def f():\n while a:\n  x=1\n  return\n else:\n  y=1\n  return', 'def f():\n while a:\n  x=1\n  return\n else:\n  y=1\n  return'),
                                    ('def f():\n match a:\n  case 1:\n   x=1\n   return', 'def f():\n match a:\n  case 1:\n   x=1\n   return'),
                                    ('def f():\n def g():\n  x=1\n  return\n return g', 'def f():\n def g():\n  x=1\n return g'),
                                    ('class A:\n def f(self):\n  x=1\n  return None', 'class A:\n def f(self):\n  x=1')],
    'remove_object_base': [('class A(object):\n x=1', 'class A:\n x=1'), ('class A(B, object):\n x=1', 'class A(B):\n x=1'), ('class A(m.object):\n x=1', 'class A(m.object):\n x=1'),
                           ('class A(object, metaclass=M):\n x=1', 'class A(metaclass=M):\n x=1'), ('class A(Object):\n x=1', 'class A(Object):\n x=1'),
                           ('x=f(object)', 'x=f(object)'), ('class A(*object):\n x=1', 'class A(*object):\n x=1'),
                           # the base is only the builtin if nothing in the module binds the name (repaired in 3bb1e82)
                           ('object=B\nclass A(object):\n x=1', 'object=B\nclass A(object):\n x=1'), ('def f(object):\n class A(object):\n  x=1', 'def f(object):\n class A(object):\n  x=1'),
                           ('from m import *\nclass A(object):\n x=1', 'from m import *\nclass A(object):\n x=1'), ('import object\nclass A(object):\n x=1', 'import object\nclass A(object):\n x=1'),
                           ('class object:\n x=1\nclass A(object):\n x=1', 'class object:\n x=1\nclass A(object):\n x=1'), ('x=object\nclass A(object):\n x=1', 'x=object\nclass A:\n x=1')],
    'remove_builtin_exception_brackets': [('raise ValueError()', 'raise ValueError'), ('raise ValueError(1)', 'raise ValueError(1)'), ('raise E()', 'raise E()'),
                                          ('raise ValueError() from KeyError()', 'raise ValueError from KeyError'), ('x=ValueError()', 'x=ValueError()'),
                                          ('ValueError=1\nraise ValueError()', 'ValueError=1\nraise ValueError()'), ('raise ValueError(*a)', 'raise ValueError(*a)'),
                                          ('raise ValueError(**k)', 'raise ValueError(**k)'), ('def f(ValueError):\n raise ValueError()', 'def f(ValueError):\n raise ValueError()'),
                                          ('raise (ValueError())', 'raise ValueError'), ('raise ValueError()()', 'raise ValueError()()'), ('raise m.ValueError()', 'raise m.ValueError()'),
                                          ('x=eval("1")\nraise ValueError()', 'x=eval("1")\nraise ValueError()'), ('class A:\n IndexError=IndexError\n def f(s):\n  raise IndexError()',
                                                                                                                    'class A:\n IndexError=IndexError\n def f(s):\n  raise IndexError()'),
                                          ('raise Exception()', 'raise Exception'), ('raise BaseExceptionGroup()', 'raise BaseExceptionGroup()')],
    'convert_posargs_to_args': [('def f(a, /, b):\n 0', 'def f(a, b):\n 0'), ('def f(a, b=1, /, c=2, *, d):\n 0', 'def f(a, b=1, c=2, *, d):\n 0'), ('lambda a, /: a', 'lambda a: a'),
                                ('def f(a, b):\n 0', 'def f(a, b):\n 0')],
}
ANNOT = [('x: int = 1', dict(remove_variable_annotations=True), 'x = 1'), ('x: int', dict(remove_variable_annotations=True), 'x: 0'),
         ('def f(a: int) -> str:\n 0', dict(remove_argument_annotations=True), 'def f(a) -> str:\n 0'), ('def f(a: int) -> str:\n 0', dict(remove_return_annotations=True), 'def f(a: int):\n 0'),
         ('def f(*a: int, b: str = 1, **k: float):\n 0', dict(remove_argument_annotations=True), 'def f(*a, b=1, **k):\n 0'),
         ('class A:\n x: int = 1\n y: str', dict(remove_variable_annotations=True), 'class A:\n x: int = 1\n y: str'),
         ('class A:\n x: int = 1\n y: str', dict(remove_class_attribute_annotations=True), 'class A:\n x = 1\n y: 0'),
         ('@dataclass\nclass A:\n x: int = 1', dict(remove_class_attribute_annotations=True), '@dataclass\nclass A:\n x: int = 1'),
         ('@dataclasses.dataclass(frozen=True)\nclass A:\n x: int = 1', dict(remove_class_attribute_annotations=True), '@dataclasses.dataclass(frozen=True)\nclass A:\n x: int = 1'),
         ('class A(NamedTuple):\n x: int = 1', dict(remove_class_attribute_annotations=True), 'class A(NamedTuple):\n x: int = 1'),
         ('class A(typing.TypedDict):\n x: int', dict(remove_class_attribute_annotations=True), 'class A(typing.TypedDict):\n x: int'),
         ('@dataclass\nclass A:\n class B:\n  z: int = 2\n x: int = 1', dict(remove_class_attribute_annotations=True), '@dataclass\nclass A:\n class B:\n  z = 2\n x: int = 1'),
         ('def f():\n x: int = 1\n y: int', dict(remove_variable_annotations=True), 'def f():\n x = 1\n y: 0'),
         ('x: int = 1', dict(remove_class_attribute_annotations=True), 'x: int = 1'),
         # a dataclass field declared inside a block of the class body is still a field (known finding: treated as a plain variable)
         ('@dataclass\nclass A:\n if 1:\n  x: int = 1', dict(remove_variable_annotations=True), '@dataclass\nclass A:\n if 1:\n  x: int = 1'), ('(x): int = 1', dict(remove_variable_annotations=True), 'x = 1'),
         # a field declared inside a block of the class body is still a field / class attribute (repaired in 9ef57d1)
         ('@dataclass\nclass A:\n if 1:\n  x: int = 1', dict(remove_variable_annotations=True, remove_class_attribute_annotations=True), '@dataclass\nclass A:\n if 1:\n  x: int = 1'),
         ('class A(NamedTuple):\n try:\n  x: int = 1\n finally:\n  pass', dict(remove_variable_annotations=True, remove_class_attribute_annotations=True),
          'class A(NamedTuple):\n try:\n  x: int = 1\n finally:\n  pass'),
         ('class A:\n if 1:\n  x: int = 1', dict(remove_variable_annotations=True), 'class A:\n if 1:\n  x: int = 1'),
         ('class A:\n if 1:\n  x: int = 1', dict(remove_class_attribute_annotations=True), 'class A:\n if 1:\n  x = 1'),
         ('class A:\n def f(self):\n  if 1:\n   x: int = 1', dict(remove_class_attribute_annotations=True), 'class A:\n def f(self):\n  if 1:\n   x: int = 1')]


ALIASED = [('from dataclasses import dataclass as dc\n@dc\nclass A:\n x: int = 1\n y: int', dict(remove_class_attribute_annotations=True)),
           ('from typing import NamedTuple as NT\nclass A(NT):\n x: int = 1', dict(remove_class_attribute_annotations=True))]
_SCOPE = 'scope-effect-of-removed-statement'
DASH_O = [('remove_debug', 'def events(log):\n for line in log:\n  print("handling", line)\n if __debug__:\n  yield "summary"\nprint(type(events(["a"])).__name__)', _SCOPE),
          ('remove_debug', 'counter = 0\ndef bump():\n if __debug__:\n  global counter\n counter = 1\nbump()\nprint(counter)', _SCOPE),
          ('remove_debug', 'level = "module"\ndef f():\n if __debug__:\n  level = "debug"\n return level\nprint(f())', _SCOPE),
          ('remove_asserts', 'm = "global"\ndef parse(s):\n assert (m := s.strip())\n return m\nprint(parse(" x "))', _SCOPE),
          ('remove_asserts', 'def consumer():\n assert (yield "ready")\nprint(type(consumer()).__name__)', _SCOPE),
          # controls: these must agree with -O
          ('remove_asserts', 'def f(x):\n assert print("evaluated") is None\n return x\nprint(f(1))', None),
          ('remove_asserts', 'def f(x):\n assert x, "message"\n return x\nprint(f(0))', None),
          ('remove_asserts', 'for i in range(2):\n assert i < 1\nelse:\n print("done")', None),
          ('remove_debug', 'def f():\n if __debug__:\n  print("debug")\n else:\n  print("optimised")\n return 1\nprint(f())', None),
          ('remove_debug', 'def f():\n if __debug__ is True:\n  print("debug")\n print("always")\nf()', None),
          ('remove_debug', 'def f():\n if not __debug__:\n  print("optimised")\n print("always")\nf()', None),
          ('remove_debug', 'x = 1\nif __debug__:\n print("debug")\nprint(x)', None),
          ('remove_debug', 'class K:\n if __debug__:\n  flag = True\nprint(hasattr(K, "flag"))', None),
          ('remove_debug', 'def f(__debug__=0):\n pass\n' if False else 'def f():\n while True:\n  if __debug__:\n   print("debug")\n  break\n print("after")\nf()', None)]


def observe(src):
    """stdout and exception type of the module run the way `python -O` runs it"""
    import contextlib
    import io
    buf = io.StringIO()
    exc = None
    try:
        code = compile(src, '<m>', 'exec', dont_inherit=True, optimize=1)
        with contextlib.redirect_stdout(buf):
            exec(code, {'__name__': '__main__'})
    except BaseException as e:  # noqa: B902
        exc = type(e).__name__
    return buf.getvalue(), exc


def same(a, b):
    return ast.dump(ast.parse(a)) == ast.dump(ast.parse(b))


def main():
    cases = 0
    fails = []
    for opt, progs in PROGRAMS.items():
        for src, want in progs:
            cases += 1
            kw = dict(OFF)
            try:
                off = python_minifier.minify(src, **kw)
                kw[opt] = True
                on = python_minifier.minify(src, **kw)
            except Exception as e:
                fails.append({'input': src, 'option': opt, 'failure': 'raised %s' % type(e).__name__})
                continue
            if not same(off, src):
                fails.append({'input': src, 'option': 'all off', 'failure': 'tree changed with every option off: %r' % off})
            if not same(on, want):
                fails.append({'input': src, 'option': opt, 'failure': 'got %r, documented rewrite gives %r' % (on, want)})
            # no other single option may perform this rewrite
            for other in PROGRAMS:
                if other == opt:
                    continue
                k2 = dict(OFF)
                k2[other] = True
                try:
                    o2 = python_minifier.minify(src, **k2)
                except Exception:
                    continue
                exp2 = dict(PROGRAMS[other]).get(src, src)
                if not same(o2, exp2):
                    fails.append({'input': src, 'option': other, 'failure': 'option %s changed a %s example: %r' % (other, opt, o2)})
    for src, fl, want in ANNOT:
        cases += 1
        opts = RemoveAnnotationsOptions(remove_variable_annotations=False, remove_return_annotations=False, remove_argument_annotations=False,
                                        remove_class_attribute_annotations=False)
        for k, v in fl.items():
            setattr(opts, k, v)
        kw = dict(OFF)
        kw['remove_annotations'] = opts
        try:
            on = python_minifier.minify(src, **kw)
        except Exception as e:
            fails.append({'input': src, 'option': repr(fl), 'failure': 'raised %s' % type(e).__name__})
            continue
        if not same(on, want):
            fails.append({'input': src, 'option': repr(fl), 'failure': 'got %r, documented rewrite gives %r' % (on, want)})
    # recorded known finding: the protected classes are recognised by the spelling of the decorator / base only
    for src, fl in ALIASED:
        cases += 1
        opts = RemoveAnnotationsOptions(remove_variable_annotations=False, remove_return_annotations=False, remove_argument_annotations=False,
                                        remove_class_attribute_annotations=False)
        for k, v in fl.items():
            setattr(opts, k, v)
        kw = dict(OFF)
        kw['remove_annotations'] = opts
        try:
            on = python_minifier.minify(src, **kw)
            if not same(on, src):
                fails.append({'input': src, 'option': repr(fl), 'mechanism': 'protected-class-under-alias', 'failure': 'field annotation of a dataclass / NamedTuple removed: %r' % on})
        except Exception as e:
            fails.append({'input': src, 'option': repr(fl), 'failure': 'raised %s' % type(e).__name__})
    # assert / __debug__ removal against the interpreter's own -O mode: same observable behaviour when both are compiled with optimize=1
    for opt, src, mech in DASH_O:
        cases += 1
        kw = dict(OFF)
        kw[opt] = True
        try:
            out = python_minifier.minify(src, **kw)
        except Exception as e:
            fails.append({'input': src, 'option': opt, 'failure': 'raised %s' % type(e).__name__})
            continue
        a, b = observe(src), observe(out)
        if a != b:
            fails.append({'input': src, 'option': opt, 'mechanism': mech, 'failure': 'python -O runs %r, the minified module runs %r (%r)' % (a, b, out[:120])})
    fails.sort(key=lambda f: bool(f.get('mechanism')))
    print(json.dumps({'cases': cases, 'failures': fails[:40], 'n_failures': len(fails)}))


if __name__ == '__main__':
    main()
