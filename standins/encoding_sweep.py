#!/venv/bin/python
"""Bounded stand-in for C16 (labelled bounded): programs with non-ASCII str / bytes constants x source encodings (UTF-8, UTF-8 with BOM,
PEP 263 cookies for latin-1, cp1252, koi8-r, utf-8) x line endings (LF, CRLF, CR) x shebang lines (plain, with arguments, containing each
character that str.splitlines treats as a line boundary) x text / bytes input, through the API and the command line tool.

Oracles: the UTF-8 encoding of the result parses strictly to the tree of the source; api(bytes) == api(text); the first line is exactly
the shebang line when preserve_shebang is on and absent otherwise; CLI output bytes == UTF-8 of the API result or the untouched source.
prints {"cases": n, "failures": [...]}
"""
import ast
import json
import os
import subprocess
import sys
import tempfile
import warnings

warnings.simplefilter('ignore')
HERE = os.path.dirname(os.path.dirname(os.path.abspath(__file__)))
sys.path.insert(0, HERE)
from spec import astlib  # noqa: E402
import python_minifier  # noqa: E402

BODIES = ["x='café naïve'\ny=b'raw \\xe9 bytes'\nprint(x,y)\n", "def f():\n    return 'üñî', 'é'*3\nprint(f())\n",
          "names={'kéy': 'väl'}\nprint(sorted(names))\n", "s='plain ascii only'\nprint(s)\n"]
ENCODINGS = [('utf-8', None, False), ('utf-8', None, True), ('utf-8', 'utf-8', False), ('latin-1', 'latin-1', False), ('cp1252', 'cp1252', False),
             ('koi8-r', 'koi8-r', False), ('latin-1', 'iso-8859-15', False)]
NEWLINES = ['\n', '\r\n', '\r']
SHEBANGS = [None, '#!/usr/bin/python', '#!/usr/bin/env python3 -u -W ignore', '#!', '#! /usr/bin/python  ']
for _c in ('\x0b', '\x0c', '\x1c', '\x1d', '\x1e', '\x85', ' ', ' ', '\t'):
    SHEBANGS.append('#!/usr/bin/python' + _c + 'tail')
KNOWN = [('#!/usr/bin/python # -*- coding: latin-1 -*-', 'shebang-line-with-coding-cookie'), ('#!/usr/bin/café', 'non-utf8-bytes-in-shebang')]


def build(body, enc, cookie, bom, nl, shebang):
    lines = []
    if shebang is not None:
        lines.append(shebang)
    if cookie:
        lines.append('# -*- coding: %s -*-' % cookie)
    text = '\n'.join(lines + [body.rstrip('\n')]) + '\n'
    text_nl = text.replace('\n', nl)
    try:
        raw = text_nl.encode(enc)
    except UnicodeEncodeError:
        return None, None
    if bom:
        raw = b'\xef\xbb\xbf' + raw
    return text_nl, raw


def main(argv):
    cli = '--no-cli' not in argv
    cases = 0
    fails = []
    tmp = tempfile.mkdtemp(prefix='vcheck-enc-')
    combos = []
    for bi, body in enumerate(BODIES):
        for enc, cookie, bom in ENCODINGS:
            for nl in NEWLINES:
                for sb in SHEBANGS:
                    combos.append((body, enc, cookie, bom, nl, sb, None))
    for sb, tag in KNOWN:
        combos.append((BODIES[0], 'latin-1', 'latin-1', False, '\n', sb, tag))
    # dense non-ASCII text: the UTF-8 result is longer than the legacy-encoded source, so the command line tool passes the source through
    dense = []
    for enc, cookie, ch in (('latin-1', 'latin-1', '\xe9'), ('cp1252', 'cp1252', '\u20ac'), ('koi8-r', 'koi8-r', '\u0436'), ('iso8859-15', 'iso8859-15', '\u20ac')):
        for sb in (None, '#!/usr/bin/python'):
            dense.append(("s='%s'\nprint(s)\n" % (ch * 60), enc, cookie, False, '\n', sb, None))
    combos += dense
    # a legacy cookie on bytes that happen to be well-formed UTF-8 (a stale cookie): the declared codec decides what the constants are
    stale = []
    for cookie in ('latin-1', 'cp1252', 'iso-8859-15'):
        for sb in (None, '#!/usr/bin/python'):
            stale.append((cookie, sb))
    n_cli = 0
    for body, enc, cookie, bom, nl, sb, tag in combos:
        text, raw = build(body, enc, cookie, bom, nl, sb)
        if raw is None:
            continue
        try:
            want = ast.parse(raw)
        except (SyntaxError, ValueError):
            continue
        if tag is None and sb is not None and enc != 'utf-8' and any(ord(ch) > 127 for ch in sb):
            tag = 'non-utf8-bytes-in-shebang'
        label = {'encoding': enc, 'cookie': cookie, 'bom': bom, 'newline': repr(nl), 'shebang': sb, 'mechanism': tag}
        for preserve in (True, False):
            cases += 1
            try:
                out_b = python_minifier.minify(raw, preserve_shebang=preserve)
            except Exception as e:
                fails.append(dict(label, failure='minify(bytes) raised %s' % type(e).__name__, preserve_shebang=preserve))
                continue
            try:
                got = ast.parse(out_b.encode('utf-8'))
            except Exception as e:
                fails.append(dict(label, failure='UTF-8 output does not parse: %s' % type(e).__name__, preserve_shebang=preserve))
                continue
            d = astlib.strict_equal(want, got)
            if d:
                fails.append(dict(label, failure='UTF-8 output denotes a different program: %s' % d, preserve_shebang=preserve))
                continue
            first = out_b.split('\n', 1)[0]
            if preserve and sb is not None:
                if first != sb:
                    fails.append(dict(label, failure='first line %r is not the shebang line %r' % (first[:60], sb), preserve_shebang=preserve))
                    continue
            elif first.startswith('#!'):
                fails.append(dict(label, failure='a shebang line %r is present although it should be absent' % first[:60], preserve_shebang=preserve))
                continue
            # text input gives the same result (the text is what the declared encoding decodes to; a BOM is not part of the text)
            if not bom:
                try:
                    out_t = python_minifier.minify(text, preserve_shebang=preserve)
                    if out_t != out_b:
                        fails.append(dict(label, failure='api(text) differs from api(bytes): %r vs %r' % (out_t[:80], out_b[:80]), preserve_shebang=preserve))
                        continue
                except Exception as e:
                    fails.append(dict(label, failure='minify(text) raised %s' % type(e).__name__, preserve_shebang=preserve))
                    continue
            is_dense = (body, enc, cookie, bom, nl, sb, None) in dense
            if cli and preserve and nl == '\n' and (n_cli < 60 or is_dense) and (sb in (None, '#!/usr/bin/python') or tag):
                n_cli += 1
                p = os.path.join(tmp, 'm.py')
                with open(p, 'wb') as f:
                    f.write(raw)
                env = dict(os.environ)
                env.pop('PYMINIFY_FORCE_BEST_EFFORT', None)
                r = subprocess.run([sys.executable, '-m', 'python_minifier', p], capture_output=True, env=env)
                exp = out_b.encode('utf-8')
                exp = exp if len(exp) <= len(raw) else raw
                if r.returncode != 0 or r.stdout != exp:
                    fails.append(dict(label, failure='CLI wrote %d bytes, expected %s (%d bytes)' % (len(r.stdout), 'the UTF-8 API result' if exp is not raw else
                                                                                                     'the untouched source', len(exp)), preserve_shebang=preserve))
                    continue
                if is_dense and exp is not raw:
                    fails.append(dict(label, failure='harness: the dense program was expected to be passed through', preserve_shebang=preserve))
                try:
                    d2 = astlib.strict_equal(want, ast.parse(r.stdout))
                except Exception as e:
                    d2 = 'does not parse: %s' % type(e).__name__
                if d2 and not tag:
                    fails.append(dict(label, failure='the bytes written by the command line tool denote a different program: %s' % d2, preserve_shebang=preserve))
    for cookie, sb in stale:
        lines = ([sb] if sb else []) + ['# -*- coding: %s -*-' % cookie, "x='caf\xe9 na\xefve'", "print(x)"]
        raw = ('\n'.join(lines) + '\n').encode('utf-8')          # UTF-8 bytes under a legacy cookie
        try:
            want = ast.parse(raw)
        except (SyntaxError, ValueError):
            continue
        cases += 1
        label = {'encoding': 'utf-8 bytes', 'cookie': cookie, 'bom': False, 'newline': repr('\n'), 'shebang': sb, 'mechanism': None}
        try:
            out_b = python_minifier.minify(raw)
            d = astlib.strict_equal(want, ast.parse(out_b.encode('utf-8')))
            if d:
                fails.append(dict(label, failure='stale cookie: UTF-8 output denotes a different program: %s' % d))
        except Exception as e:
            fails.append(dict(label, failure='stale cookie: minify(bytes) raised %s' % type(e).__name__))
    import shutil
    shutil.rmtree(tmp, ignore_errors=True)
    # new (unclassified) failures first, then one representative per known mechanism
    new = [f for f in fails if not f.get('mechanism')]
    reps = {}
    for f in fails:
        if f.get('mechanism'):
            reps.setdefault(f['mechanism'], f)
    print(json.dumps({'cases': cases, 'failures': new[:30] + list(reps.values()), 'n_failures': len(fails), 'n_unclassified': len(new)}))


if __name__ == '__main__':
    main(sys.argv[1:])
