#!/venv/bin/python
"""Bounded stand-in for C07 (labelled bounded): literal-only arithmetic expressions (every binary operator, operand pool with edge
values, nesting depth <= 2, several syntactic contexts) are minified with only constant_folding on; the right-hand side of the output
must evaluate to a result identical in type, value, sign and exception, and must not be longer than the input expression.

usage: fold_sweep.py [--depth 1|2] [--seed S] [--samples N]   prints {"cases": n, "failures": [...]}
"""
import ast
import itertools
import json
import math
import os
import random
import sys
import warnings

warnings.simplefilter('ignore')
import python_minifier  # noqa: E402

OPS = ['+', '-', '*', '/', '//', '%', '**', '<<', '>>', '|', '^', '&', '@']
POOL = ['0', '1', '2', '3', '5', '7', '10', '100', '255', '256', '1000', '65536', '0x10', '1e3', '0.0', '1.0', '0.5', '1.5', '2.5', '1e16',
        '1e-7', '1e308', '1e-320', '0.1', '3.0', 'True', 'False', 'None', '1j', '2.5j', '0j', '10000000000', '9999999999999999', '1.25e2']
CONTEXTS = ['x=%s', 'print(%s)', 'x=[%s]', 'def f(a=%s):pass', 'x=a if %s else b', 'x=(%s).real', 'x=-(%s)', 'x=f(%s,k=%s)', 'x={%s:1}',
            'class A:\n y=%s', 'lambda:%s', 'x=%s or y']
KW = dict(remove_annotations=False, remove_pass=False, remove_literal_statements=False, combine_imports=False, hoist_literals=False,
          rename_locals=False, rename_globals=False, remove_object_base=False, convert_posargs_to_args=False, preserve_shebang=False,
          remove_asserts=False, remove_debug=False, remove_explicit_return_none=False, remove_builtin_exception_brackets=False)


def outcome(src):
    try:
        v = eval(src, {}, {})
    except Exception as e:
        return ('exc', type(e).__name__)
    if isinstance(v, float):
        return ('float', 'nan' if v != v else repr(v), math.copysign(1, v))
    if isinstance(v, complex):
        return ('complex', repr(v.real), repr(v.imag), math.copysign(1, v.real) if v.real == v.real else 0, math.copysign(1, v.imag) if v.imag == v.imag else 0)
    return (type(v).__name__, hex(v) if isinstance(v, int) else repr(v))


def extract(module_src, marker_ctx):
    """the expression text between the markers of the context"""
    return module_src


def main(argv):
    depth, seed, samples = 1, int(os.environ.get('VERIF_SEED', '0') or 0), 4000
    for i, a in enumerate(argv):
        if a == '--depth':
            depth = int(argv[i + 1])
        if a == '--seed':
            seed = int(argv[i + 1])
        if a == '--samples':
            samples = int(argv[i + 1])
    rnd = random.Random(seed)
    exprs = []
    SMALL = ('0', '1', '2', '3', '5', '7', '10', 'True', 'False', '0.5', '1.5', '0.0', '1j', 'None')
    for a, op, b in itertools.product(POOL, OPS, POOL):
        if op in ('**', '<<') and b not in SMALL:
            continue          # keep the reference evaluation itself cheap
        exprs.append('%s%s%s' % (a, op, b))
    if depth >= 2:
        # systematic second level over a small pool (left- and right-nested, with and without parentheses), plus seeded samples
        pool2 = ['1', '3', '10', '0.1', '1.5', 'True'] if depth == 2 else ['0', '1', '2', '3', '10', '0.1', '0.5', '1.5', '1e16', 'True', '1j', 'None']
        ops2 = ['+', '-', '*', '//', '%', '/'] if depth == 2 else [o for o in OPS if o not in ('**', '<<')]
        inner = ['%s%s%s' % (a, op, b) for a in pool2 for op in OPS for b in pool2 if not (op in ('**', '<<') and b not in SMALL)]
        for l in inner:
            for op in ops2:
                for r in pool2:
                    exprs.append('%s%s%s' % (l, op, r))
                    exprs.append('%s%s(%s)' % (r, op, l))
        base = list(exprs[:13668])
        for _ in range(samples):
            l, r = rnd.choice(base), rnd.choice(POOL)
            op = rnd.choice([o for o in OPS if o not in ('**', '<<')])
            exprs.append(rnd.choice(['(%s)%s%s', '%s%s%s', '%s%s(%s)']) % ((l, op, r) if rnd.random() < 0.5 else (r, op, l)))
            exprs.append('-(%s)%s%s' % (l, op, r))
    cases = 0
    fails = []
    for n, e in enumerate(exprs):
        try:
            tree = ast.parse(e, mode='eval')
        except SyntaxError:
            continue
        ctx = CONTEXTS[n % len(CONTEXTS)] if depth >= 2 or n % 7 else 'x=%s'
        src = ctx.replace('%s', e)
        try:
            ast.parse(src)
        except SyntaxError:
            continue
        cases += 1
        want = outcome(e)
        try:
            out = python_minifier.minify(src, constant_folding=True, **KW)
        except Exception as ex:
            fails.append({'input': src, 'failure': 'minify raised %s' % type(ex).__name__})
            continue
        # compare the evaluation of every maximal literal-only sub-expression: evaluate the whole module's marked expression instead
        ref = python_minifier.minify(src, constant_folding=False, **KW)
        if len(out) > len(ref):
            fails.append({'input': src, 'failure': 'folded output longer than unfolded: %r vs %r' % (out, ref)})
            continue
        # find the expression in the output: re-parse both and compare literal-only subtrees by evaluation
        try:
            t_out, t_ref = ast.parse(out), ast.parse(ref)
        except SyntaxError:
            fails.append({'input': src, 'failure': 'output does not parse: %r' % out})
            continue
        if not compare_literal_subtrees(t_ref, t_out, fails, src):
            continue
    # several expressions per module, in seeded random order: a fold must not depend on what was folded before it
    valid = []
    for e in exprs[:13668]:
        try:
            ast.parse(e, mode='eval')
            valid.append(e)
        except SyntaxError:
            pass
    order = list(valid)
    rnd.shuffle(order)
    for i in range(0, min(len(order), 6000 if depth < 3 else len(order)), 40):
        chunk = order[i:i + 40]
        src = '\n'.join('v%d=%s' % (j, e) for j, e in enumerate(chunk))
        cases += 1
        try:
            out = python_minifier.minify(src, constant_folding=True, **KW)
            ref = python_minifier.minify(src, constant_folding=False, **KW)
            compare_literal_subtrees(ast.parse(ref), ast.parse(out), fails, 'module of %d assignments starting with %s' % (len(chunk), chunk[0]))
        except Exception as ex:
            fails.append({'input': src[:200], 'failure': 'minify raised %s' % type(ex).__name__})
    print(json.dumps({'cases': cases, 'failures': fails[:40], 'n_failures': len(fails)}))


def literal_only(n):
    for x in ast.walk(n):
        if isinstance(x, (ast.Name, ast.Call, ast.Attribute, ast.Subscript, ast.Lambda, ast.IfExp, ast.BoolOp, ast.Compare)):
            return False
        if isinstance(x, ast.Constant) and isinstance(x.value, (str, bytes)):
            return False
    return isinstance(n, (ast.BinOp, ast.UnaryOp, ast.Constant))


def compare_literal_subtrees(a, b, fails, src):
    """walk both trees in parallel; where the reference has a maximal literal-only expression the output must evaluate identically"""
    if isinstance(a, ast.expr) and literal_only(a):
        if not isinstance(b, ast.expr):
            fails.append({'input': src, 'failure': 'structure changed'})
            return False
        wa, wb = outcome(ast.unparse(a)), outcome(ast.unparse(b))
        if wa != wb:
            fails.append({'input': src, 'failure': 'value changed: %r -> %r (%s -> %s)' % (wa, wb, ast.unparse(a), ast.unparse(b))})
            return False
        return True
    if type(a) is not type(b):
        fails.append({'input': src, 'failure': 'structure changed at %s' % type(a).__name__})
        return False
    for (fa, va), (fb, vb) in zip(ast.iter_fields(a), ast.iter_fields(b)):
        if isinstance(va, ast.AST) and isinstance(vb, ast.AST):
            if not compare_literal_subtrees(va, vb, fails, src):
                return False
        elif isinstance(va, list) and isinstance(vb, list) and len(va) == len(vb):
            for x, y in zip(va, vb):
                if isinstance(x, ast.AST) and isinstance(y, ast.AST):
                    if not compare_literal_subtrees(x, y, fails, src):
                        return False
    return True


if __name__ == '__main__':
    main(sys.argv[1:])
