#!/usr/bin/env python3
"""Print the detection table (markdown) from selftest/detection.json."""
import json, os, re
HERE = os.path.dirname(os.path.abspath(__file__))
d = json.load(open(os.path.join(HERE, 'selftest', 'detection.json')))
def title(rel):
    if rel.startswith('seeded/'):
        m = json.load(open(os.path.join(HERE, os.path.dirname(rel), 'meta.json')))
        return re.sub(r'^C\d+ seeded change \d+: ', '', m.get('title', ''))[:95]
    if 'historic' in rel:
        n = os.path.basename(rel).split('-')[1]
        for l in open(os.path.join(HERE, 'selftest', 'historic', 'INDEX.txt')):
            if l.split()[0] == n:
                return 'revert of: ' + ' '.join(l.split()[2:])[:85]
    return os.path.basename(rel)[:-6]
print('| change | caught by | how | first refuted obligation / stand-in |')
print('|---|---|---|---|')
for rel in sorted(d):
    r = d[rel]
    hows, what = [], ''
    for p, res in (r.get('results') or {}).items():
        if res['rc'] != 1:
            continue
        kinds = set()
        for l in res['lines']:
            if l.startswith('refuted:'):
                kinds.add('contract')
                what = what or l[9:].split(' ')[0]
            if l.startswith('bounded stand-in'):
                kinds.add('stand-in')
                what = what or ('stand-in: ' + l[len('bounded stand-in '):].split(' found')[0].split(':')[0])
        hows.append('%s: %s' % (p, '+'.join(sorted(kinds)) or 'violation'))
    name = rel.replace('seeded/', '').replace('/patch.diff', '').replace('selftest/mutants/', 'm:').replace('selftest/historic/', 'h:').replace('.patch', '')
    print('| %s — %s | %s | %s | `%s` |' % (name, title(rel), ', '.join(r.get('caught_by', [])) or r['status'], '; '.join(hows), what[:110]))
