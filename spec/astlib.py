"""Library of canonical AST instances: used to turn a refuted `emit` obligation (parent class, operator, slot, child class) into a
concrete program that is printed by the real package, and by the bounded enumeration stand-in.  Runs under /venv/bin/python too."""
import ast

L = ast.Load()
S = ast.Store()


def N(i='a'):
    return ast.Name(id=i, ctx=L)


def T(i='t'):
    return ast.Name(id=i, ctx=S)


BINOPS = ['Add', 'Sub', 'Mult', 'Div', 'FloorDiv', 'Mod', 'MatMult', 'Pow', 'LShift', 'RShift', 'BitOr', 'BitXor', 'BitAnd']
UNARYOPS = ['Not', 'UAdd', 'USub', 'Invert']
BOOLOPS = ['And', 'Or']
CMPOPS = ['Eq', 'NotEq', 'Lt', 'LtE', 'Gt', 'GtE', 'Is', 'IsNot', 'In', 'NotIn']


def expr_kinds():
    """[(label, constructor)] : every expression class, operators expanded."""
    out = []
    out.append(('Name', lambda: N('x')))
    out.append(('Constant:int', lambda: ast.Constant(value=1)))
    out.append(('Constant:float', lambda: ast.Constant(value=1.5)))
    out.append(('Constant:complex', lambda: ast.Constant(value=2j)))
    out.append(('Constant:str', lambda: ast.Constant(value='s')))
    out.append(('Constant:bytes', lambda: ast.Constant(value=b'b')))
    out.append(('Constant:None', lambda: ast.Constant(value=None)))
    out.append(('Constant:True', lambda: ast.Constant(value=True)))
    out.append(('Constant:Ellipsis', lambda: ast.Constant(value=Ellipsis)))
    for op in BINOPS:
        out.append(('BinOp:' + op, lambda op=op: ast.BinOp(left=N('p'), op=getattr(ast, op)(), right=N('q'))))
    for op in UNARYOPS:
        out.append(('UnaryOp:' + op, lambda op=op: ast.UnaryOp(op=getattr(ast, op)(), operand=N('p'))))
    for op in BOOLOPS:
        out.append(('BoolOp:' + op, lambda op=op: ast.BoolOp(op=getattr(ast, op)(), values=[N('p'), N('q')])))
    for op in ('Eq', 'Is', 'In', 'NotIn', 'Lt'):
        out.append(('Compare:' + op, lambda op=op: ast.Compare(left=N('p'), ops=[getattr(ast, op)()], comparators=[N('q')])))
    out.append(('Call', lambda: ast.Call(func=N('f'), args=[N('p')], keywords=[])))
    out.append(('Attribute', lambda: ast.Attribute(value=N('p'), attr='at', ctx=L)))
    out.append(('Subscript', lambda: ast.Subscript(value=N('p'), slice=N('q'), ctx=L)))
    out.append(('IfExp', lambda: ast.IfExp(test=N('c'), body=N('p'), orelse=N('q'))))
    out.append(('Lambda', lambda: ast.Lambda(args=ast.arguments(posonlyargs=[], args=[], vararg=None, kwonlyargs=[], kw_defaults=[],
                                                                  kwarg=None, defaults=[]), body=N('p'))))
    out.append(('NamedExpr', lambda: ast.NamedExpr(target=T('w'), value=N('p'))))
    out.append(('Await', lambda: ast.Await(value=N('p'))))
    out.append(('Yield', lambda: ast.Yield(value=N('p'))))
    out.append(('Yield:none', lambda: ast.Yield(value=None)))
    out.append(('YieldFrom', lambda: ast.YieldFrom(value=N('p'))))
    out.append(('Tuple', lambda: ast.Tuple(elts=[N('p'), N('q')], ctx=L)))
    out.append(('Tuple:one', lambda: ast.Tuple(elts=[N('p')], ctx=L)))
    out.append(('Tuple:empty', lambda: ast.Tuple(elts=[], ctx=L)))
    out.append(('List', lambda: ast.List(elts=[N('p')], ctx=L)))
    out.append(('Set', lambda: ast.Set(elts=[N('p')])))
    out.append(('Dict', lambda: ast.Dict(keys=[N('p')], values=[N('q')])))
    gen = lambda: [ast.comprehension(target=T('i'), iter=N('it'), ifs=[], is_async=0)]
    out.append(('ListComp', lambda: ast.ListComp(elt=N('i'), generators=gen())))
    out.append(('SetComp', lambda: ast.SetComp(elt=N('i'), generators=gen())))
    out.append(('DictComp', lambda: ast.DictComp(key=N('i'), value=N('i'), generators=gen())))
    out.append(('GeneratorExp', lambda: ast.GeneratorExp(elt=N('i'), generators=gen())))
    agen = lambda: [ast.comprehension(target=T('i'), iter=N('it'), ifs=[N('c')], is_async=1)]
    out.append(('ListComp:async', lambda: ast.ListComp(elt=N('i'), generators=agen())))
    out.append(('DictComp:async', lambda: ast.DictComp(key=N('i'), value=N('i'), generators=agen())))
    out.append(('GeneratorExp:async', lambda: ast.GeneratorExp(elt=N('i'), generators=agen() + gen())))
    out.append(('JoinedStr', lambda: ast.JoinedStr(values=[ast.Constant(value='s'), ast.FormattedValue(value=N('p'), conversion=-1,
                                                                                                       format_spec=None)])))
    out.append(('Starred', lambda: ast.Starred(value=N('p'), ctx=L)))
    out.append(('Slice', lambda: ast.Slice(lower=N('p'), upper=N('q'), step=None)))
    return out


def args0():
    return ast.arguments(posonlyargs=[], args=[], vararg=None, kwonlyargs=[], kw_defaults=[], kwarg=None, defaults=[])


def gen1(it=None, ifs=None):
    return ast.comprehension(target=T('i'), iter=it or N('it'), ifs=ifs or [], is_async=0)


def slots():
    """[(label, parent class, field, builder(child) -> (kind, node))] : kind is 'expr' or 'stmt' (node to embed in a function body).

    Every slot in which the printers print an expression child, with sole / first / later positions for list slots."""
    out = []

    def E(label, K, field, f):
        out.append((label, K, field, lambda c, f=f: ('expr', f(c))))

    def St(label, K, field, f):
        out.append((label, K, field, lambda c, f=f: ('stmt', f(c))))
    for op in BINOPS:
        E('BinOp:%s.left' % op, 'BinOp', 'left', lambda c, op=op: ast.BinOp(left=c, op=getattr(ast, op)(), right=N('z')))
        E('BinOp:%s.right' % op, 'BinOp', 'right', lambda c, op=op: ast.BinOp(left=N('z'), op=getattr(ast, op)(), right=c))
    for op in UNARYOPS:
        E('UnaryOp:%s.operand' % op, 'UnaryOp', 'operand', lambda c, op=op: ast.UnaryOp(op=getattr(ast, op)(), operand=c))
    for op in BOOLOPS:
        E('BoolOp:%s.values[0]' % op, 'BoolOp', 'values', lambda c, op=op: ast.BoolOp(op=getattr(ast, op)(), values=[c, N('z')]))
        E('BoolOp:%s.values[1]' % op, 'BoolOp', 'values', lambda c, op=op: ast.BoolOp(op=getattr(ast, op)(), values=[N('z'), c]))
        E('BoolOp:%s.values[2]' % op, 'BoolOp', 'values', lambda c, op=op: ast.BoolOp(op=getattr(ast, op)(), values=[N('y'), N('z'), c]))
    for op in ('Eq', 'Is', 'NotIn', 'In', 'Lt'):
        E('Compare:%s.left' % op, 'Compare', 'left', lambda c, op=op: ast.Compare(left=c, ops=[getattr(ast, op)()], comparators=[N('z')]))
        E('Compare:%s.comparators[0]' % op, 'Compare', 'comparators',
          lambda c, op=op: ast.Compare(left=N('z'), ops=[getattr(ast, op)()], comparators=[c]))
        E('Compare:%s.comparators[1]' % op, 'Compare', 'comparators',
          lambda c, op=op: ast.Compare(left=N('z'), ops=[ast.Lt(), getattr(ast, op)()], comparators=[N('y'), c]))
    E('Call.func', 'Call', 'func', lambda c: ast.Call(func=c, args=[], keywords=[]))
    E('Call.args[sole]', 'Call', 'args', lambda c: ast.Call(func=N('f'), args=[c], keywords=[]))
    E('Call.args[0]', 'Call', 'args', lambda c: ast.Call(func=N('f'), args=[c, N('z')], keywords=[]))
    E('Call.args[1]', 'Call', 'args', lambda c: ast.Call(func=N('f'), args=[N('z'), c], keywords=[]))
    E('Call.args[0]+kw', 'Call', 'args', lambda c: ast.Call(func=N('f'), args=[c], keywords=[ast.keyword(arg='k', value=N('z'))]))
    E('keyword.value', 'keyword', 'value', lambda c: ast.Call(func=N('f'), args=[], keywords=[ast.keyword(arg='k', value=c)]))
    E('keyword.value[**]', 'keyword', 'value', lambda c: ast.Call(func=N('f'), args=[], keywords=[ast.keyword(arg=None, value=c)]))
    E('IfExp.body', 'IfExp', 'body', lambda c: ast.IfExp(test=N('y'), body=c, orelse=N('z')))
    E('IfExp.test', 'IfExp', 'test', lambda c: ast.IfExp(test=c, body=N('y'), orelse=N('z')))
    E('IfExp.orelse', 'IfExp', 'orelse', lambda c: ast.IfExp(test=N('y'), body=N('z'), orelse=c))
    E('Attribute.value', 'Attribute', 'value', lambda c: ast.Attribute(value=c, attr='at', ctx=L))
    E('Subscript.value', 'Subscript', 'value', lambda c: ast.Subscript(value=c, slice=N('z'), ctx=L))
    E('Subscript.slice', 'Subscript', 'slice', lambda c: ast.Subscript(value=N('z'), slice=c, ctx=L))
    E('Subscript.slice[tuple0]', 'Tuple', 'elts', lambda c: ast.Subscript(value=N('z'), slice=ast.Tuple(elts=[c, N('y')], ctx=L), ctx=L))
    E('Subscript.slice[tuple1]', 'Tuple', 'elts', lambda c: ast.Subscript(value=N('z'), slice=ast.Tuple(elts=[N('y'), c], ctx=L), ctx=L))
    E('Subscript.slice[tuple-one]', 'Tuple', 'elts', lambda c: ast.Subscript(value=N('z'), slice=ast.Tuple(elts=[c], ctx=L), ctx=L))
    E('Slice.lower', 'Slice', 'lower', lambda c: ast.Subscript(value=N('z'), slice=ast.Slice(lower=c, upper=None, step=None), ctx=L))
    E('Slice.upper', 'Slice', 'upper', lambda c: ast.Subscript(value=N('z'), slice=ast.Slice(lower=None, upper=c, step=None), ctx=L))
    E('Slice.step', 'Slice', 'step', lambda c: ast.Subscript(value=N('z'), slice=ast.Slice(lower=None, upper=None, step=c), ctx=L))
    E('Starred.value[call]', 'Starred', 'value', lambda c: ast.Call(func=N('f'), args=[ast.Starred(value=c, ctx=L)], keywords=[]))
    E('Starred.value[list]', 'Starred', 'value', lambda c: ast.List(elts=[ast.Starred(value=c, ctx=L)], ctx=L))
    E('Dict.keys', 'Dict', 'keys', lambda c: ast.Dict(keys=[c], values=[N('z')]))
    E('Dict.values', 'Dict', 'values', lambda c: ast.Dict(keys=[N('z')], values=[c]))
    E('Dict.values[1]', 'Dict', 'values', lambda c: ast.Dict(keys=[N('y'), N('z')], values=[N('y'), c]))
    E('Dict.values[**]', 'Dict', 'values', lambda c: ast.Dict(keys=[None], values=[c]))
    E('Dict.values[**1]', 'Dict', 'values', lambda c: ast.Dict(keys=[N('y'), None], values=[N('y'), c]))
    for K in ('List', 'Set', 'Tuple'):
        mk = {'List': lambda e: ast.List(elts=e, ctx=L), 'Set': lambda e: ast.Set(elts=e), 'Tuple': lambda e: ast.Tuple(elts=e, ctx=L)}[K]
        E('%s.elts[sole]' % K, K, 'elts', lambda c, mk=mk: mk([c]))
        E('%s.elts[0]' % K, K, 'elts', lambda c, mk=mk: mk([c, N('z')]))
        E('%s.elts[1]' % K, K, 'elts', lambda c, mk=mk: mk([N('z'), c]))
    E('ListComp.elt', 'ListComp', 'elt', lambda c: ast.ListComp(elt=c, generators=[gen1()]))
    E('SetComp.elt', 'SetComp', 'elt', lambda c: ast.SetComp(elt=c, generators=[gen1()]))
    E('GeneratorExp.elt', 'GeneratorExp', 'elt', lambda c: ast.GeneratorExp(elt=c, generators=[gen1()]))
    E('GeneratorExp.elt[sole-arg]', 'GeneratorExp', 'elt',
      lambda c: ast.Call(func=N('f'), args=[ast.GeneratorExp(elt=c, generators=[gen1()])], keywords=[]))
    E('DictComp.key', 'DictComp', 'key', lambda c: ast.DictComp(key=c, value=N('z'), generators=[gen1()]))
    E('DictComp.value', 'DictComp', 'value', lambda c: ast.DictComp(key=N('z'), value=c, generators=[gen1()]))
    E('comprehension.iter', 'comprehension', 'iter', lambda c: ast.ListComp(elt=N('i'), generators=[gen1(it=c)]))
    E('comprehension.iter[1]', 'comprehension', 'iter', lambda c: ast.ListComp(elt=N('i'), generators=[gen1(), gen1(it=c)]))
    E('comprehension.ifs[0]', 'comprehension', 'ifs', lambda c: ast.ListComp(elt=N('i'), generators=[gen1(ifs=[c])]))
    E('comprehension.ifs[1]', 'comprehension', 'ifs', lambda c: ast.ListComp(elt=N('i'), generators=[gen1(ifs=[N('y'), c])]))
    E('Lambda.body', 'Lambda', 'body', lambda c: ast.Lambda(args=args0(), body=c))

    def lam_default(c):
        a = args0()
        a.args = [ast.arg(arg='pa', annotation=None)]
        a.defaults = [c]
        return ast.Lambda(args=a, body=N('z'))
    E('arguments.defaults', 'arguments', 'defaults', lam_default)

    def lam_kwdefault(c):
        a = args0()
        a.kwonlyargs = [ast.arg(arg='pa', annotation=None)]
        a.kw_defaults = [c]
        return ast.Lambda(args=a, body=N('z'))
    E('arguments.kw_defaults', 'arguments', 'kw_defaults', lam_kwdefault)
    E('NamedExpr.value', 'NamedExpr', 'value', lambda c: ast.NamedExpr(target=T('w'), value=c))
    E('Await.value', 'Await', 'value', lambda c: ast.Await(value=c))
    E('Yield.value', 'Yield', 'value', lambda c: ast.Yield(value=c))
    E('YieldFrom.value', 'YieldFrom', 'value', lambda c: ast.YieldFrom(value=c))
    E('FormattedValue.value', 'FormattedValue', 'value',
      lambda c: ast.JoinedStr(values=[ast.FormattedValue(value=c, conversion=-1, format_spec=None)]))
    E('FormattedValue.value[!r]', 'FormattedValue', 'value',
      lambda c: ast.JoinedStr(values=[ast.Constant(value='s'), ast.FormattedValue(value=c, conversion=114, format_spec=None)]))
    E('FormattedValue.value[spec]', 'FormattedValue', 'value',
      lambda c: ast.JoinedStr(values=[ast.FormattedValue(value=c, conversion=-1, format_spec=ast.JoinedStr(values=[ast.Constant(value='>3')]))]))
    # statements
    St('Expr.value', 'Expr', 'value', lambda c: ast.Expr(value=c))
    St('Assign.value', 'Assign', 'value', lambda c: ast.Assign(targets=[T()], value=c))
    St('Assign.value[2 targets]', 'Assign', 'value', lambda c: ast.Assign(targets=[T(), T('u')], value=c))
    St('AugAssign.value', 'AugAssign', 'value', lambda c: ast.AugAssign(target=T(), op=ast.Add(), value=c))
    St('AnnAssign.annotation', 'AnnAssign', 'annotation', lambda c: ast.AnnAssign(target=T(), annotation=c, value=None, simple=1))
    St('AnnAssign.value', 'AnnAssign', 'value', lambda c: ast.AnnAssign(target=T(), annotation=N('int'), value=c, simple=1))
    St('Return.value', 'Return', 'value', lambda c: ast.Return(value=c))
    St('Assert.test', 'Assert', 'test', lambda c: ast.Assert(test=c, msg=None))
    St('Assert.msg', 'Assert', 'msg', lambda c: ast.Assert(test=N('z'), msg=c))
    St('Raise.exc', 'Raise', 'exc', lambda c: ast.Raise(exc=c, cause=None))
    St('Raise.cause', 'Raise', 'cause', lambda c: ast.Raise(exc=N('z'), cause=c))
    St('If.test', 'If', 'test', lambda c: ast.If(test=c, body=[ast.Pass()], orelse=[]))
    St('If.test[elif]', 'If', 'test', lambda c: ast.If(test=N('z'), body=[ast.Pass()], orelse=[ast.If(test=c, body=[ast.Pass()], orelse=[])]))
    St('While.test', 'While', 'test', lambda c: ast.While(test=c, body=[ast.Pass()], orelse=[]))
    St('For.iter', 'For', 'iter', lambda c: ast.For(target=T(), iter=c, body=[ast.Pass()], orelse=[]))
    St('AsyncFor.iter', 'AsyncFor', 'iter', lambda c: ast.AsyncFor(target=T(), iter=c, body=[ast.Pass()], orelse=[]))
    St('withitem.context_expr[sole]', 'withitem', 'context_expr',
       lambda c: ast.With(items=[ast.withitem(context_expr=c, optional_vars=None)], body=[ast.Pass()]))
    St('withitem.context_expr[as]', 'withitem', 'context_expr',
       lambda c: ast.With(items=[ast.withitem(context_expr=c, optional_vars=T())], body=[ast.Pass()]))
    St('withitem.context_expr[0 of 2]', 'withitem', 'context_expr',
       lambda c: ast.With(items=[ast.withitem(context_expr=c, optional_vars=None), ast.withitem(context_expr=N('z'), optional_vars=None)],
                          body=[ast.Pass()]))
    St('withitem.context_expr[1 of 2]', 'withitem', 'context_expr',
       lambda c: ast.With(items=[ast.withitem(context_expr=N('z'), optional_vars=T()), ast.withitem(context_expr=c, optional_vars=None)],
                          body=[ast.Pass()]))
    St('withitem.context_expr[async]', 'withitem', 'context_expr',
       lambda c: ast.AsyncWith(items=[ast.withitem(context_expr=c, optional_vars=None)], body=[ast.Pass()]))

    def fdef(**kw):
        d = dict(name='g', args=args0(), body=[ast.Pass()], decorator_list=[], returns=None, type_params=[])
        d.update(kw)
        return ast.FunctionDef(**d)
    St('FunctionDef.decorator_list', 'FunctionDef', 'decorator_list', lambda c: fdef(decorator_list=[c]))
    St('FunctionDef.decorator_list[1]', 'FunctionDef', 'decorator_list', lambda c: fdef(decorator_list=[N('z'), c]))
    St('FunctionDef.returns', 'FunctionDef', 'returns', lambda c: fdef(returns=c))

    def fdef_ann(c):
        a = args0()
        a.args = [ast.arg(arg='pa', annotation=c)]
        return fdef(args=a)
    St('arg.annotation', 'arg', 'annotation', fdef_ann)

    def fdef_default(c):
        a = args0()
        a.args = [ast.arg(arg='pa', annotation=None), ast.arg(arg='pb', annotation=None)]
        a.defaults = [N('z'), c]
        return fdef(args=a)
    St('arguments.defaults[def]', 'arguments', 'defaults', fdef_default)

    def cdef(**kw):
        d = dict(name='K', bases=[], keywords=[], body=[ast.Pass()], decorator_list=[], type_params=[])
        d.update(kw)
        return ast.ClassDef(**d)
    St('ClassDef.bases[0]', 'ClassDef', 'bases', lambda c: cdef(bases=[c]))
    St('ClassDef.bases[1]', 'ClassDef', 'bases', lambda c: cdef(bases=[N('z'), c]))
    St('ClassDef.keywords', 'keyword', 'value', lambda c: cdef(keywords=[ast.keyword(arg='metaclass', value=c)]))
    St('ClassDef.decorator_list', 'ClassDef', 'decorator_list', lambda c: cdef(decorator_list=[c]))
    St('ExceptHandler.type', 'ExceptHandler', 'type',
       lambda c: ast.Try(body=[ast.Pass()], handlers=[ast.ExceptHandler(type=c, name=None, body=[ast.Pass()])], orelse=[], finalbody=[]))
    St('ExceptHandler.type[as]', 'ExceptHandler', 'type',
       lambda c: ast.Try(body=[ast.Pass()], handlers=[ast.ExceptHandler(type=c, name='e', body=[ast.Pass()])], orelse=[], finalbody=[]))
    St('ExceptHandler.type[star]', 'ExceptHandler', 'type',
       lambda c: ast.TryStar(body=[ast.Pass()], handlers=[ast.ExceptHandler(type=c, name=None, body=[ast.Pass()])], orelse=[], finalbody=[]))
    St('Match.subject', 'Match', 'subject',
       lambda c: ast.Match(subject=c, cases=[ast.match_case(pattern=ast.MatchAs(pattern=None, name=None), guard=None, body=[ast.Pass()])]))
    St('match_case.guard', 'match_case', 'guard',
       lambda c: ast.Match(subject=N('z'), cases=[ast.match_case(pattern=ast.MatchAs(pattern=None, name=None), guard=c, body=[ast.Pass()])]))
    St('TypeAlias.value', 'TypeAlias', 'value', lambda c: ast.TypeAlias(name=T('Al'), type_params=[], value=c))
    St('TypeVar.bound', 'TypeVar', 'bound',
       lambda c: ast.TypeAlias(name=T('Al'), type_params=[ast.TypeVar(name='TV', bound=c)], value=N('z')))
    St('Delete.targets[expr]', 'Delete', 'targets', lambda c: ast.Delete(targets=[c]))
    return out


VALID_CHILD = None


def child_allowed(slot_label, K, field, child_label):
    """AST validity: which child kinds the parser can put into a slot."""
    base = child_label.split(':')[0]
    if base == 'Slice':
        return (K == 'Subscript' and field == 'slice') or slot_label.startswith('Subscript.slice[tuple')
    if base == 'Starred':
        return (K == 'Call' and field == 'args') or (K in ('List', 'Tuple', 'Set') and field == 'elts' and not slot_label.startswith('Subscript')) \
            or (K == 'ClassDef' and field == 'bases') or slot_label.startswith('Subscript.slice[tuple')
    if K == 'Delete':
        return base in ('Name', 'Attribute', 'Subscript', 'Tuple', 'List') and child_label not in ('Tuple:empty',)
    return True


def wrap_module(kind, node):
    """Embed the construct in `async def f(): ...` (so await/yield parse) and return a Module."""
    if kind == 'expr':
        node = ast.Expr(value=node)
    body = [node]
    f = ast.AsyncFunctionDef(name='f', args=args0(), body=body, decorator_list=[], returns=None, type_params=[])
    m = ast.Module(body=[f], type_ignores=[])
    fix_ctx(m)
    ast.fix_missing_locations(m)
    return m


def fix_ctx(m):
    """Delete targets need Del context, assignment targets Store (only for the slots that place a child as a target)."""
    for n in ast.walk(m):
        if isinstance(n, ast.Delete):
            for t in n.targets:
                _set_ctx(t, ast.Del())


def _set_ctx(t, ctx):
    if hasattr(t, 'ctx'):
        t.ctx = ctx
    if isinstance(t, (ast.Tuple, ast.List)):
        for e in t.elts:
            _set_ctx(e, ctx)


def strict_equal(a, b, path='root'):
    """Structural identity with constants compared by type, value and sign.  Returns None or a description of the difference."""
    if type(a) is not type(b):
        return '%s: %s vs %s' % (path, type(a).__name__, type(b).__name__)
    if isinstance(a, ast.AST):
        for f in a._fields:
            if f in ('kind', 'ctx', 'type_comment'):
                continue
            r = strict_equal(getattr(a, f, None), getattr(b, f, None), '%s.%s' % (path, f))
            if r:
                return r
        return None
    if isinstance(a, list):
        if len(a) != len(b):
            return '%s: length %d vs %d' % (path, len(a), len(b))
        for i, (x, y) in enumerate(zip(a, b)):
            r = strict_equal(x, y, '%s[%d]' % (path, i))
            if r:
                return r
        return None
    if isinstance(a, float):
        import math
        if (a != b and not (math.isnan(a) and math.isnan(b))) or math.copysign(1, a) != math.copysign(1, b):
            return '%s: %r vs %r' % (path, a, b)
        return None
    if isinstance(a, complex):
        return strict_equal(a.real, b.real, path + '.real') or strict_equal(a.imag, b.imag, path + '.imag')
    if a != b:
        return '%s: %r vs %r' % (path, a, b)
    return None


def roundtrip(module):
    """Print with the real package and compare strictly. -> None or failure description."""
    import python_minifier
    src_tree = ast.parse(ast.unparse(module)) if False else module
    try:
        text = python_minifier.unparse(module)
    except Exception as e:
        return 'unparse raised %s: %s' % (type(e).__name__, str(e)[:100])
    try:
        back = ast.parse(text)
    except SyntaxError as e:
        return 'output does not parse: %r' % text
    r = strict_equal(module, back)
    if r:
        return 'tree differs (%s) in output %r' % (r, text)
    return None
