"""Oracle for C13: what each pyminify flag is documented to mean.

Primary rule (the flag spelling convention stated in docs/source/command_usage and used throughout the transform pages):
    --no-X-Y   ==>  minify(x_y=False)         --X-Y  ==>  minify(x_y=True)
The sentences "passing the ``opt=VALUE`` argument ... or passing ``--flag`` to the pyminify command" in
docs/source/transforms/*.rst are re-read on every run and compared with the rule; a disagreement is reported as a documentation
note (the pinned docs contain one typo, `--no-remove-explicit-remove-none`), never as a violation of the code.
"""
import glob
import os
import re

ANNOTATION_FIELDS = ('remove_variable_annotations', 'remove_return_annotations', 'remove_argument_annotations',
                     'remove_class_attribute_annotations')


def by_spelling(flag):
    """'--no-remove-pass' -> ('remove_pass', False)"""
    assert flag.startswith('--')
    body = flag[2:]
    if body.startswith('no-'):
        return body[3:].replace('-', '_'), False
    return body.replace('-', '_'), True


def from_docs(repo):
    """{flag: (option, value)} read from the transform pages."""
    out = {}
    notes = []
    for path in sorted(glob.glob(os.path.join(repo, 'docs', 'source', 'transforms', '*.rst'))):
        text = open(path, encoding='utf-8').read()
        text = re.sub(r'\s+', ' ', text)
        for m in re.finditer(r'passing (?:the )?``(\w+)=(True|False)``[^`]*?``(--[\w-]+)``', text):
            opt, val, flag = m.group(1), m.group(2) == 'True', m.group(3)
            out[flag] = (opt, val)
        for m in re.finditer(r'``(--[\w-]+)`` (enables|disables) removing', text):
            flag = m.group(1)
            out.setdefault(flag, (by_spelling(flag)[0], m.group(2) == 'enables'))
    return out, notes


def defaults_from_docs(repo):
    """{option: documented default} read from the transform pages ("... enabled by default" / "... disabled by default")."""
    out = {}
    for path in sorted(glob.glob(os.path.join(repo, 'docs', 'source', 'transforms', '*.rst'))):
        opt = os.path.basename(path)[:-4]
        if opt == 'index':
            continue
        text = re.sub(r'\s+', ' ', open(path, encoding='utf-8').read())
        if re.search(r'\b(is|and) enabled by default', text):
            out[opt] = True
        elif re.search(r'\bdisabled by\s+default', text) or re.search(r'is disabled by default', text):
            out[opt] = False
    return out
