"""Oracle for C02/C08 layer L2: the level at which each expression kind sits in CPython's grammar when printed WITHOUT
surrounding parentheses, and the lowest level each (parent, slot) accepts.

Written from Grammar/python.gram (3.12; the operator chain is identical in the 3.11 copy under /usr/src/python3.11, which
`grammar_chain_from_gram()` re-reads when present) and independent of the printer's own `precedences` table:

  star_expressions 0 < starred 0.5 < named_expression 1 < expression (lambda, if-else) 2 < disjunction 4 < conjunction 5 < inversion 6
  < comparison 7 < bitwise_or 8 < bitwise_xor 9 < bitwise_and 10 < shift_expr 11 < sum 12 < term 13 < factor 14 < power 15
  < await_primary 16 < primary 17 < atom 18.   Special: bare yield -1, bare generator expression -2, slice -3, invalid -100.
"""
import os
import re

import z3

BINOP_LEVEL = {'BitOr': 8, 'BitXor': 9, 'BitAnd': 10, 'LShift': 11, 'RShift': 11, 'Add': 12, 'Sub': 12, 'Mult': 13, 'Div': 13,
               'FloorDiv': 13, 'Mod': 13, 'MatMult': 13, 'Pow': 15}
UNARY_LEVEL = {'Not': 6, 'UAdd': 14, 'USub': 14, 'Invert': 14}
BOOL_LEVEL = {'Or': 4, 'And': 5}
ATOMS = ('Name', 'Constant', 'JoinedStr', 'List', 'Set', 'Dict', 'ListComp', 'SetComp', 'DictComp', 'GeneratorExp')
FIXED = {'NamedExpr': 1, 'Lambda': 2, 'IfExp': 2, 'Compare': 7, 'Await': 16, 'Attribute': 17, 'Call': 17, 'Subscript': 17,
         'Starred': 0.5, 'Slice': -3, 'Yield': -100, 'YieldFrom': -100, 'FormattedValue': -100}

YIELD, GENEXP, SLICE, INVALID = -1, -2, -3, -100


def R(x):
    return z3.RealVal(repr(x))


def grammar_chain_from_gram():
    """Re-derive the operand nonterminals of the binary/unary rules from the CPython grammar file when it is present.
    Returns {} when no grammar file exists; the caller compares with the table above (mismatch => checker error)."""
    for path in ('/usr/src/python3.12/Grammar/python.gram', '/usr/src/python3.11/Grammar/python.gram'):
        if os.path.exists(path):
            text = open(path).read()
            break
    else:
        return {}
    order = ['disjunction', 'conjunction', 'inversion', 'comparison', 'bitwise_or', 'bitwise_xor', 'bitwise_and', 'shift_expr', 'sum',
             'term', 'factor', 'power', 'await_primary', 'primary', 'atom']
    level = dict(zip(order, [4, 5, 6, 7, 8, 9, 10, 11, 12, 13, 14, 15, 16, 17, 18]))
    ops = {"'|'": 'BitOr', "'^'": 'BitXor', "'&'": 'BitAnd', "'<<'": 'LShift', "'>>'": 'RShift', "'+'": 'Add', "'-'": 'Sub',
           "'*'": 'Mult', "'/'": 'Div', "'//'": 'FloorDiv', "'%'": 'Mod', "'@'": 'MatMult', "'**'": 'Pow'}
    out = {}
    for m in re.finditer(r"\|\s*a=(\w+) ('[^']+') b=(\w+)", text):
        l, op, r = m.groups()
        if op in ops and l in level and r in level:
            out[ops[op]] = (level[l], level[r])
    return out


def check_against_gram():
    got = grammar_chain_from_gram()
    bad = []
    for op, (l, r) in got.items():
        want_l = 16 if op == 'Pow' else BINOP_LEVEL[op]
        want_r = 14 if op == 'Pow' else BINOP_LEVEL[op] + 1
        if (l, r) != (want_l, want_r):
            bad.append((op, (l, r), (want_l, want_r)))
    return got, bad


def tag_is(tagvar, names, tag_const):
    names = [n for n in names]
    if not names:
        return z3.BoolVal(False)
    return z3.Or([tagvar == tag_const(n) for n in names])


def chain(tagvar, table, tag_const, default):
    e = R(default)
    for name in sorted(table):
        e = z3.If(tagvar == tag_const(name), R(table[name]), e)
    return e


def level_via_visit(tagvar, tags, op_tagvar, op_tags, tuple_len, tag_const):
    """Level of the text produced by dispatching `visit` on a node of class `tagvar` (z3 Tag) — a z3 Real.

    op_tagvar: tag of the node's `op` child when it has one; tuple_len: z3 Int length of `elts` for tuples (or None)."""
    e = R(INVALID)
    for t in sorted(tags):
        if t in ATOMS:
            v = R(18)
        elif t == 'Tuple':
            v = z3.If(tuple_len > 0, R(0), R(18)) if tuple_len is not None else R(0)
        elif t == 'BinOp':
            v = chain(op_tagvar, BINOP_LEVEL, tag_const, INVALID) if op_tagvar is not None else R(8)
        elif t == 'UnaryOp':
            v = chain(op_tagvar, UNARY_LEVEL, tag_const, INVALID) if op_tagvar is not None else R(6)
        elif t == 'BoolOp':
            v = chain(op_tagvar, BOOL_LEVEL, tag_const, INVALID) if op_tagvar is not None else R(4)
        elif t in FIXED:
            v = R(FIXED[t])
        else:
            v = R(INVALID)
        e = z3.If(tagvar == tag_const(t), v, e)
    return e
