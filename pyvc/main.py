"""./vcheck entry point."""
import argparse
import importlib
import json
import os
import sys
import time

HERE = os.path.dirname(os.path.dirname(os.path.abspath(__file__)))
if HERE not in sys.path:
    sys.path.insert(0, HERE)


def main(argv=None):
    ap = argparse.ArgumentParser(prog='vcheck')
    ap.add_argument('what', help='property id (C01..C17), "all", "selftest", "replay" or "list"')
    ap.add_argument('rest', nargs='*')
    ap.add_argument('--tier', default=os.environ.get('VERIF_TIER', 'quick'), choices=['quick', 'thorough'])
    ap.add_argument('--jobs', type=int, default=0)
    args = ap.parse_args(argv)
    if args.jobs:
        os.environ['PYVC_JOBS'] = str(args.jobs)
    if args.tier == 'thorough':
        os.environ.setdefault('PYVC_TIMEOUT_MS', '60000')
    from pyvc import runner
    if args.what == 'replay':
        from props import replay
        return replay.replay_file(args.rest[0])
    if args.what == 'selftest':
        from props import selftest
        return selftest.main(args.rest, args.tier)
    if args.what == 'list':
        from props import registry
        for pid in sorted(registry.PROPS):
            print(pid, registry.PROPS[pid]['title'])
        return 0
    from props import registry
    ids = sorted(registry.PROPS) if args.what == 'all' else [args.what]
    worst = 0
    for pid in ids:
        if pid not in registry.PROPS:
            print('unknown property %s' % pid)
            return 3
        rc = registry.run_property(pid, args.tier)
        worst = max(worst, rc) if rc != 1 and worst != 1 else 1
    return worst


if __name__ == '__main__':
    try:
        rc = main()
    except SystemExit:
        raise
    except Exception:
        import traceback
        traceback.print_exc()
        print('CHECKER-ERROR: vcheck crashed')
        rc = 3
    sys.exit(rc)
