"""pyvc engine core: symbolic values, heap, path context, path explorer, obligations.

Path enumeration is by re-execution: a path is a list of branch decisions; the interpreter is re-run from the start of the
function under contract for every path, taking recorded decisions first.  No state is ever cloned.

Verdicts per obligation: proved (unsat) / refuted (sat, model kept) / undecided (unknown, timeout, construct outside subset).
"""
import ast as pyast
import os
import subprocess
import tempfile
import time

import z3

# ---------------------------------------------------------------------------------------------------------------------
# exceptions used for control flow


class Undecided(Exception):
    """The engine met something outside its subset; every obligation of the run becomes undecided, never violated."""


class BudgetExceeded(Undecided):
    pass


class Infeasible(Exception):
    """The current path is infeasible (or was cut by an assume)."""


class Raised(Exception):
    """A Python exception raised by the code under analysis."""

    def __init__(self, exc):
        Exception.__init__(self, repr(exc))
        self.exc = exc


class ReturnSignal(Exception):
    def __init__(self, value):
        self.value = value


class BreakSignal(Exception):
    pass


class ContinueSignal(Exception):
    pass


# ---------------------------------------------------------------------------------------------------------------------
# values


class Obj(object):
    """A heap reference.  Identity is the integer id, which is deterministic per path prefix."""
    __slots__ = ('id',)

    def __init__(self, id_):
        self.id = id_

    def __eq__(self, other):
        return isinstance(other, Obj) and other.id == self.id

    def __ne__(self, other):
        return not self == other

    def __hash__(self):
        return hash(('Obj', self.id))

    def __repr__(self):
        return 'Obj#%d' % self.id


class ObjData(object):
    __slots__ = ('kind', 'cls', 'tags', 'tagvar', 'fields', 'items', 'origin', 'name', 'symlen', 'elem_factory', 'extra')

    def __init__(self, kind, cls=None, name=None):
        self.kind = kind          # 'inst' | 'node' | 'list' | 'dict' | 'set' | 'ns'
        self.cls = cls            # real python class when known
        self.tags = None          # for symbolic nodes: set of possible concrete class names
        self.tagvar = None        # z3 constant of sort Tag
        self.fields = {}
        self.items = None         # list kind: python list of values (prefix when symlen is set)
        self.origin = None        # (parent Obj, field, index) for lazily created children
        self.name = name
        self.symlen = None        # z3 Int when the list has symbolic length
        self.elem_factory = None
        self.extra = {}


class Opaque(object):
    """An uninterpreted value (result of a contracted call, an external value ...).  Structural identity by name+args."""

    def __init__(self, name, args=(), sort=None):
        self.name = name
        self.args = tuple(args)
        self.sort = sort

    def key(self):
        return (self.name, tuple(_key(a) for a in self.args))

    def __eq__(self, other):
        return isinstance(other, Opaque) and self.key() == other.key()

    def __ne__(self, other):
        return not self == other

    def __hash__(self):
        return hash(self.key())

    def __repr__(self):
        if self.args:
            return '%s(%s)' % (self.name, ', '.join(repr(a) for a in self.args))
        return self.name


def _key(v):
    if isinstance(v, Opaque):
        return v.key()
    if z3.is_expr(v):
        return ('z3', v.sexpr())
    if isinstance(v, (list, tuple)):
        return tuple(_key(x) for x in v)
    return v


class SymStr(object):
    """A string built by concatenation: parts are python str, z3 String expressions or Opaque chunks."""

    def __init__(self, parts):
        flat = []
        for p in parts:
            if isinstance(p, SymStr):
                ps = p.parts
            else:
                ps = (p,)
            for q in ps:
                if isinstance(q, str):
                    if q == '':
                        continue
                    if flat and isinstance(flat[-1], str):
                        flat[-1] = flat[-1] + q
                        continue
                flat.append(q)
        self.parts = tuple(flat)

    def __repr__(self):
        return 'SymStr(%s)' % ' ++ '.join(repr(p) for p in self.parts)

    def key(self):
        return tuple(_key(p) for p in self.parts)

    def __eq__(self, other):
        return isinstance(other, SymStr) and self.key() == other.key()

    def __ne__(self, other):
        return not self == other

    def __hash__(self):
        return hash(self.key())


def mkstr(parts):
    s = SymStr(parts)
    if len(s.parts) == 0:
        return ''
    if len(s.parts) == 1 and isinstance(s.parts[0], str):
        return s.parts[0]
    return s


class TagName(object):
    """`node.__class__.__name__` of a symbolic node, optionally with a constant prefix ('visit_' + ...)."""

    def __init__(self, obj, prefix=''):
        self.obj = obj
        self.prefix = prefix

    def __repr__(self):
        return 'TagName(%r, %r)' % (self.prefix, self.obj)


class SrcFunc(object):
    """A function whose body is interpreted from the real source."""

    def __init__(self, fi, node, globs, closure=None, qual=None, module=None, defaults=None, kwdefaults=None, cls=None):
        self.fi = fi
        self.node = node
        self.globs = globs
        self.closure = closure
        self.qual = qual or getattr(node, 'name', '<lambda>')
        self.module = module
        self.defaults = defaults
        self.kwdefaults = kwdefaults
        self.cls = cls          # defining class (for super())

    @property
    def spec(self):
        return '%s:%s' % (self.module, self.qual)

    def __repr__(self):
        return 'SrcFunc(%s)' % self.spec


class Bound(object):
    def __init__(self, self_val, func):
        self.self_val = self_val
        self.func = func

    def __repr__(self):
        return 'Bound(%r, %r)' % (self.self_val, self.func)


class Native(object):
    """A real python object (module, class, builtin) that the engine handles through a model."""

    def __init__(self, py):
        self.py = py

    def __eq__(self, other):
        return isinstance(other, Native) and other.py is self.py

    def __ne__(self, other):
        return not self == other

    def __hash__(self):
        return hash(id(self.py))

    def __repr__(self):
        return 'Native(%s)' % getattr(self.py, '__name__', repr(self.py))


class NativeMethod(object):
    def __init__(self, recv, name):
        self.recv = recv
        self.name = name

    def __repr__(self):
        return 'NativeMethod(%r.%s)' % (self.recv, self.name)


class ExcVal(object):
    """An exception instance of the analysed program."""

    def __init__(self, cls, args=()):
        self.cls = cls
        self.args = tuple(args)

    def __repr__(self):
        return '%s%r' % (self.cls.__name__, self.args)


class Env(object):
    __slots__ = ('vars', 'parent', 'func')

    def __init__(self, parent=None, func=None):
        self.vars = {}
        self.parent = parent
        self.func = func

    def lookup(self, name):
        e = self
        while e is not None:
            if name in e.vars:
                return e, e.vars[name]
            e = e.parent
        return None, None


# ---------------------------------------------------------------------------------------------------------------------
# the AST tag sort

_TAG = {}


def tag_universe():
    """All concrete classes of the running ast module (the interpreter under verification), sorted by name."""
    if 'names' not in _TAG:
        import ast as real_ast
        import warnings
        abstract = ('AST', 'boolop', 'cmpop', 'excepthandler', 'expr', 'expr_context', 'mod', 'operator', 'pattern', 'slice', 'stmt',
                    'type_ignore', 'type_param', 'unaryop')
        deprecated = ('_ast_Ellipsis', 'Num', 'Str', 'Bytes', 'NameConstant', 'Ellipsis', 'Index', 'ExtSlice', 'Suite', 'Param', 'AugLoad', 'AugStore')
        names = []
        with warnings.catch_warnings():
            warnings.simplefilter('ignore')
            for n in dir(real_ast):
                c = getattr(real_ast, n)
                if isinstance(c, type) and issubclass(c, real_ast.AST) and n not in abstract and n not in deprecated:
                    names.append(n)
        names = sorted(set(names))
        sort, consts = z3.EnumSort('Tag', names)
        _TAG['names'] = names
        _TAG['sort'] = sort
        _TAG['const'] = dict(zip(names, consts))
        _TAG['cls'] = dict((n, getattr(real_ast, n)) for n in names)
    return _TAG


def tag_sort():
    return tag_universe()['sort']


def tag_const(name):
    return tag_universe()['const'][name]


def tags_of_class(cls):
    """Concrete tag names whose class is a subclass of cls (cls may be a tuple)."""
    u = tag_universe()
    out = set()
    for n, c in u['cls'].items():
        try:
            if issubclass(c, cls):
                out.add(n)
        except TypeError:
            pass
    return out


# ---------------------------------------------------------------------------------------------------------------------
# obligations


class Obligation(object):
    def __init__(self, name, status, detail='', model=None, time_s=0.0, backend='z3', path=None, kind='post', goal=None):
        self.name = name
        self.status = status      # proved | refuted | undecided
        self.detail = detail
        self.model = model or {}
        self.time_s = time_s
        self.backend = backend
        self.path = path
        self.kind = kind
        self.goal = goal

    def to_json(self):
        return {'name': self.name, 'status': self.status, 'detail': self.detail, 'model': self.model, 'time_s': round(self.time_s, 4),
                'backend': self.backend, 'path': self.path, 'kind': self.kind, 'goal': self.goal}


TIMEOUT_MS = int(os.environ.get('PYVC_TIMEOUT_MS', '10000'))


def cvc5_check(smt2, timeout_s):
    """Second opinion under a hard wall-clock kill. Returns 'sat' | 'unsat' | 'unknown'."""
    try:
        with tempfile.NamedTemporaryFile('w', suffix='.smt2', delete=False) as f:
            f.write('(set-logic ALL)\n' + smt2 + '\n(check-sat)\n')
            path = f.name
        try:
            out = subprocess.run(['timeout', '-k', '1', str(int(timeout_s)), '/usr/bin/cvc5', '--strings-exp', path],
                                 capture_output=True, text=True, timeout=timeout_s + 5).stdout.strip().splitlines()
        finally:
            os.unlink(path)
        if out and out[0] in ('sat', 'unsat'):
            return out[0]
    except Exception:
        pass
    return 'unknown'


def model_to_json(model, limit=60):
    out = {}
    try:
        for d in model.decls()[:limit]:
            try:
                out[d.name()] = str(model[d])[:200]
            except Exception:
                pass
    except Exception:
        pass
    return out


class PathCtx(object):
    """State of one path run."""

    def __init__(self, explorer, prefix):
        self.explorer = explorer
        self.prefix = list(prefix)
        self.decisions = []
        self.solver = z3.Solver()
        self.solver.set('timeout', TIMEOUT_MS)
        self.pc = []
        self.pc_kind = []
        self.heap = {}
        self.next_id = 0
        self.fresh_n = {}
        self.ghost = {}
        self.depth = 0
        self.steps = 0
        self.loop_stack = []
        self.write_log = []     # every heap write of the path: (object id, field or '<items>')

    # -- fresh names / objects ----------------------------------------------------------------------------------------
    def fresh(self, base):
        n = self.fresh_n.get(base, 0)
        self.fresh_n[base] = n + 1
        return '%s!%d' % (base, n) if n else base

    def new_obj(self, kind, cls=None, name=None):
        o = Obj(self.next_id)
        self.next_id += 1
        self.heap[o.id] = ObjData(kind, cls, name)
        return o

    def data(self, obj):
        return self.heap[obj.id]

    def input_writes(self, allowed=()):
        """Writes of this path that hit an object of the symbolic input (a lazily materialised node or list, or a task-made root) and are
        not listed in `allowed` ((Obj, field) pairs).  Objects allocated by the analysed code itself have no origin and are not reported."""
        ok = set((o.id, f) for o, f in allowed)
        out = []
        for oid, field in self.write_log:
            d = self.heap.get(oid)
            if d is None or (oid, field) in ok:
                continue
            if getattr(d, 'origin', None) is not None or d.extra.get('input_root'):
                out.append(('%s#%d' % (d.name or d.kind, oid), field))
        return out

    def new_list(self, items):
        o = self.new_obj('list')
        self.data(o).items = list(items)
        return o

    def new_node(self, classes, name=None, origin=None):
        """A symbolic AST node whose class is one of `classes` (set of tag names)."""
        classes = set(classes)
        o = self.new_obj('node', name=name)
        d = self.data(o)
        d.tags = classes
        d.origin = origin
        d.name = name or self.fresh('n')
        d.tagvar = z3.Const('tag_' + d.name, tag_sort())
        if len(classes) < len(tag_universe()['names']):
            self.assume(z3.Or([d.tagvar == tag_const(c) for c in sorted(classes)]))
        return o

    # -- path condition ---------------------------------------------------------------------------------------------------
    def assume(self, cond, kind='assume'):
        if cond is True:
            return
        if cond is False:
            raise Infeasible()
        self.pc.append(cond)
        self.pc_kind.append(kind)
        self.solver.add(cond)

    def feasible(self, cond):
        r = self.solver.check(cond)
        return r != z3.unsat

    def branch(self, cond, label=''):
        """Decide a symbolic condition; returns the python bool taken on this path."""
        if cond is True or cond is False:
            return cond
        cond = z3.simplify(cond)
        if z3.is_true(cond):
            return True
        if z3.is_false(cond):
            return False
        idx = len(self.decisions)
        if time.time() > self.explorer.deadline:
            raise BudgetExceeded('exploration budget of the task exceeded after %d paths (symbolic execution does not converge on this code)' % len(self.explorer.paths))
        if idx > 600:
            raise Undecided('more than 600 symbolic decisions on one path')
        if idx < len(self.prefix):
            d = self.prefix[idx]
            self.decisions.append(d)
            self.assume(cond if d else z3.Not(cond), 'branch')
            return d
        t = self.feasible(cond)
        f = self.feasible(z3.Not(cond))
        if t and f:
            self.explorer.push(self.decisions + [False])
            self.decisions.append(True)
            self.assume(cond, 'branch')
            return True
        if t:
            self.decisions.append(True)
            self.assume(cond, 'branch')
            return True
        if f:
            self.decisions.append(False)
            self.assume(z3.Not(cond), 'branch')
            return False
        raise Infeasible()

    def choose(self, n, label=''):
        """Non-deterministic choice among n alternatives (each explored as its own path)."""
        for i in range(n - 1):
            b = z3.Bool(self.fresh('choice_%s_%d' % (label, i)))
            if self.branch(b):
                return i
        return n - 1

    # -- obligations -----------------------------------------------------------------------------------------------------
    def check(self, name, goal, kind='post', detail=''):
        """Record the obligation `pc => goal`."""
        key = (name, tuple(self.decisions))
        if key in self.explorer.checked:
            return self.explorer.checked[key]
        t0 = time.time()
        backend = 'z3'
        model = None
        if goal is True:
            status = 'proved'
        elif goal is False:
            r = self.solver.check()
            status = 'refuted' if r == z3.sat else ('proved' if r == z3.unsat else 'undecided')
            if r == z3.sat:
                model = model_to_json(self.solver.model())
        else:
            r = self.solver.check(z3.Not(goal))
            if r == z3.unsat:
                status = 'proved'
            elif r == z3.sat:
                status = 'refuted'
                model = model_to_json(self.solver.model())
            else:
                status = 'undecided'
                if os.environ.get('PYVC_NO_CVC5') != '1':
                    s2 = z3.Solver()
                    for c in self.pc:
                        s2.add(c)
                    s2.add(z3.Not(goal))
                    r2 = cvc5_check(s2.to_smt2().replace('(check-sat)', ''), max(5, TIMEOUT_MS // 1000))
                    if r2 == 'unsat':
                        status, backend = 'proved', 'cvc5'
                    elif r2 == 'sat':
                        status, backend = 'refuted', 'cvc5'
        goal_s = None
        if z3.is_expr(goal):
            goal_s = goal.sexpr()
            if len(goal_s) > 400:
                goal_s = goal_s[:400] + '...'
        ob = Obligation(name, status, detail, model, time.time() - t0, backend, list(self.decisions), kind, goal_s)
        self.explorer.checked[key] = ob
        self.explorer.obligations.append(ob)
        return ob

    def note_write(self, obj, field):
        self.write_log.append((obj.id, field))
        for lp in self.loop_stack:
            self.explorer.loop_writes.setdefault(lp, set())
            w = (obj.id, field)
            if w not in self.explorer.loop_writes[lp] and obj.id < self.explorer.loop_first_obj.get(lp, 1 << 60):
                self.explorer.loop_writes[lp].add(w)
                self.explorer.loop_writes_grew = True


class Explorer(object):
    """Enumerates every feasible path of one run function."""

    def __init__(self, max_paths=4000):
        self.worklist = []
        self.obligations = []
        self.checked = {}
        self.paths = []
        self.max_paths = max_paths
        self.loop_writes = {}
        self.loop_first_obj = {}
        self.loop_writes_grew = False
        self.undecided_reason = None
        self.deadline = time.time() + float(os.environ.get('PYVC_EXPLORE_BUDGET_S', '240'))

    def push(self, prefix):
        self.worklist.append(list(prefix))

    def explore(self, run, on_end=None):
        """run(ctx) executes the function under contract with symbolic arguments and returns an outcome record."""
        rounds = 0
        while True:
            rounds += 1
            self.worklist = [[]]
            self.obligations = []
            self.checked = {}
            self.paths = []
            self.loop_writes_grew = False
            n = 0
            while self.worklist:
                prefix = self.worklist.pop()
                n += 1
                if n > self.max_paths:
                    self.undecided_reason = 'path budget exceeded (%d)' % self.max_paths
                    break
                ctx = PathCtx(self, prefix)
                try:
                    outcome = run(ctx)
                    self.paths.append(('ok', list(ctx.decisions), outcome))
                    if getattr(ctx, 'unknown_effects', None):
                        self.undecided_reason = 'recursive helper without a contract, inner calls not executed: %s' % sorted(set(ctx.unknown_effects))
                    if on_end is not None:
                        on_end(ctx, outcome)
                except Infeasible:
                    self.paths.append(('infeasible', list(ctx.decisions), None))
                except Raised as e:
                    # an exception of the analysed code that the task did not expect: never a verdict about the repository by itself
                    self.undecided_reason = 'analysed code raised %r outside any handler the contract anticipates' % (e.exc,)
                    self.paths.append(('undecided', list(ctx.decisions), self.undecided_reason))
                except Undecided as e:
                    self.undecided_reason = str(e)
                    self.paths.append(('undecided', list(ctx.decisions), str(e)))
                    if isinstance(e, BudgetExceeded):
                        self.worklist = []
                        self.loop_writes_grew = False
            if not self.loop_writes_grew or rounds >= 4:
                break
        return self
