"""Models of builtins, operators and container/str methods for the symbolic interpreter.

Every model is either exact for the values it accepts or raises Undecided.
"""
import ast as pyast
import builtins as pybuiltins

import z3

from .engine import (Bound, ExcVal, Native, NativeMethod, Obj, Opaque, Raised, SrcFunc, SymStr, TagName, Undecided, mkstr,
                     tag_const)
from .interp import PROCEED, ClassOf, SymConst, SymIter, SuperProxy, is_z3


def is_concrete(v):
    if v is None or isinstance(v, (bool, int, float, complex, str, bytes)):
        return True
    if isinstance(v, tuple):
        return all(is_concrete(x) for x in v)
    if isinstance(v, slice):
        return True
    return False


def is_py_container(v):
    return isinstance(v, (list, dict, set, frozenset))


# ---------------------------------------------------------------------------------------------------------------------
# tag-name (class-name) strings


def tagname_cases(interp, tn):
    """[(tag, full string)] for a TagName under the current path."""
    d = interp.ctx.data(tn.obj)
    return [(t, tn.prefix + t) for t in sorted(d.tags)]


def tagname_select(interp, tn, fn, default=None):
    """If-chain over the possible classes: fn(string) must return a python number/bool/z3 value of one sort."""
    d = interp.ctx.data(tn.obj)
    cases = tagname_cases(interp, tn)
    vals = [(t, fn(s)) for t, s in cases]
    distinct = set(repr(v) for _, v in vals)
    if len(distinct) == 1:
        return vals[0][1]
    # build z3 If-chain
    zs = [v for _, v in vals]
    if all(isinstance(v, bool) for v in zs):
        yes = [t for t, v in vals if v]
        return z3.Or([d.tagvar == tag_const(t) for t in yes])
    if all(isinstance(v, (int, float)) and not isinstance(v, bool) or (is_z3(v) and (z3.is_int(v) or z3.is_real(v))) for v in zs):
        use_real = any(isinstance(v, float) or (is_z3(v) and z3.is_real(v)) for v in zs)

        def conv(v):
            if is_z3(v):
                return z3.ToReal(v) if use_real and z3.is_int(v) else v
            return z3.RealVal(repr(v)) if use_real else z3.IntVal(v)
        # group equal values
        expr = conv(vals[-1][1])
        for t, v in reversed(vals[:-1]):
            expr = z3.If(d.tagvar == tag_const(t), conv(v), expr)
        return expr
    raise Undecided('non-uniform values selected by class name')


# ---------------------------------------------------------------------------------------------------------------------
# operators


def binop(interp, op, a, b):
    ctx = interp.ctx
    if isinstance(op, pyast.Add):
        if _strlike(a) and _strlike(b):
            if isinstance(a, TagName) or isinstance(b, TagName):
                if isinstance(a, str) and isinstance(b, TagName):
                    return TagName(b.obj, a + b.prefix)
                raise Undecided('concatenation with class name')
            return mkstr([a, b])
        if isinstance(a, Obj) and isinstance(b, Obj):
            da, db = ctx.data(a), ctx.data(b)
            if da.kind == 'list' and db.kind == 'list':
                if da.symlen is None and db.symlen is None:
                    return ctx.new_list(list(da.items) + list(db.items))
                return concat_symlists(interp, a, b)
        if isinstance(a, (list, tuple)) and isinstance(b, Obj) and ctx.data(b).kind == 'list':
            if len(a) == 0:
                return b
            if ctx.data(b).symlen is None:
                return ctx.new_list(list(a) + list(ctx.data(b).items))
        if isinstance(a, Obj) and ctx.data(a).kind == 'list' and isinstance(b, (list, tuple)):
            if len(b) == 0:
                return a
            if ctx.data(a).symlen is None:
                return ctx.new_list(list(ctx.data(a).items) + list(b))
        if isinstance(a, tuple) and isinstance(b, tuple):
            return a + b
        if isinstance(a, list) and isinstance(b, list):
            return a + b
    if is_concrete(a) and is_concrete(b):
        try:
            return _pyop(op)(a, b)
        except Exception as e:
            raise Raised(ExcVal(type(e), e.args))
    if _numlike(a) and _numlike(b):
        za, zb = _num(interp, a, b)
        if isinstance(op, pyast.Add):
            return za + zb
        if isinstance(op, pyast.Sub):
            return za - zb
        if isinstance(op, pyast.Mult):
            return za * zb
    if isinstance(op, pyast.Mult) and isinstance(a, str) and is_z3(b) and z3.is_int(b):
        return SymStr((Opaque('repeat_%s_%s' % (a.encode('unicode_escape').decode(), b.sexpr()), sort='str'),))
    if isinstance(op, pyast.Mod) and isinstance(a, str):
        return SymStr((Opaque('fmt', sort='str'),))
    raise Undecided('binop %s on %r, %r' % (op.__class__.__name__, a, b))


def concat_symlists(interp, a, b):
    ctx = interp.ctx
    da, db = ctx.data(a), ctx.data(b)
    o = ctx.new_obj('list', name=ctx.fresh('cat'))
    d = ctx.data(o)
    d.items = {}
    la = da.symlen if da.symlen is not None else z3.IntVal(len(da.items))
    lb = db.symlen if db.symlen is not None else z3.IntVal(len(db.items))
    d.symlen = la + lb
    d.extra['concat'] = (a, b)

    def factory(key):
        # an arbitrary element of a ++ b is an arbitrary element of a or of b
        if isinstance(key, int):
            if da.symlen is None:
                if key < len(da.items):
                    return da.items[key]
                return _elem(interp, b, key - len(da.items))
            if ctx.branch(la > key):
                return _elem(interp, a, key)
            return _elem(interp, b, ('off', key))
        if ctx.branch(z3.Bool(ctx.fresh('cat_from_first'))):
            ctx.assume(la >= 1)
            return _elem(interp, a, key)
        ctx.assume(lb >= 1)
        return _elem(interp, b, key)
    d.elem_factory = factory
    return o


def _elem(interp, lst, key):
    d = interp.ctx.data(lst)
    if d.symlen is None:
        if isinstance(key, int):
            return d.items[key]
        # arbitrary element of a concrete list
        n = len(d.items)
        if n == 0:
            from .engine import Infeasible
            raise Infeasible()
        return d.items[interp.ctx.choose(n, 'elem')]
    return interp.list_elem(lst, key)


def _pyop(op):
    import operator
    return {pyast.Add: operator.add, pyast.Sub: operator.sub, pyast.Mult: operator.mul, pyast.Mod: operator.mod,
            pyast.FloorDiv: operator.floordiv, pyast.Div: operator.truediv, pyast.BitOr: operator.or_, pyast.BitAnd: operator.and_,
            pyast.Pow: operator.pow, pyast.LShift: operator.lshift, pyast.RShift: operator.rshift,
            pyast.BitXor: operator.xor}[type(op)]


def _strlike(v):
    return isinstance(v, (str, SymStr, TagName)) or (is_z3(v) and z3.is_string(v)) or (isinstance(v, Opaque) and v.sort in ('str', 'nonempty_str'))


def _numlike(v):
    return (isinstance(v, (int, float)) and not isinstance(v, bool)) or (is_z3(v) and (z3.is_int(v) or z3.is_real(v)))


def _num(interp, a, b):
    real = any(isinstance(x, float) or (is_z3(x) and z3.is_real(x)) for x in (a, b))

    def conv(x):
        if is_z3(x):
            return z3.ToReal(x) if real and z3.is_int(x) else x
        return z3.RealVal(repr(x)) if real else z3.IntVal(x)
    return conv(a), conv(b)


def compare(interp, op, a, b):
    ctx = interp.ctx
    if isinstance(op, (pyast.Is, pyast.IsNot)):
        r = identical(interp, a, b)
        return r if isinstance(op, pyast.Is) else _not(r)
    if isinstance(op, (pyast.In, pyast.NotIn)):
        r = contains(interp, b, a)
        return r if isinstance(op, pyast.In) else _not(r)
    if isinstance(op, (pyast.Eq, pyast.NotEq)):
        r = equal(interp, a, b)
        return r if isinstance(op, pyast.Eq) else _not(r)
    # ordering
    if is_concrete(a) and is_concrete(b):
        import operator
        f = {pyast.Lt: operator.lt, pyast.LtE: operator.le, pyast.Gt: operator.gt, pyast.GtE: operator.ge}[type(op)]
        return f(a, b)
    if _numlike(a) and _numlike(b):
        za, zb = _num(interp, a, b)
        if isinstance(op, pyast.Lt):
            return za < zb
        if isinstance(op, pyast.LtE):
            return za <= zb
        if isinstance(op, pyast.Gt):
            return za > zb
        if isinstance(op, pyast.GtE):
            return za >= zb
    raise Undecided('comparison %s on %r, %r' % (op.__class__.__name__, a, b))


def _not(r):
    if isinstance(r, bool):
        return not r
    return z3.Not(r)


def identical(interp, a, b):
    if isinstance(a, Obj) or isinstance(b, Obj):
        return isinstance(a, Obj) and isinstance(b, Obj) and a.id == b.id
    if isinstance(a, SymConst) or isinstance(b, SymConst):
        c, other = (a, b) if isinstance(a, SymConst) else (b, a)
        if other is None:
            return c.kind == 0
        if other is True:
            return c.kind == 1
        if other is False:
            return c.kind == 2
        raise Undecided('identity of symbolic constant with %r' % (other,))
    if a is None or b is None:
        if is_z3(a) or is_z3(b) or isinstance(a, (SymStr, TagName)) or isinstance(b, (SymStr, TagName)):
            return False
        if isinstance(a, Opaque) or isinstance(b, Opaque):
            o = a if isinstance(a, Opaque) else b
            if o.sort in ('str', 'bytes', 'node', 'list', 'notnone'):
                return False
            raise Undecided('identity of opaque %r with None' % (o,))
        return a is b
    if isinstance(a, bool) or isinstance(b, bool):
        if is_z3(a) and z3.is_bool(a):
            return a == z3.BoolVal(b)
        if is_z3(b) and z3.is_bool(b):
            return b == z3.BoolVal(a)
        if isinstance(a, bool) and isinstance(b, bool):
            return a is b
        if is_z3(a) or is_z3(b):
            return False
        return a is b
    if isinstance(a, (Native, SrcFunc)) and isinstance(b, (Native, SrcFunc)):
        return a == b if isinstance(a, Native) else a is b
    if is_concrete(a) and is_concrete(b):
        return a is b or (type(a) is type(b) and a == b and isinstance(a, (int, str)))
    raise Undecided('identity of %r and %r' % (a, b))


def equal(interp, a, b):
    ctx = interp.ctx
    if isinstance(a, ClassOf) and isinstance(b, ClassOf):
        # type(x) == type(y) for two symbolic nodes: their class tags agree
        da, db = ctx.data(a.obj), ctx.data(b.obj)
        if da.kind == 'node' and db.kind == 'node':
            return da.tagvar == db.tagvar
        if da.kind == 'inst' and db.kind == 'inst':
            return da.cls is db.cls
    if interp.policy is not None and (isinstance(a, Opaque) or isinstance(b, Opaque)):
        r = interp.policy.equal_opaque(interp, a, b)
        if r is not PROCEED:
            return r
    if isinstance(a, TagName) or isinstance(b, TagName):
        tn, other = (a, b) if isinstance(a, TagName) else (b, a)
        if isinstance(other, str):
            return tagname_select(interp, tn, lambda s: s == other)
        raise Undecided('class name compared with %r' % (other,))
    if isinstance(a, SymConst) or isinstance(b, SymConst):
        c, other = (a, b) if isinstance(a, SymConst) else (b, a)
        if other is Ellipsis or (isinstance(other, Native) and other.py is Ellipsis):
            return c.kind == 8
        if isinstance(other, str):
            return z3.And(c.kind == 6, c.strval == z3.StringVal(other))
        if other is None:
            return c.kind == 0
        if isinstance(other, bool) or (isinstance(other, int) and other in (0, 1)):
            # python: True == 1 == 1.0 == (1+0j); the int payload is modelled, "the float/complex value is one/zero" is a free boolean per constant
            one = bool(other)
            num = z3.Bool('cnum_is_%s_%s' % ('one' if one else 'zero', c.name))
            ctx.assume(z3.Not(z3.And(z3.Bool('cnum_is_one_' + c.name), z3.Bool('cnum_is_zero_' + c.name))))
            return z3.Or(c.kind == (1 if one else 2), z3.And(c.kind == 3, c.intval == (1 if one else 0)), z3.And(z3.Or(c.kind == 4, c.kind == 5), num))
        raise Undecided('== between symbolic constant and %r' % (other,))
    if isinstance(a, Obj) and isinstance(b, Obj):
        da = ctx.data(a)
        if da.kind == 'inst' and da.cls is not None:
            k, raw = interp.find_class_attr(da.cls, '__eq__')
            if k is not None and k is not object and hasattr(raw, '__code__'):
                return interp.call(interp.srcfunc_of(raw, k), [a, b], {})
        return a.id == b.id
    if isinstance(a, Obj) or isinstance(b, Obj):
        o, other = (a, b) if isinstance(a, Obj) else (b, a)
        d = ctx.data(o)
        if d.kind == 'list' and isinstance(other, (list, tuple)) and d.symlen is None:
            return list(d.items) == list(other)
        if other is None or is_concrete(other) or is_z3(other) or isinstance(other, (SymStr, TagName)):
            # instances without __eq__ (ast nodes, plain objects) compare by identity
            if d.kind in ('node', 'ns') or (d.kind == 'inst' and d.cls is not None and interp.find_class_attr(d.cls, '__eq__')[0] in (object, None)):
                return False
        raise Undecided('== between object and %r' % (other,))
    if is_concrete(a) and is_concrete(b):
        return a == b
    if a is None or b is None:
        o = b if a is None else a
        if is_z3(o) or isinstance(o, (SymStr,)):
            return False
        if isinstance(o, Opaque) and o.sort in ('str', 'bytes', 'node', 'list', 'notnone'):
            return False
    if _strlike(a) and _strlike(b):
        if isinstance(a, SymStr) and isinstance(b, SymStr) and a == b:
            return True
        if interp.policy is not None:
            r = interp.policy.str_equal(interp, a, b)
            if r is not PROCEED:
                return r
        return interp.to_z3(a) == interp.to_z3(b)
    if (is_z3(a) or is_z3(b)) and not isinstance(a, (Opaque, SymStr)) and not isinstance(b, (Opaque, SymStr)):
        if _numlike(a) and _numlike(b):
            za, zb = _num(interp, a, b)
            return za == zb
        za = interp.to_z3(a, like=b if is_z3(b) else None)
        zb = interp.to_z3(b, like=a if is_z3(a) else None)
        if za.sort() != zb.sort():
            if z3.is_bool(za) and z3.is_int(zb):
                return z3.If(za, 1, 0) == zb
            if z3.is_int(za) and z3.is_bool(zb):
                return za == z3.If(zb, 1, 0)
            return False
        return za == zb
    if isinstance(a, Opaque) and isinstance(b, Opaque):
        if a == b:
            return True
    if isinstance(a, (Native, SrcFunc)) and isinstance(b, (Native, SrcFunc)):
        return a == b
    if isinstance(a, tuple) and isinstance(b, tuple):
        if len(a) != len(b):
            return False
        conds = [equal(interp, x, y) for x, y in zip(a, b)]
        if all(isinstance(c, bool) for c in conds):
            return all(conds)
        return z3.And([c if is_z3(c) else z3.BoolVal(c) for c in conds])
    if is_py_container(a) and is_py_container(b):
        return a == b
    raise Undecided('== between %r and %r' % (a, b))


def contains(interp, container, item):
    ctx = interp.ctx
    if isinstance(container, Obj):
        d = ctx.data(container)
        if d.kind == 'list' and d.symlen is None:
            return _member(interp, item, list(d.items))
        if d.kind == 'dict':
            return _member(interp, item, list(d.items.keys()))
        if d.kind == 'set':
            if 'sym_member' in d.extra:
                return d.extra['sym_member'](interp, item)
            return _member(interp, item, list(d.items))
        if d.kind == 'list' and interp.policy is not None:
            r = interp.policy.contains(interp, container, item)
            if r is not PROCEED:
                return r
        if d.kind == 'list' and d.symlen is not None and isinstance(item, str):
            # a constant string in a list of unknown length: an uninterpreted fact about that list (one boolean per list and constant), false for the empty list
            b = z3.Bool('contains_%s_%s' % (d.name or container.id, item))
            ctx.assume(z3.Implies(d.symlen == 0, z3.Not(b)))
            # sound half of the existential: an arbitrary element of the list that equals the constant makes the fact true
            try:
                e = interp.list_elem(container, ('g', 'contains', item))
                if _strlike(e) and not isinstance(e, TagName):
                    ctx.assume(z3.Implies(z3.And(d.symlen >= 1, interp.to_z3(e) == z3.StringVal(item)), b))
            except (Undecided, KeyError, AttributeError, TypeError):
                pass
            return b
        raise Undecided('membership in symbolic list')
    if isinstance(container, (list, tuple, set, frozenset)):
        return _member(interp, item, list(container))
    if isinstance(container, dict):
        return _member(interp, item, list(container.keys()))
    if _strlike(container) and _strlike(item):
        if isinstance(container, str) and isinstance(item, str):
            return item in container
        if isinstance(container, TagName) or isinstance(item, TagName):
            raise Undecided('substring test on class name')
        return z3.Contains(interp.to_z3(container), interp.to_z3(item))
    if isinstance(container, Opaque) and interp.policy is not None:
        r = interp.policy.contains(interp, container, item)
        if r is not PROCEED:
            return r
    raise Undecided('membership test %r in %r' % (item, container))


def _member(interp, item, elems):
    if isinstance(item, TagName):
        strs = set(e for e in elems if isinstance(e, str))
        return tagname_select(interp, item, lambda s: s in strs)
    conds = []
    for e in elems:
        if isinstance(e, Native) and isinstance(item, Native):
            c = e == item
        elif isinstance(item, Obj) or isinstance(e, Obj):
            c = isinstance(item, Obj) and isinstance(e, Obj) and item.id == e.id
        else:
            c = equal(interp, item, e)
        if c is True:
            return True
        if c is False:
            continue
        conds.append(c)
    if not conds:
        return False
    return z3.Or(conds)


# ---------------------------------------------------------------------------------------------------------------------
# subscripts


def getitem(interp, v, idx):
    ctx = interp.ctx
    if interp.policy is not None and z3.is_expr(idx) and isinstance(v, Obj) and ctx.data(v).kind == 'dict':
        r = interp.policy.getitem(interp, v, idx)
        if r is not PROCEED:
            return r
    if isinstance(v, Obj):
        d = ctx.data(v)
        if d.kind == 'dict':
            if isinstance(idx, TagName):
                keys = d.items

                def look(s):
                    if s not in keys:
                        raise Raised(ExcVal(KeyError, (s,)))
                    return keys[s]
                return tagname_select(interp, idx, look)
            if idx in d.items:
                return d.items[idx]
            raise Raised(ExcVal(KeyError, (idx,)))
        if d.kind == 'list':
            if d.symlen is None:
                if isinstance(idx, int):
                    try:
                        return d.items[idx]
                    except IndexError:
                        raise Raised(ExcVal(IndexError, ()))
                if isinstance(idx, slice):
                    return ctx.new_list(d.items[idx])
                if is_z3(idx):
                    if interp.policy is not None:
                        r = interp.policy.getitem(interp, v, idx)
                        if r is not PROCEED:
                            return r
                raise Undecided('list index %r' % (idx,))
            if isinstance(idx, int):
                if idx >= 0:
                    if not ctx.branch(d.symlen > idx):
                        raise Raised(ExcVal(IndexError, ()))
                    return interp.list_elem(v, idx)
                if idx == -1:
                    if not ctx.branch(d.symlen >= 1):
                        raise Raised(ExcVal(IndexError, ()))
                    if 0 in d.items and not ctx.branch(d.symlen >= 2):
                        return d.items[0]
                    return interp.list_elem(v, ('last',))
            if is_z3(idx) and interp.policy is not None:
                r = interp.policy.getitem(interp, v, idx)
                if r is not PROCEED:
                    return r
            raise Undecided('index %r into symbolic list' % (idx,))
    if isinstance(v, dict):
        if isinstance(idx, TagName):
            def look(s):
                if s not in v:
                    raise Raised(ExcVal(KeyError, (s,)))
                return interp.wrap(v[s])
            return tagname_select(interp, idx, look)
        try:
            return interp.wrap(v[idx])
        except KeyError:
            raise Raised(ExcVal(KeyError, (idx,)))
    if isinstance(v, (tuple, list, str, bytes)) and (isinstance(idx, (int, slice))):
        try:
            r = v[idx]
        except IndexError:
            raise Raised(ExcVal(IndexError, ()))
        return r
    if isinstance(v, SymStr) or (is_z3(v) and z3.is_string(v)):
        if interp.policy is not None:
            r = interp.policy.getitem(interp, v, idx)
            if r is not PROCEED:
                return r
        zs = interp.to_z3(v)
        if isinstance(idx, int) and idx >= 0:
            return z3.SubString(zs, idx, 1)
        if isinstance(idx, int) and idx < 0:
            return z3.SubString(zs, z3.Length(zs) + idx, 1)
        if isinstance(idx, slice) and idx.step is None:
            lo = idx.start if idx.start is not None else 0
            if isinstance(lo, int) and lo >= 0 and idx.stop is None:
                return z3.SubString(zs, lo, z3.Length(zs) - lo)
            if isinstance(lo, int) and lo >= 0 and isinstance(idx.stop, int) and idx.stop < 0:
                return z3.SubString(zs, lo, z3.Length(zs) + idx.stop - lo)
        raise Undecided('string index %r' % (idx,))
    if interp.policy is not None:
        r = interp.policy.getitem(interp, v, idx)
        if r is not PROCEED:
            return r
    raise Undecided('subscript %r[%r]' % (v, idx))


def setitem(interp, v, idx, value):
    ctx = interp.ctx
    if isinstance(v, Obj):
        d = ctx.data(v)
        if d.kind == 'dict':
            ctx.note_write(v, '<items>')
            d.items[idx] = value
            return
        if d.kind == 'list' and d.symlen is None:
            ctx.note_write(v, '<items>')
            if isinstance(idx, int):
                d.items[idx] = value
                return
            if isinstance(idx, slice) and idx == slice(None, None, None):
                kind, seq = interp.as_iterable(value)
                if kind == 'concrete':
                    d.items[:] = seq
                    return
        if interp.policy is not None:
            r = interp.policy.setitem(interp, v, idx, value)
            if r is not PROCEED:
                return
    raise Undecided('item assignment on %r' % (v,))


# ---------------------------------------------------------------------------------------------------------------------
# builtins


def call_builtin(interp, py, args, kwargs):
    ctx = interp.ctx
    name = getattr(py, '__name__', None)
    from .interp import _noop
    if py is _noop:
        return None
    if py is isinstance:
        return interp.isinstance(args[0], args[1])
    if py is hasattr:
        return interp.hasattr(args[0], args[1])
    if py is getattr:
        return builtin_getattr(interp, args)
    if py is setattr:
        interp.setattr(args[0], args[1], args[2])
        return None
    if py is len:
        return builtin_len(interp, args[0])
    if py is repr or py is str:
        return builtin_repr(interp, py, args)
    if py is hex:
        if isinstance(args[0], int):
            return hex(args[0])
        return SymStr((Opaque('hex', (args[0],), sort='str'),))
    if py is type:
        if len(args) == 1:
            return builtin_type(interp, args[0])
    if py is list or py is tuple:
        if not args:
            return ctx.new_list([]) if py is list else ()
        v = args[0]
        if isinstance(v, Obj) and ctx.data(v).kind == 'list' and ctx.data(v).symlen is not None:
            if py is list:
                vd = ctx.data(v)
                if vd.extra.get('generator_result'):
                    return v
                # a new list object with the same elements
                o = ctx.new_obj('list', name=ctx.fresh('copy'))
                od = ctx.data(o)
                od.items = {}
                od.symlen = vd.symlen
                od.extra['copy_of'] = v
                od.elem_factory = lambda key, v=v: interp.list_elem(v, key)
                return o
        if isinstance(v, SymIter):
            if interp.policy is not None:
                r = interp.policy.materialize(interp, v)
                if r is not PROCEED:
                    return r
            raise Undecided('list() of lazy iterable over symbolic list')
        kind, seq = interp.as_iterable(v)
        if kind == 'concrete':
            return ctx.new_list(seq) if py is list else tuple(seq)
        raise Undecided('list() of symbolic sequence')
    if py is set:
        o = ctx.new_obj('set')
        if not args:
            ctx.data(o).items = set()
        else:
            ctx.data(o).items = set(interp.iterate_concrete(args[0]))
        return o
    if py is dict and not args and not kwargs:
        o = ctx.new_obj('dict')
        ctx.data(o).items = {}
        return o
    if py is zip:
        return builtin_zip(interp, args)
    if py is enumerate:
        return builtin_enumerate(interp, args)
    if py is range:
        if all(isinstance(a, int) for a in args):
            return list(range(*args))
        if len(args) == 1 and is_z3(args[0]):
            o = ctx.new_obj('list', name=ctx.fresh('range'))
            d = ctx.data(o)
            d.items = {}
            d.symlen = z3.If(args[0] >= 0, args[0], 0)
            d.elem_factory = lambda key: key if isinstance(key, int) else z3.Int(ctx.fresh('range_i'))
            return o
        raise Undecided('range of %r' % (args,))
    if py is filter:
        return builtin_filter(interp, args)
    if py is all or py is any:
        return builtin_allany(interp, py, args[0])
    if py is min or py is max:
        return builtin_minmax(interp, py, args, kwargs)
    if py is bool:
        return interp.truth(args[0])
    if py is int and len(args) == 1 and isinstance(args[0], (int, bool)):
        return int(args[0])
    if py is next:
        if interp.policy is not None:
            r = interp.policy.call_builtin(interp, py, args, kwargs)
            if r is not PROCEED:
                return r
    if py is sorted or py is iter or py is ord or py is chr or py is format or py is abs or py is id:
        if all(is_concrete(a) for a in args) and not kwargs and py is not sorted and py is not iter:
            return py(*args)
    if interp.policy is not None:
        r = interp.policy.call_builtin(interp, py, args, kwargs)
        if r is not PROCEED:
            return r
    raise Undecided('call of external %r' % (py,))


def builtin_getattr(interp, args):
    obj, name = args[0], args[1]
    default = args[2] if len(args) > 2 else PROCEED
    if isinstance(name, str):
        return interp.getattr(obj, name, default)
    if isinstance(name, TagName):
        # dynamic dispatch: group the possible classes by the attribute they resolve to
        d = interp.ctx.data(name.obj)
        groups = {}
        targets = {}
        for t, s in tagname_cases(interp, name):
            try:
                tgt = interp.getattr(obj, s, default)
            except Raised:
                tgt = None
            key = repr(tgt.func.spec if isinstance(tgt, Bound) else tgt)
            groups.setdefault(key, set()).add(t)
            targets[key] = tgt
        keys = sorted(groups)
        idx = interp.split_tags(name.obj, [groups[k] for k in keys], 'dispatch')
        tgt = targets[keys[idx]]
        if tgt is None:
            raise Raised(ExcVal(AttributeError, ('dynamic',)))
        return tgt
    raise Undecided('getattr with name %r' % (name,))


def builtin_len(interp, v):
    ctx = interp.ctx
    if isinstance(v, SymIter):
        if getattr(v, 'kept', None) is None:
            kind, seq = interp.as_iterable(v.src)
            n = z3.Int(ctx.fresh('kept'))
            ctx.assume(n >= 0)
            if kind == 'sym':
                ctx.assume(n <= seq[0])
                if v.label == 'filter-free':
                    ctx.assume(n == seq[0])
            else:
                ctx.assume(n <= len(seq))
            v.kept = n
        return v.kept
    if interp.policy is not None and isinstance(v, (SymStr, Opaque)):
        r = interp.policy.length(interp, v)
        if r is not PROCEED:
            return r
    if isinstance(v, Obj):
        d = ctx.data(v)
        if d.kind == 'list':
            return d.symlen if d.symlen is not None else len(d.items)
        if d.kind in ('dict', 'set'):
            return len(d.items)
    if isinstance(v, (str, bytes, tuple, list, dict, set, frozenset)):
        return len(v)
    if is_z3(v) and z3.is_string(v):
        return z3.Length(v)
    if isinstance(v, SymStr):
        total = 0
        sym = []
        for p in v.parts:
            if isinstance(p, str):
                total += len(p)
            elif is_z3(p):
                sym.append(z3.Length(p))
            else:
                n = opaque_len(p)
                ctx.assume(n >= 0)
                sym.append(n)
        return z3.Sum([z3.IntVal(total)] + sym)
    if isinstance(v, Opaque):
        n = opaque_len(v)
        ctx.assume(n >= 0)
        return n
    raise Undecided('len of %r' % (v,))


def opaque_len(p):
    n = z3.Int('len_' + repr(p))
    return n


def builtin_repr(interp, py, args):
    v = args[0]
    if is_concrete(v) and not isinstance(v, float):
        return py(v)
    if isinstance(v, float):
        return py(v)
    if isinstance(v, (str, SymStr)) and py is str:
        return v
    if is_z3(v) and z3.is_string(v) and py is str:
        return v
    if is_z3(v) and z3.is_bool(v) and py is repr:
        return z3.If(v, z3.StringVal('True'), z3.StringVal('False'))
    if interp.policy is not None:
        r = interp.policy.call_builtin(interp, py, args, {})
        if r is not PROCEED:
            return r
    if isinstance(v, Obj) and py is str:
        d = interp.ctx.data(v)
        if d.kind == 'inst' and d.cls is not None:
            k, raw = interp.find_class_attr(d.cls, '__str__')
            if k is not None and k is not object and hasattr(raw, '__code__'):
                return interp.call(interp.srcfunc_of(raw, k), [v], {})
    return SymStr((Opaque(py.__name__, (v,), sort='str'),))


def builtin_type(interp, v):
    if isinstance(v, Obj):
        d = interp.ctx.data(v)
        if d.kind == 'node':
            if len(d.tags) == 1:
                from .engine import tag_universe
                return Native(tag_universe()['cls'][list(d.tags)[0]])
            return ClassOf(v)
        if d.cls is not None:
            return Native(d.cls)
    if is_concrete(v):
        return Native(type(v))
    if interp.policy is not None:
        r = interp.policy.call_builtin(interp, type, [v], {})
        if r is not PROCEED:
            return r
    raise Undecided('type() of %r' % (v,))


def builtin_zip(interp, args):
    ctx = interp.ctx
    kinds = [interp.as_iterable(a) for a in args]
    if all(k == 'concrete' for k, _ in kinds):
        return [tuple(t) for t in zip(*[s for _, s in kinds])]
    o = ctx.new_obj('list', name=ctx.fresh('zip'))
    d = ctx.data(o)
    d.items = {}
    n = z3.Int(ctx.fresh('ziplen'))
    ctx.assume(n >= 0)
    lens = []
    for k, s in kinds:
        ln = z3.IntVal(len(s)) if k == 'concrete' else s[0]
        lens.append(ln)
        ctx.assume(n <= ln)
    ctx.assume(z3.Or([n == ln for ln in lens]))
    d.symlen = n

    def factory(key):
        out = []
        for k, s in kinds:
            if k == 'concrete':
                if isinstance(key, int):
                    out.append(s[key])
                else:
                    raise Undecided('zip of concrete and symbolic sequence')
            else:
                out.append(s[1](key))
        return tuple(out)
    d.elem_factory = factory
    return o


def builtin_enumerate(interp, args):
    ctx = interp.ctx
    k, s = interp.as_iterable(args[0])
    if k == 'concrete':
        return [(i, v) for i, v in enumerate(s)]
    o = ctx.new_obj('list', name=ctx.fresh('enum'))
    d = ctx.data(o)
    d.items = {}
    d.symlen = s[0]

    def factory(key):
        if isinstance(key, int):
            return (key, s[1](key))
        i = z3.Int(ctx.fresh('enum_i'))
        ctx.assume(i >= 1)
        ctx.assume(i < s[0])
        return (i, s[1](key))
    d.elem_factory = factory
    return o


def builtin_filter(interp, args):
    fn, seq = args
    k, s = interp.as_iterable(seq)
    if k == 'concrete':
        return [v for v in s if interp.truth(interp.call(fn, [v], {}))]

    def f(v):
        if interp.truth(interp.call(fn, [v], {})):
            return v
        return SymIter.SKIP
    return SymIter(seq, f, 'filtered')


def builtin_allany(interp, py, v):
    if isinstance(v, SymIter):
        # evaluate the body for one arbitrary element; all(...) is an uninterpreted boolean implied/contradicted by it
        if interp.policy is not None:
            r = interp.policy.allany(interp, py, v)
            if r is not PROCEED:
                return r
        raise Undecided('all/any over symbolic sequence')
    k, s = interp.as_iterable(v)
    if k == 'sym':
        # a (lazily mapped) list of unknown length: same rule as for a lazy iterable, on one arbitrary element
        ctx = interp.ctx
        n = getattr(interp, '_allany_n', 0)
        interp._allany_n = n + 1
        body = s[1](('arbitrary', 'allany_list%d' % n))
        try:
            bz = body if z3.is_expr(body) else z3.BoolVal(bool(interp.truth(body)))
        except Undecided:
            raise Undecided('all/any over symbolic sequence')
        r = z3.Bool(ctx.fresh('result_of_%s' % py.__name__))
        ctx.assume(z3.Implies(s[0] == 0, r if py is all else z3.Not(r)))
        ctx.assume(z3.Implies(r, bz) if py is all else z3.Implies(bz, r))
        return r
    if k != 'concrete':
        raise Undecided('all/any over symbolic sequence')
    if py is all:
        for x in s:
            if not interp.truth(x):
                return False
        return True
    for x in s:
        if interp.truth(x):
            return True
    return False


def builtin_minmax(interp, py, args, kwargs):
    ctx = interp.ctx
    if len(args) == 1 and isinstance(args[0], SymIter) and 'key' not in kwargs:
        it = args[0]
        kind, seq = interp.as_iterable(it.src)
        if kind == 'sym':
            # the extremum is attained at some element (over-approximation: no ordering constraint is kept)
            length, elem = seq
            ctx.assume(length >= 1)
            v = it.fn(elem(('minmax', ctx.fresh('mm'))))
            if v is SymIter.SKIP:
                raise Undecided('min/max of filtered symbolic sequence')
            return v
    if len(args) == 1:
        k, s = interp.as_iterable(args[0]) if not isinstance(args[0], SymIter) else (None, None)
        if k == 'concrete' and all(is_concrete(x) for x in s):
            keyf = kwargs.get('key')
            if keyf is None:
                return py(s)
            if isinstance(keyf, Native) and keyf.py is len:
                return py(s, key=len)
    if all(is_concrete(a) for a in args) and not kwargs:
        return py(*args)
    raise Undecided('min/max of %r' % (args,))


# ---------------------------------------------------------------------------------------------------------------------
# methods of builtin types


def call_method(interp, recv, name, args, kwargs):
    ctx = interp.ctx
    if isinstance(recv, Obj):
        d = ctx.data(recv)
        if d.kind == 'list':
            if interp.policy is not None:
                r = interp.policy.call_method(interp, recv, name, args, kwargs)
                if r is not PROCEED:
                    return r
            return list_method(interp, recv, d, name, args, kwargs)
        if d.kind == 'set':
            return set_method(interp, recv, d, name, args)
        if d.kind == 'dict':
            return dict_method(interp, recv, d, name, args)
        if d.kind == 'inst' and interp.policy is not None:
            r = interp.policy.call_method(interp, recv, name, args, kwargs)
            if r is not PROCEED:
                return r
    if isinstance(recv, dict):
        if name == 'get':
            key = args[0]
            default = args[1] if len(args) > 1 else None
            if isinstance(key, TagName):
                return tagname_select(interp, key, lambda s: interp.wrap(recv[s]) if s in recv else default)
            return interp.wrap(recv.get(key, default))
        if name in ('keys', 'values', 'items'):
            return [interp.wrap(x) for x in getattr(recv, name)()]
    if isinstance(recv, (str, bytes)) and all(is_concrete(a) for a in args) and not kwargs:
        try:
            r = getattr(recv, name)(*args)
        except Exception as e:
            raise Raised(ExcVal(type(e), e.args))
        if isinstance(r, list):
            return ctx.new_list(r)
        return r
    if isinstance(recv, (tuple, list)) and name in ('index', 'count') and all(is_concrete(a) for a in args):
        return getattr(recv, name)(*args)
    if isinstance(recv, str) and name == 'join':
        k, s = interp.as_iterable(args[0])
        if k == 'concrete':
            parts = []
            for i, x in enumerate(s):
                if i:
                    parts.append(recv)
                parts.append(x)
            return mkstr(parts)
    if isinstance(recv, (SymStr, TagName, Opaque)) or is_z3(recv) or isinstance(recv, str):
        if interp.policy is not None:
            r = interp.policy.str_method(interp, recv, name, args, kwargs)
            if r is not PROCEED:
                return r
        return str_method(interp, recv, name, args, kwargs)
    if interp.policy is not None:
        r = interp.policy.call_method(interp, recv, name, args, kwargs)
        if r is not PROCEED:
            return r
    raise Undecided('method %s of %r' % (name, recv))


def str_method(interp, recv, name, args, kwargs):
    if isinstance(recv, TagName):
        raise Undecided('str method on class name')
    if isinstance(recv, Opaque):
        raise Undecided('str method %s on opaque %r' % (name, recv))
    zs = interp.to_z3(recv)
    if name == 'startswith' and len(args) == 1:
        a = args[0]
        if isinstance(a, tuple):
            return z3.Or([z3.PrefixOf(interp.to_z3(x), zs) for x in a])
        return z3.PrefixOf(interp.to_z3(a), zs)
    if name == 'endswith' and len(args) == 1:
        a = args[0]
        if isinstance(a, tuple):
            return z3.Or([z3.SuffixOf(interp.to_z3(x), zs) for x in a])
        return z3.SuffixOf(interp.to_z3(a), zs)
    if name == 'encode':
        return Opaque('encode', (recv,) + tuple(args), sort='bytes')
    raise Undecided('str method %s on symbolic string' % name)


def list_method(interp, recv, d, name, args, kwargs):
    ctx = interp.ctx
    if d.symlen is not None:
        if name == 'pop' and not args:
            if not ctx.branch(d.symlen >= 1):
                raise Raised(ExcVal(IndexError, ('pop from empty list',)))
            ctx.note_write(recv, '<items>')
            v = interp.list_elem(recv, ('last',)) if ('last',) not in d.items else d.items[('last',)]
            d.symlen = d.symlen - 1
            d.extra['popped'] = d.extra.get('popped', 0) + 1
            d.items.pop(('last',), None)
            return v
        if name == 'extend':
            other = args[0]
            if isinstance(other, Obj) and ctx.data(other).kind == 'list':
                od = ctx.data(other)
                ctx.note_write(recv, '<items>')
                d.extra.setdefault('parts', [('self0', None)]).append(('list', other))
                d.symlen = d.symlen + (od.symlen if od.symlen is not None else len(od.items))
                return None
        raise Undecided('method %s on symbolic-length list' % name)
    if name == 'extend' and isinstance(args[0], Obj) and ctx.data(args[0]).kind == 'list' and ctx.data(args[0]).symlen is not None:
        # a concrete list grows by a symbolic one: it becomes symbolic, its content is the recorded concatenation
        od = ctx.data(args[0])
        ctx.note_write(recv, '<items>')
        parts = [('items', list(d.items))] if d.items else []
        parts.append(('list', args[0]))
        d.extra['parts'] = parts
        d.symlen = od.symlen + len(d.items)
        d.items = {}
        return None
    if name == 'append':
        ctx.note_write(recv, '<items>')
        d.items.append(args[0])
        return None
    if name == 'extend':
        k, s = interp.as_iterable(args[0])
        if k != 'concrete':
            if interp.policy is not None:
                r = interp.policy.call_method(interp, recv, name, args, kwargs)
                if r is not PROCEED:
                    return r
            raise Undecided('extend with symbolic sequence')
        ctx.note_write(recv, '<items>')
        d.items.extend(s)
        return None
    if name == 'insert' and isinstance(args[0], int):
        ctx.note_write(recv, '<items>')
        d.items.insert(args[0], args[1])
        return None
    if name == 'pop':
        ctx.note_write(recv, '<items>')
        try:
            return d.items.pop(*args)
        except IndexError:
            raise Raised(ExcVal(IndexError, ()))
    if name == 'remove':
        ctx.note_write(recv, '<items>')
        for i, x in enumerate(d.items):
            c = equal(interp, x, args[0])
            if c is True or (c is not False and interp.truth(c)):
                del d.items[i]
                return None
        raise Raised(ExcVal(ValueError, ()))
    if name == 'copy':
        return ctx.new_list(list(d.items))
    raise Undecided('list method %s' % name)


def set_method(interp, recv, d, name, args):
    ctx = interp.ctx
    if name == 'add':
        ctx.note_write(recv, '<items>')
        if 'sym_add' in d.extra:
            return d.extra['sym_add'](interp, args[0])
        if not _hashable_value(args[0]):
            d.extra.setdefault('sym_items', []).append(('add', args[0]))
            return None
        d.items.add(args[0])
        return None
    if name == 'update':
        ctx.note_write(recv, '<items>')
        kind, seq = interp.as_iterable(args[0])
        if kind != 'concrete':
            d.extra.setdefault('sym_items', []).append(('update', args[0]))
            return None
        for x in seq:
            d.items.add(x)
        return None
    raise Undecided('set method %s' % name)


def dict_method(interp, recv, d, name, args):
    if name == 'get':
        key = args[0]
        default = args[1] if len(args) > 1 else None
        if isinstance(key, TagName):
            return tagname_select(interp, key, lambda s: d.items[s] if s in d.items else default)
        return d.items.get(key, default)
    if name == 'values':
        return list(d.items.values())
    if name == 'keys':
        return list(d.items.keys())
    if name == 'items':
        return [(k, v) for k, v in d.items.items()]
    raise Undecided('dict method %s' % name)


def _hashable_value(v):
    try:
        hash(v)
    except TypeError:
        return False
    return not is_z3(v)
