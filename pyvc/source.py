"""Access to the real source under $VERIF_REPO: nothing here is a copy or a model of repository code.

Every run re-reads the files, indexes every FunctionDef by (file, first line) and by qualified name, and computes
the sha256 of each extracted segment so the evidence can say which text was verified.
"""
import ast
import hashlib
import importlib
import os
import sys

REPO = os.environ.get('VERIF_REPO', '/repo')
SRC = os.path.join(REPO, 'src')
PKG = os.path.join(SRC, 'python_minifier')


class MissingFunction(Exception):
    pass


def ensure_importable():
    """Make `import python_minifier` resolve to $VERIF_REPO/src (not the editable install of /repo)."""
    if sys.path[0] != SRC:
        sys.path.insert(0, SRC)
    for name in list(sys.modules):
        if name == 'python_minifier' or name.startswith('python_minifier.'):
            mod = sys.modules[name]
            f = getattr(mod, '__file__', '') or ''
            if not f.startswith(SRC):
                del sys.modules[name]


_file_cache = {}


class FileInfo(object):
    def __init__(self, path):
        self.path = path
        with open(path, 'rb') as f:
            self.bytes = f.read()
        self.text = self.bytes.decode('utf-8')
        self.tree = ast.parse(self.text, path)
        self.lines = self.text.splitlines(True)
        self.by_line = {}
        self.by_qual = {}
        self._index(self.tree, '')

    def _index(self, node, prefix):
        for child in ast.iter_child_nodes(node):
            if isinstance(child, (ast.FunctionDef, ast.AsyncFunctionDef)):
                q = prefix + child.name
                self.by_qual.setdefault(q, child)
                first = min([child.lineno] + [d.lineno for d in child.decorator_list])
                self.by_line[child.lineno] = (q, child)
                self.by_line.setdefault(first, (q, child))
                self._index(child, q + '.<locals>.')
            elif isinstance(child, ast.ClassDef):
                q = prefix + child.name
                self.by_qual.setdefault(q, child)
                self._index(child, q + '.')
            elif isinstance(child, ast.Lambda):
                self.by_line.setdefault(('lambda', child.lineno, child.col_offset), ('<lambda>', child))
                self._index(child, prefix)
            else:
                self._index(child, prefix)

    def segment(self, node):
        first = min([node.lineno] + [d.lineno for d in getattr(node, 'decorator_list', [])])
        return ''.join(self.lines[first - 1:node.end_lineno])

    def sha(self, node):
        return hashlib.sha256(self.segment(node).encode('utf-8')).hexdigest()


def file_info(path):
    path = os.path.realpath(path)
    if path not in _file_cache:
        _file_cache[path] = FileInfo(path)
    return _file_cache[path]


def module_path(modname):
    """python_minifier.rename.util -> $SRC/python_minifier/rename/util.py"""
    rel = modname.replace('.', '/')
    p = os.path.join(SRC, rel + '.py')
    if os.path.exists(p):
        return p
    p = os.path.join(SRC, rel, '__init__.py')
    if os.path.exists(p):
        return p
    raise MissingFunction('module %s not found under %s' % (modname, SRC))


def find_def(spec):
    """spec = 'python_minifier.token_printer:TokenPrinter.identifier' -> (FileInfo, ast node)"""
    modname, qual = spec.split(':')
    fi = file_info(module_path(modname))
    node = fi.by_qual.get(qual)
    if node is None:
        raise MissingFunction('%s not found in %s' % (qual, fi.path))
    return fi, node


def import_module(modname):
    ensure_importable()
    return importlib.import_module(modname)


def describe(spec):
    try:
        fi, node = find_def(spec)
    except MissingFunction as e:
        # the function no longer exists under this name: reported in evidence, obligations about its behaviour are still generated
        # from whatever code now implements it (e.g. an inherited method)
        return {'function': spec, 'file': None, 'lines': None, 'sha256': None, 'missing': str(e)}
    return {'function': spec, 'file': os.path.relpath(fi.path, REPO), 'lines': [node.lineno, node.end_lineno],
            'sha256': fi.sha(node)}


def all_package_files():
    out = []
    for root, _dirs, files in os.walk(PKG):
        for f in sorted(files):
            if f.endswith('.py'):
                out.append(os.path.join(root, f))
    return sorted(out)

ensure_importable()
