"""Task pool, verdict aggregation, known findings, replay files, evidence, exit codes.

Exit codes: 0 every obligation proved (refuted ones all listed as known findings), 1 a refuted obligation that is not a known finding
(VIOLATION line printed), 2 nothing refuted but something undecided, 3 the checker itself failed.
"""
import concurrent.futures
import importlib
import json
import multiprocessing
import os
import re
import sys
import time
import traceback

HERE = os.path.dirname(os.path.dirname(os.path.abspath(__file__)))
EVIDENCE_DIR = os.environ.get('PYVC_EVIDENCE_DIR') or os.path.join(HERE, 'evidence')
REPLAY_DIR = os.environ.get('PYVC_REPLAY_DIR') or os.path.join(HERE, 'replays')
KNOWN = os.path.join(HERE, 'known_findings.json')


class Task(object):
    """One unit of work executed in a worker process: `module:function` called with kwargs, returns a TaskResult dict."""

    def __init__(self, name, target, **kwargs):
        self.name = name
        self.target = target
        self.kwargs = kwargs


def result(obligations=(), functions=(), assumptions=(), pruned=(), samples=(), standins=(), notes=()):
    return {'obligations': [o if isinstance(o, dict) else o.to_json() for o in obligations], 'functions': list(functions),
            'assumptions': list(assumptions), 'pruned': list(pruned), 'samples': list(samples), 'standins': list(standins),
            'notes': list(notes)}


def _run_task(task_name, target, kwargs, env):
    os.environ.update(env)
    sys.path.insert(0, HERE) if HERE not in sys.path else None
    t0 = time.time()
    try:
        modname, fn = target.split(':')
        mod = importlib.import_module(modname)
        from pyvc import interp as _interp
        _interp.HOOKED_SIGNATURES.clear()
        r = getattr(mod, fn)(**kwargs)
        r['task'] = task_name
        r['wall_s'] = time.time() - t0
        _check_callee_signatures(task_name, r, dict(_interp.HOOKED_SIGNATURES))
        return r
    except Exception:
        return {'task': task_name, 'crash': traceback.format_exc(), 'wall_s': time.time() - t0}


SIGNATURES = os.path.join(HERE, 'props', 'callee_signatures.json')


def _check_callee_signatures(task_name, r, hooked):
    """A callee used BY CONTRACT inside a task must still have the parameter list the contract was written for (committed in
    props/callee_signatures.json).  A changed list makes the task undecided: the contract says nothing about the new parameter."""
    if not hooked:
        return
    base = {}
    if os.path.exists(SIGNATURES):
        with open(SIGNATURES) as f:
            base = json.load(f)
    if os.environ.get('PYVC_WRITE_BASELINE') == '1' and not os.environ.get('VERIF_REPO'):
        r.setdefault('callee_signatures', {}).update(hooked)
        return
    for spec, params in sorted(hooked.items()):
        want = base.get(spec)
        if want is not None and want != params:
            r['obligations'].append({'name': 'contract-use/%s/callee-signature-is-the-one-the-contract-was-written-for' % spec, 'status': 'undecided',
                                     'detail': 'task %s uses %s by contract; parameters are now %r, the contract covers %r' % (task_name, spec, params, want),
                                     'model': {}, 'time_s': 0, 'backend': 'engine', 'path': None, 'kind': 'engine', 'goal': None})


def run_tasks(tasks, jobs=None):
    jobs = jobs or int(os.environ.get('PYVC_JOBS', '0')) or min(16, (os.cpu_count() or 4))
    env = dict((k, v) for k, v in os.environ.items() if k.startswith(('VERIF_', 'PYVC_')))
    results = []
    if jobs == 1 or len(tasks) == 1:
        for t in tasks:
            results.append(_run_task(t.name, t.target, t.kwargs, env))
        _merge_signatures(results)
        return results
    ctx = multiprocessing.get_context('spawn')
    with concurrent.futures.ProcessPoolExecutor(max_workers=min(jobs, len(tasks)), mp_context=ctx) as ex:
        futs = [ex.submit(_run_task, t.name, t.target, t.kwargs, env) for t in tasks]
        for f in futs:
            try:
                results.append(f.result())
            except Exception:
                results.append({'task': '?', 'crash': traceback.format_exc(), 'wall_s': 0})
    _merge_signatures(results)
    return results


def _merge_signatures(results):
    new = {}
    for r in results:
        new.update(r.pop('callee_signatures', {}) if isinstance(r, dict) else {})
    if new and os.environ.get('PYVC_WRITE_BASELINE') == '1' and not os.environ.get('VERIF_REPO'):
        base = {}
        if os.path.exists(SIGNATURES):
            with open(SIGNATURES) as f:
                base = json.load(f)
        base.update(new)
        with open(SIGNATURES, 'w') as f:
            json.dump(base, f, indent=0, sort_keys=True)


def load_known():
    if not os.path.exists(KNOWN):
        return {'open': [], 'fixed': []}
    with open(KNOWN) as f:
        return json.load(f)


def known_match(known, prop, ob):
    for k in known.get('open', []):
        if k['property'] == prop and re.fullmatch(k['obligation'], ob['name']):
            w = k.get('witness_contains')
            if w and w not in json.dumps(ob.get('model', {})) + ob.get('detail', ''):
                continue
            return k
    return None


def safe_name(s):
    return re.sub(r'[^A-Za-z0-9_.@#-]+', '_', s)[:150]


def finish(prop, tier, level, results, replay_fn=None, trusted_base=(), explanation='', t0=None, checker_cmd=None,
           extra_cov=None, standins_fn=None):
    """Aggregate task results for one property, write evidence, print findings, return the exit code."""
    t0 = t0 or time.time()
    seed = int(os.environ.get('VERIF_SEED', '0') or 0)
    known = load_known()
    obligations = []
    functions = {}
    assumptions = []
    pruned = []
    samples = []
    standins = []
    notes = []
    crashes = []
    for r in results:
        if 'crash' in r:
            crashes.append((r.get('task'), r['crash']))
            continue
        for o in r['obligations']:
            o['task'] = r['task']
            obligations.append(o)
        for f in r['functions']:
            functions[f['function']] = f
        for a in r['assumptions']:
            if a not in assumptions:
                assumptions.append(a)
        pruned.extend(r['pruned'])
        samples.extend(r['samples'])
        standins.extend(r['standins'])
        notes.extend(r['notes'])

    # one verdict per obligation name: refuted > undecided > proved (an obligation is checked on every path that reaches it)
    by_name = {}
    for o in obligations:
        cur = by_name.get(o['name'])
        rank = {'proved': 0, 'undecided': 1, 'refuted': 2}
        if cur is None or rank[o['status']] > rank[cur['status']]:
            o2 = dict(o)
            o2['queries'] = (cur or {}).get('queries', 0) + 1
            by_name[o['name']] = o2
        else:
            cur['queries'] = cur.get('queries', 1) + 1
    names = sorted(by_name)
    refuted = [by_name[n] for n in names if by_name[n]['status'] == 'refuted']
    undecided = [by_name[n] for n in names if by_name[n]['status'] == 'undecided']
    proved = [by_name[n] for n in names if by_name[n]['status'] == 'proved']

    violations = []
    known_hits = []
    os.makedirs(os.path.join(REPLAY_DIR, prop), exist_ok=True)
    for o in refuted:
        k = known_match(known, prop, o)
        if k is not None:
            known_hits.append((k, o))
            continue
        rep = {'property': prop, 'obligation': o['name'], 'kind': o.get('kind'), 'model': o.get('model'), 'detail': o.get('detail'),
               'goal': o.get('goal'), 'solver': o.get('backend'), 'task': o.get('task'), 'replay_input': o.get('replay')}
        outcome = None
        if replay_fn is not None:
            try:
                outcome = replay_fn(o)
            except Exception:
                outcome = {'reproduced': None, 'error': traceback.format_exc()}
        rep['replay'] = outcome
        path = os.path.join(REPLAY_DIR, prop, safe_name(o['name']) + '.json')
        with open(path, 'w') as f:
            json.dump(rep, f, indent=1, default=str)
        if '[needs-witness]' in (o.get('detail') or '') and not (outcome is not None and outcome.get('reproduced') is True):
            # refuted for lack of evidence on the path (a check the contract expects in THIS function was not seen), not by a counter-model of the
            # property: a violation only if the replay finds a failing input; otherwise the code may establish the fact elsewhere -> undecided
            o['status'] = 'undecided'
            o['detail'] = (o.get('detail') or '') + ' [no failing input found by the replay: the fact may be established outside this function]'
            undecided.append(o)
            continue
        if outcome is not None and outcome.get('reproduced') is False:
            # the model is an artefact of an abstraction: never raise an alarm for it
            o['status'] = 'undecided'
            o['detail'] = (o.get('detail') or '') + ' [spurious: counterexample does not reproduce on the real code]'
            undecided.append(o)
            continue
        violations.append((o, path, outcome))

    bounded_viol = []
    for s in standins:
        for v in s.get('violations', []):
            k = None
            for kk in known.get('open', []):
                if kk['property'] == prop and (kk.get('standin') == s['name'] or s['name'].startswith(kk.get('standin', '\0') + ' ')) and kk.get('witness_contains', '\0') in json.dumps(v):
                    k = kk
            if k is not None:
                known_hits.append((k, {'name': s['name'], 'detail': json.dumps(v)[:200]}))
                continue
            path = os.path.join(REPLAY_DIR, prop, safe_name('standin_' + s['name']) + '.json')
            bounded_viol.append((s, v, path))
            with open(path, 'w') as f:
                json.dump({'property': prop, 'standin': s['name'], 'violations': [vv for ss, vv, pp in bounded_viol if pp == path]}, f, indent=1, default=str)

    wall = time.time() - t0
    n_ob = len(names)
    n_proved = len(proved)
    cov = {
        'obligations': n_ob,
        'discharged': n_proved,
        'refuted_known': len(known_hits),
        'refuted_new': len(violations),
        'undecided': len(undecided),
        'queries': len(obligations),
        'by_backend': _count(by_name.values(), 'backend'),
        'by_kind': _count(by_name.values(), 'kind'),
        'solver_time_s': round(sum(o.get('time_s', 0) for o in obligations), 3),
        'checker_cmd': checker_cmd or ('./vcheck %s --tier %s' % (prop, tier)),
        'trusted_base': list(trusted_base),
        'functions_under_contract': sorted(functions.values(), key=lambda f: f['function']),
        'version_pruned': sorted(set(tuple(p) for p in pruned)),
        'samples': ([{'name': o['name'], 'kind': o.get('kind'), 'status': o['status'], 'goal': o.get('goal'), 'detail': o.get('detail')}
                     for o in (proved[:6] + refuted[:4] + undecided[:4])] + samples[:10]) or [{'note': 'no obligations'}],
        'bounded_standins': [dict((k, v) for k, v in s.items() if k != 'violations') for s in standins],
        'undecided_list': [{'name': o['name'], 'detail': o.get('detail')} for o in undecided[:40]],
        'known_findings_printed': sorted(set(k['id'] for k, _ in known_hits)),
        'notes': notes[:40],
        'explanation': explanation,
        'exhaustive': False,
    }
    if extra_cov:
        cov.update(extra_cov)
    ev_level = level
    if ev_level == 'proof' and (n_ob == 0 or n_proved != n_ob or known_hits):
        ev_level = 'other'
    ev = {'property_id': prop, 'tier': tier, 'seed': seed, 'level': ev_level, 'coverage': cov,
          'assumptions': assumptions, 'wall_s': round(wall, 2), 'violations': len(violations) + len(bounded_viol)}
    os.makedirs(EVIDENCE_DIR, exist_ok=True)
    with open(os.path.join(EVIDENCE_DIR, prop + '.json'), 'w') as f:
        json.dump(ev, f, indent=1, default=str)

    printed = {}
    for k, o in known_hits:
        printed[k['id']] = printed.get(k['id'], 0) + 1
    for k, o in known_hits:
        if k['id'] in printed:
            n = printed.pop(k['id'])
            print('KNOWN-FINDING: property=%s %s %s%s' % (prop, k['id'], k['what'], ' [%d witnesses]' % n if n > 1 else ''))
    for o, path, outcome in violations:
        tail = ''
        if outcome is None or outcome.get('reproduced') is None:
            tail = ' no-failing-input-found'
        print('refuted: %s %s' % (o['name'], (o.get('detail') or '')[:300]))
        print('VIOLATION property=%s replay=%s%s' % (prop, _rel(path), tail))
    per = {}
    for s, v, path in bounded_viol:
        per.setdefault((s['name'], path), []).append(v)
    for (sname, path), vs in per.items():
        for v in vs[:3]:
            print('bounded stand-in %s found a failing input: %s' % (sname, json.dumps(v)[:300]))
        if len(vs) > 3:
            print('bounded stand-in %s: %d more failing inputs in the replay file' % (sname, len(vs) - 3))
        print('VIOLATION property=%s replay=%s' % (prop, _rel(path)))
    for t, c in crashes:
        print('CHECKER-ERROR in task %s:\n%s' % (t, c))
    for o in undecided[:20]:
        print('undecided: %s %s' % (o['name'], (o.get('detail') or '')[:300]))
    print('%s %s: %d obligations, %d proved, %d refuted (known %d, new %d), %d undecided, %d functions under contract, %.1fs'
          % (prop, tier, n_ob, n_proved, len(refuted), len(known_hits), len(violations), len(undecided), len(functions), wall))
    if violations or bounded_viol:
        return 1
    if crashes or n_ob == 0:
        return 3
    if undecided:
        return 2
    return 0


def _rel(path):
    rp = os.path.relpath(path, HERE)
    return path if rp.startswith('..') else rp


def _count(items, key):
    out = {}
    for o in items:
        out[o.get(key)] = out.get(o.get(key), 0) + 1
    return out
