"""Symbolic interpreter for the Python subset used by the functions under contract.

Function bodies are always taken from the parsed real source (pyvc.source); real module objects are imported only to resolve
global names, class hierarchies and constants.  Anything outside the subset raises Undecided.
"""
import ast as pyast
import builtins as pybuiltins
import types

import z3

from . import source
from .engine import (Bound, BreakSignal, ContinueSignal, Env, ExcVal, Infeasible, Native, NativeMethod, Obj, Opaque, Raised,
                     ReturnSignal, SrcFunc, SymStr, TagName, Undecided, mkstr, tag_const, tag_universe, tags_of_class)

PROCEED = object()


HOOKED_SIGNATURES = {}       # spec -> parameter names of every function whose call was answered by a contract hook (per process, reset per task)


# list-valued fields that are never empty in a tree CPython accepts (ast.c validators) - assumed as a type invariant of every node
NONEMPTY_LIST_FIELDS = ('targets', 'names')

class SymConst(object):
    """Symbolic `Constant.value`: a python constant of unknown type and value.

    kind is a z3 Int: 0 None, 1 True, 2 False, 3 int, 4 float, 5 complex, 6 str, 7 bytes, 8 Ellipsis."""
    KINDS = ('none', 'true', 'false', 'int', 'float', 'complex', 'str', 'bytes', 'ellipsis')

    def __init__(self, name):
        self.name = name
        self.kind = z3.Int('ckind_' + name)
        self.intval = z3.Int('cint_' + name)
        self.strval = z3.String('cstr_' + name)

    def constraint(self):
        return z3.And(self.kind >= 0, self.kind <= 8)

    def __repr__(self):
        return 'SymConst(%s)' % self.name


class ClassOf(object):
    def __init__(self, obj):
        self.obj = obj


class SymIter(object):
    """A lazily evaluated comprehension / filter / zip over a symbolic list: (source list Obj, function elem -> value or SKIP)."""
    SKIP = object()

    def __init__(self, src, fn, label=''):
        self.src = src
        self.fn = fn
        self.label = label


def is_z3(v):
    return z3.is_expr(v)


def fields_of(clsname):
    """[(field name, type name, quantifier '', '?' or '*')] parsed from the class docstring of the running interpreter."""
    u = tag_universe()
    cache = u.setdefault('fields', {})
    if clsname not in cache:
        cls = u['cls'][clsname]
        doc = (cls.__doc__ or '').split('\n')[0].strip()
        out = []
        if '(' in doc and doc.endswith(')'):
            inner = doc[doc.index('(') + 1:-1].strip()
            if inner:
                for part in inner.split(','):
                    ty, name = part.strip().split(' ')
                    q = ''
                    if ty.endswith('?') or ty.endswith('*'):
                        q = ty[-1]
                        ty = ty[:-1]
                    out.append((name, ty, q))
        assert [f[0] for f in out] == list(cls._fields), (clsname, out, cls._fields)
        cache[clsname] = out
    return cache[clsname]


def field_type(clsname, field):
    for name, ty, q in fields_of(clsname):
        if name == field:
            return ty, q
    return None


class Frame(object):
    __slots__ = ('func', 'env', 'stmt', 'block', 'index', 'yields')

    def __init__(self, func, env):
        self.func = func
        self.env = env
        self.stmt = None
        self.block = None
        self.index = 0
        self.yields = None


class Interp(object):
    def __init__(self, ctx, hooks=None, natives=None, policy=None):
        self.ctx = ctx
        self.hooks = hooks or {}
        self.natives = natives or {}
        self.policy = policy
        self.frames = []
        self.max_depth = 60
        self.pruned = set()      # (file, lineno) of version-pruned branches
        self.called = set()      # specs of source functions interpreted

    # ------------------------------------------------------------------------------------------------------------------
    # wrapping real python objects

    def wrap(self, py):
        if py is None or isinstance(py, (bool, int, float, complex, str, bytes)):
            return py
        if isinstance(py, tuple):
            return tuple(self.wrap(x) for x in py)
        if isinstance(py, (list, dict, set, frozenset)):
            return py   # module-level constant containers: read-only by convention, writes are Undecided
        if isinstance(py, types.FunctionType):
            f = self.srcfunc_of(py)
            if f is not None:
                return f
            return Native(py)
        if isinstance(py, (staticmethod, classmethod)):
            return self.wrap(py.__func__)
        return Native(py)

    def srcfunc_of(self, pyfunc, cls=None):
        code = pyfunc.__code__
        fn = code.co_filename
        if not fn.startswith(source.SRC):
            return None
        fi = source.file_info(fn)
        if code.co_name == '<lambda>':
            cands = [v for k, v in fi.by_line.items() if isinstance(k, tuple) and k[1] == code.co_firstlineno]
            if len(cands) != 1:
                raise Undecided('ambiguous lambda at %s:%d' % (fn, code.co_firstlineno))
            qual, node = cands[0]
        else:
            ent = fi.by_line.get(code.co_firstlineno)
            if ent is None:
                raise Undecided('no source for %s' % pyfunc)
            qual, node = ent
        mod = pyfunc.__module__
        closure = None
        if pyfunc.__closure__:
            closure = Env(None, None)
            for nm, cell in zip(code.co_freevars, pyfunc.__closure__):
                try:
                    closure.vars[nm] = self.wrap(cell.cell_contents)
                except ValueError:
                    pass
        sf = SrcFunc(fi, node, pyfunc.__globals__, closure, getattr(pyfunc, '__qualname__', qual), mod,
                     pyfunc.__defaults__, pyfunc.__kwdefaults__, cls)
        if closure is not None:
            closure.func = sf
        return sf

    def find_class_attr(self, cls, name):
        for k in cls.__mro__:
            if name in k.__dict__:
                return k, k.__dict__[name]
        return None, None

    # ------------------------------------------------------------------------------------------------------------------
    # truthiness and coercions

    def truth(self, v):
        ctx = self.ctx
        if is_z3(v):
            if z3.is_bool(v):
                return ctx.branch(v)
            if z3.is_int(v) or z3.is_real(v):
                return ctx.branch(v != 0)
            if z3.is_string(v):
                return ctx.branch(z3.Length(v) > 0)
            raise Undecided('truth of %r' % v)
        if isinstance(v, Obj):
            d = ctx.data(v)
            if d.kind == 'list':
                if d.symlen is not None:
                    return ctx.branch(d.symlen > 0)
                return len(d.items) > 0
            if d.kind in ('dict', 'set'):
                return len(d.items) > 0
            if d.kind == 'inst' and d.cls is not None:
                k, f = self.find_class_attr(d.cls, '__bool__')
                if f is not None and isinstance(f, types.FunctionType):
                    return self.truth(self.call(self.srcfunc_of(f, k), [v], {}))
            return True
        if isinstance(v, SymStr):
            for p in v.parts:
                if isinstance(p, str) and p:
                    return True
                if isinstance(p, Opaque) and p.sort == 'nonempty_str':
                    return True
            if all(is_z3(p) for p in v.parts):
                return ctx.branch(z3.Length(self.to_z3(v)) > 0)
            raise Undecided('truth of symbolic string')
        if isinstance(v, SymConst):
            raise Undecided('truth of symbolic constant')
        if isinstance(v, (Opaque, TagName, SrcFunc, Bound, Native, NativeMethod, ExcVal)):
            if isinstance(v, Opaque) and v.sort == 'notnone':
                return True
            if isinstance(v, Opaque) and v.sort == 'bool':
                return ctx.branch(z3.Bool('opq_' + repr(v)))
            if isinstance(v, Opaque):
                raise Undecided('truth of opaque %r' % v)
            return True
        if isinstance(v, SymIter):
            raise Undecided('truth of lazy iterable')
        return bool(v)

    def to_z3(self, v, like=None):
        if is_z3(v):
            return v
        if isinstance(v, bool):
            return z3.BoolVal(v)
        if isinstance(v, int):
            if like is not None and z3.is_real(like):
                return z3.RealVal(v)
            return z3.IntVal(v)
        if isinstance(v, float):
            return z3.RealVal(repr(v))
        if isinstance(v, str):
            return z3.StringVal(v)
        if isinstance(v, SymStr):
            parts = []
            for p in v.parts:
                if isinstance(p, str):
                    parts.append(z3.StringVal(p))
                elif is_z3(p):
                    parts.append(p)
                else:
                    raise Undecided('opaque string part in z3 context: %r' % (p,))
            return z3.Concat(*parts) if len(parts) > 1 else parts[0]
        raise Undecided('cannot convert %r to z3' % (v,))

    # ------------------------------------------------------------------------------------------------------------------
    # attribute access

    def getattr(self, v, name, default=PROCEED):
        ctx = self.ctx
        if isinstance(v, Obj):
            d = ctx.data(v)
            if name in d.fields:
                return d.fields[name]
            if name == '__class__':
                return ClassOf(v)
            if d.kind == 'node':
                return self.node_field(v, name, default)
            if d.kind == 'inst' or d.kind == 'ns':
                if d.cls is not None:
                    k, raw = self.find_class_attr(d.cls, name)
                    if k is not None:
                        if isinstance(raw, types.FunctionType):
                            f = self.srcfunc_of(raw, k)
                            if f is None:
                                return NativeMethod(v, name)
                            return Bound(v, f)
                        if isinstance(raw, staticmethod):
                            return self.srcfunc_of(raw.__func__, k) or Native(raw.__func__)
                        if isinstance(raw, property):
                            return self.call(self.srcfunc_of(raw.fget, k), [v], {})
                        return self.wrap(raw)
                if self.policy is not None:
                    r = self.policy.attr(self, v, name)
                    if r is not PROCEED:
                        return r
                if default is not PROCEED:
                    return default
                raise Raised(ExcVal(AttributeError, (name,)))
            if d.kind == 'list':
                return NativeMethod(v, name)
            if d.kind in ('dict', 'set'):
                return NativeMethod(v, name)
            raise Undecided('getattr on %s' % d.kind)
        if isinstance(v, SuperProxy):
            mro = list(type.mro(self.ctx.data(v.selfv).cls)) if isinstance(v.selfv, Obj) else list(v.cls.__mro__)
            after = mro[mro.index(v.cls) + 1:]
            for k in after:
                if name in k.__dict__:
                    raw = k.__dict__[name]
                    if isinstance(raw, types.FunctionType):
                        f = self.srcfunc_of(raw, k)
                        if f is None:
                            if k is object and name == '__init__':
                                return Native(_noop)
                            raise Undecided('super().%s resolves to external code' % name)
                        return Bound(v.selfv, f)
                    if k is object and name == '__init__':
                        return Native(_noop)
                    raise Undecided('super().%s' % name)
            raise Raised(ExcVal(AttributeError, (name,)))
        if isinstance(v, ClassOf):
            if name == '__name__':
                d = ctx.data(v.obj)
                if d.kind == 'node':
                    if len(d.tags) == 1:
                        return list(d.tags)[0]
                    return TagName(v.obj)
                if d.cls is not None:
                    return d.cls.__name__
            raise Undecided('class attribute %s' % name)
        if isinstance(v, Native):
            py = v.py
            if isinstance(py, type):
                k, raw = self.find_class_attr(py, name)
                if k is None:
                    if default is not PROCEED:
                        return default
                    raise Raised(ExcVal(AttributeError, (name,)))
                if isinstance(raw, types.FunctionType):
                    return self.srcfunc_of(raw, k) or Native(raw)
                if isinstance(raw, (staticmethod, classmethod)):
                    return self.wrap(raw.__func__)
                return self.wrap(getattr(py, name))
            if hasattr(py, name):
                return self.wrap(getattr(py, name))
            if default is not PROCEED:
                return default
            raise Raised(ExcVal(AttributeError, (name,)))
        if isinstance(v, SrcFunc):
            if name == '__doc__':
                return pyast.get_docstring(v.node)
            if name == '__name__':
                return v.node.name
            raise Undecided('function attribute %s' % name)
        if isinstance(v, (str, SymStr, bytes, TagName)) or (is_z3(v) and z3.is_string(v)):
            return NativeMethod(v, name)
        if isinstance(v, (list, tuple, dict, set, frozenset)):
            return NativeMethod(v, name)
        if isinstance(v, ExcVal):
            if name == 'args':
                return v.args
            raise Undecided('exception attribute')
        if isinstance(v, Opaque):
            if self.policy is not None:
                r = self.policy.attr(self, v, name)
                if r is not PROCEED:
                    return r
            return NativeMethod(v, name)
        if v is None:
            if default is not PROCEED:
                return default
            raise Raised(ExcVal(AttributeError, ('NoneType', name)))
        raise Undecided('getattr(%r, %s)' % (v, name))

    def narrow(self, obj, keep):
        """Restrict the possible classes of a symbolic node (after a decision that implies it)."""
        d = self.ctx.data(obj)
        d.tags = set(d.tags) & set(keep)
        if not d.tags:
            raise Infeasible()

    def split_tags(self, obj, groups, label):
        """groups: list of tag sets partitioning d.tags; picks one (forking) and narrows."""
        ctx = self.ctx
        d = ctx.data(obj)
        groups = [g for g in groups if g]
        if len(groups) == 1:
            return 0
        for i, g in enumerate(groups[:-1]):
            cond = z3.Or([d.tagvar == tag_const(t) for t in sorted(g)])
            if ctx.branch(cond):
                self.narrow(obj, g)
                return i
        self.narrow(obj, groups[-1])
        return len(groups) - 1

    def node_field(self, obj, name, default=PROCEED):
        ctx = self.ctx
        d = ctx.data(obj)
        if name == '_fields' and len(d.tags) == 1:
            return tuple(tag_universe()['cls'][list(d.tags)[0]]._fields)
        if self.policy is not None:
            r = self.policy.attr(self, obj, name)
            if r is not PROCEED:
                d.fields[name] = r
                return r
        # group possible tags by the type of this field
        groups = {}
        for t in d.tags:
            groups.setdefault(field_type(t, name), set()).add(t)
        if len(groups) > 1 and None in groups:
            # classes without the field are split off first (AttributeError path)
            has = set().union(*[g for k, g in groups.items() if k is not None])
            i = self.split_tags(obj, [has, groups[None]], 'hasfield_' + name)
            groups = dict((k, g) for k, g in groups.items() if (k is None) == (i == 1))
        if len(groups) > 1 and all(k is not None and k[1] == '' and k[0] not in ('identifier', 'string', 'int', 'constant') for k in groups):
            # one child node whose class depends on the parent's class: no fork
            import ast as real_ast
            union = set()
            per = []
            for (ty, q), g in sorted(groups.items()):
                cl = tags_of_class(getattr(real_ast, ty))
                if self.policy is not None:
                    cl = self.policy.child_classes(self, obj, name, None, cl)
                union |= cl
                per.append((g, cl))
            child = ctx.new_node(union, name='%s.%s' % (d.name, name), origin=(obj, name, None))
            cd = ctx.data(child)
            for g, cl in per:
                ctx.assume(z3.Implies(z3.Or([d.tagvar == tag_const(t) for t in sorted(g)]),
                                      z3.Or([cd.tagvar == tag_const(t) for t in sorted(cl)])))
            d.fields[name] = child
            return child
        keys = sorted(groups, key=lambda k: (k is None, k))
        idx = self.split_tags(obj, [groups[k] for k in keys], 'field_' + name)
        ft = [k for k in keys if groups[k]][idx] if len([k for k in keys if groups[k]]) > 1 else keys[0]
        if ft is None:
            if name in ('lineno', 'col_offset', 'end_lineno', 'end_col_offset'):
                v = z3.Int(ctx.fresh('%s_%s' % (d.name, name)))
                d.fields[name] = v
                return v
            if default is not PROCEED:
                return default
            raise Raised(ExcVal(AttributeError, (name,)))
        ty, q = ft
        v = self.make_field_value(obj, name, ty, q)
        d.fields[name] = v
        return v

    def make_field_value(self, obj, name, ty, q):
        ctx = self.ctx
        d = ctx.data(obj)
        base = '%s.%s' % (d.name, name)
        if q == '*':
            lst = ctx.new_obj('list', name=base)
            ld = ctx.data(lst)
            ld.items = {}
            ld.symlen = z3.Int('len_' + base)
            ctx.assume(ld.symlen >= 0)
            if name in NONEMPTY_LIST_FIELDS:
                # type invariant of the input tree (Python/ast.c validate_stmt: "empty targets on Assign / Delete", "empty names on
                # Import / ImportFrom / Global / Nonlocal"); no function of the package builds such a node with an empty list
                ctx.assume(ld.symlen >= 1)
            ld.origin = (obj, name, None)
            ld.extra['elem_type'] = ty
            if self.policy is not None:
                self.policy.list_created(self, obj, name, lst)
            return lst
        if q == '?':
            none_ok = True
            if self.policy is not None:
                none_ok = self.policy.optional(self, obj, name)
            if none_ok is True:
                if ctx.branch(z3.Bool('isnone_' + base)):
                    return None
            elif none_ok == 'always':
                return None
        return self.make_scalar(obj, name, ty, base, None)

    def make_scalar(self, parent, field, ty, base, index):
        ctx = self.ctx
        if ty in ('identifier', 'string'):
            return z3.String('s_' + base)
        if ty == 'int':
            return z3.Int('i_' + base)
        if ty == 'constant':
            c = SymConst(base)
            ctx.assume(c.constraint())
            return c
        u = tag_universe()
        import ast as real_ast
        cls = getattr(real_ast, ty)
        classes = tags_of_class(cls)
        if self.policy is not None:
            classes = self.policy.child_classes(self, parent, field, index, classes)
        return ctx.new_node(classes, name=base, origin=(parent, field, index))

    def list_elem(self, lst, key):
        """Element of a symbolic-length list: key is a concrete index or a generic-iteration key."""
        ctx = self.ctx
        ld = ctx.data(lst)
        if key in ld.items:
            return ld.items[key]
        if ld.elem_factory is not None:
            v = ld.elem_factory(key)
        else:
            parent, field, _ = ld.origin
            base = '%s[%s]' % (ld.name, _keyname(key))
            ety = ld.extra['elem_type']
            opt = False
            if self.policy is not None:
                opt = self.policy.elem_optional(self, parent, field)
            if opt and ctx.branch(z3.Bool('isnone_' + base)):
                v = None
            else:
                v = self.make_scalar(parent, field, ety, base, key)
        ld.items[key] = v
        return v

    def setattr(self, v, name, value):
        ctx = self.ctx
        if isinstance(v, Obj):
            d = ctx.data(v)
            if d.kind in ('inst', 'node', 'ns'):
                if d.kind == 'inst' and d.cls is not None:
                    k, raw = self.find_class_attr(d.cls, name)
                    if isinstance(raw, property) and raw.fset is not None:
                        self.call(self.srcfunc_of(raw.fset, k), [v, value], {})
                        return
                if self.policy is not None:
                    self.policy.on_write(self, v, name, value)
                ctx.note_write(v, name)
                d.fields[name] = value
                return
        raise Undecided('setattr on %r' % (v,))

    # ------------------------------------------------------------------------------------------------------------------
    # isinstance / hasattr

    def isinstance(self, v, c):
        ctx = self.ctx
        if isinstance(c, tuple):
            classes = []
            for x in c:
                if isinstance(x, tuple):
                    classes.extend(x)
                else:
                    classes.append(x)
            pycls = tuple(x.py for x in classes)
        elif isinstance(c, Native):
            pycls = (c.py,)
        else:
            raise Undecided('isinstance class arg %r' % (c,))
        if isinstance(v, Obj):
            d = ctx.data(v)
            if d.kind == 'node':
                yes = tags_of_class(pycls) & d.tags
                if not yes:
                    return False
                if yes == d.tags:
                    return True
                cond = z3.Or([d.tagvar == tag_const(t) for t in sorted(yes)])
                if ctx.branch(cond):
                    self.narrow(v, yes)
                    return True
                self.narrow(v, d.tags - yes)
                return False
            if d.kind == 'inst':
                return d.cls is not None and issubclass(d.cls, pycls)
            if d.kind == 'list':
                return issubclass(list, pycls)
            if d.kind == 'dict':
                return issubclass(dict, pycls)
            if d.kind == 'set':
                return issubclass(set, pycls)
            return False
        if is_z3(v):
            if z3.is_bool(v):
                return issubclass(bool, pycls)
            if z3.is_int(v):
                return issubclass(int, pycls)
            if z3.is_string(v):
                return issubclass(str, pycls)
            if z3.is_real(v):
                return issubclass(float, pycls)
            raise Undecided('isinstance of z3 %r' % v)
        if isinstance(v, (SymStr, TagName)):
            return issubclass(str, pycls)
        if isinstance(v, SymConst):
            return self.symconst_isinstance(v, pycls)
        if isinstance(v, ExcVal):
            return issubclass(v.cls, pycls)
        if isinstance(v, Opaque):
            if v.sort == 'str':
                return issubclass(str, pycls)
            if v.sort == 'bytes':
                return issubclass(bytes, pycls)
            if v.sort == 'node':
                return False if not any(issubclass(k, __import__('ast').AST) for k in pycls) else self._opaque_undecided(v)
            if self.policy is not None:
                r = self.policy.isinstance_opaque(self, v, pycls)
                if r is not PROCEED:
                    return r
            raise Undecided('isinstance of opaque %r' % v)
        if isinstance(v, (SrcFunc, Bound, Native, NativeMethod)):
            if isinstance(v, Native) and not isinstance(v.py, type):
                return isinstance(v.py, pycls)
            return False
        return isinstance(v, pycls)

    def _opaque_undecided(self, v):
        raise Undecided('isinstance of opaque node %r' % v)

    def symconst_isinstance(self, c, pycls):
        kinds = []
        table = {0: type(None), 1: bool, 2: bool, 3: int, 4: float, 5: complex, 6: str, 7: bytes, 8: type(Ellipsis)}
        for k, t in table.items():
            if issubclass(t, pycls):
                kinds.append(k)
        if not kinds:
            return False
        return self.ctx.branch(z3.Or([c.kind == k for k in kinds]))

    def hasattr(self, v, name):
        ctx = self.ctx
        if isinstance(v, Obj):
            d = ctx.data(v)
            if name in d.fields:
                return True
            if d.kind == 'node':
                if self.policy is not None:
                    r = self.policy.hasattr(self, v, name)
                    if r is not PROCEED:
                        return r
                yes = set(t for t in d.tags if field_type(t, name) is not None)
                if not yes:
                    return False
                if yes == d.tags:
                    return True
                cond = z3.Or([d.tagvar == tag_const(t) for t in sorted(yes)])
                if ctx.branch(cond):
                    self.narrow(v, yes)
                    return True
                self.narrow(v, d.tags - yes)
                return False
            if d.kind == 'inst' and d.cls is not None:
                k, raw = self.find_class_attr(d.cls, name)
                if k is not None:
                    return True
                if self.policy is not None:
                    r = self.policy.hasattr(self, v, name)
                    if r is not PROCEED:
                        return r
                return False
        if isinstance(v, Native):
            return hasattr(v.py, name)
        raise Undecided('hasattr(%r, %s)' % (v, name))

    # ------------------------------------------------------------------------------------------------------------------
    # calls

    def call(self, f, args, kwargs):
        if isinstance(f, Bound):
            return self.call(f.func, [f.self_val] + list(args), kwargs)
        if isinstance(f, SrcFunc):
            return self.call_src(f, list(args), dict(kwargs))
        if isinstance(f, Native):
            return self.call_native(f, list(args), dict(kwargs))
        if isinstance(f, NativeMethod):
            from . import models
            return models.call_method(self, f.recv, f.name, list(args), dict(kwargs))
        if isinstance(f, Opaque):
            if self.policy is not None:
                r = self.policy.call_opaque(self, f, args, kwargs)
                if r is not PROCEED:
                    return r
        if isinstance(f, Obj) and self.ctx.data(f).kind == 'inst' and self.ctx.data(f).cls is not None:
            k, raw = self.find_class_attr(self.ctx.data(f).cls, '__call__')
            if isinstance(raw, types.FunctionType):
                sf = self.srcfunc_of(raw, k)
                if sf is not None:
                    return self.call_src(sf, [f] + list(args), dict(kwargs))
        raise Undecided('call of %r (%s)' % (f, self.ctx.data(f).kind if isinstance(f, Obj) else type(f).__name__))

    def call_native(self, f, args, kwargs):
        from . import models
        py = f.py
        h = self.natives.get(py) if _hashable(py) else None
        if h is not None:
            r = h(self, args, kwargs)
            if r is not PROCEED:
                return r
        if isinstance(py, type):
            return self.instantiate(py, args, kwargs)
        return models.call_builtin(self, py, args, kwargs)

    def instantiate(self, cls, args, kwargs):
        ctx = self.ctx
        import ast as real_ast
        if issubclass(cls, BaseException):
            return ExcVal(cls, args)
        k, new = self.find_class_attr(cls, '__new__')
        if isinstance(new, staticmethod):
            new = new.__func__
        if isinstance(new, types.FunctionType):
            f = self.srcfunc_of(new, k)
            if f is not None:
                return self.call(f, [Native(cls)] + args, kwargs)
        if issubclass(cls, real_ast.AST):
            name = cls.__name__
            if name not in tag_universe()['cls']:
                raise Undecided('instantiate abstract ast class %s' % name)
            o = ctx.new_node({name}, name=ctx.fresh('new_' + name))
            d = ctx.data(o)
            d.extra['created'] = True
            fields = list(cls._fields)
            for i, a in enumerate(args):
                d.fields[fields[i]] = a
            for kname, a in kwargs.items():
                d.fields[kname] = a
            if self.policy is not None:
                self.policy.node_created(self, o)
            return o
        if cls.__module__.startswith('python_minifier'):
            o = ctx.new_obj('inst', cls, name=ctx.fresh('new_' + cls.__name__))
            k, init = self.find_class_attr(cls, '__init__')
            if isinstance(init, types.FunctionType):
                f = self.srcfunc_of(init, k)
                if f is not None:
                    self.call(f, [o] + args, kwargs)
            return o
        from . import models
        return models.call_builtin(self, cls, args, kwargs)

    def call_src(self, f, args, kwargs):
        ctx = self.ctx
        spec = f.spec
        h = self.hooks.get(spec)
        if h is None and f.cls is not None:
            h = self.hooks.get('*:' + f.qual.split('.')[-1])
        if h is not None:
            r = h(self, f, args, kwargs)
            if r is not PROCEED:
                # the call was answered by the CONTRACT of the callee: remember the callee's parameter list, the runner compares it with the one the
                # contract was written for (a new parameter is behaviour the contract knows nothing about)
                try:
                    a = f.node.args
                    HOOKED_SIGNATURES[spec] = [x.arg for x in a.posonlyargs + a.args] + (['*' + a.vararg.arg] if a.vararg else []) + \
                        [x.arg for x in a.kwonlyargs] + (['**' + a.kwarg.arg] if a.kwarg else [])
                except Exception:
                    pass
                return r
        if len(self.frames) > self.max_depth:
            raise Undecided('call depth exceeded at %s' % spec)
        if self.policy is not None and any(fr.func.spec == spec for fr in self.frames):
            lim = self.policy.recursion_limit(self, spec)
            if lim is not None and sum(1 for fr in self.frames if fr.func.spec == spec) >= lim:
                # a recursive helper that has no contract: its inner calls are not executed; the effects are unknown (recorded, the task reports them)
                if not hasattr(ctx, 'unknown_effects'):
                    ctx.unknown_effects = []
                ctx.unknown_effects.append(spec)
                return Opaque(ctx.fresh('result_of_uncontracted_recursive_call'), sort=None)
        self.called.add(spec)
        node = f.node
        env = Env(f.closure, f)
        self.bind_params(f, node.args, env, args, kwargs)
        frame = Frame(f, env)
        self.frames.append(frame)
        try:
            if isinstance(node, pyast.Lambda):
                return self.eval(node.body, env)
            is_gen = _is_generator(node)
            if is_gen:
                frame.yields = []
            try:
                self.exec_block(node.body, env)
            except ReturnSignal as r:
                if is_gen:
                    return ctx.new_list(frame.yields)
                return r.value
            if is_gen:
                return ctx.new_list(frame.yields)
            return None
        finally:
            self.frames.pop()

    def bind_params(self, f, a, env, args, kwargs):
        params = [p.arg for p in a.posonlyargs + a.args]
        n = len(params)
        args = list(args)
        extra = args[n:]
        args = args[:n]
        for i, v in enumerate(args):
            env.vars[params[i]] = v
        # defaults
        ndef = len(a.defaults)
        for i in range(len(args), n):
            p = params[i]
            if p in kwargs:
                env.vars[p] = kwargs.pop(p)
                continue
            di = i - (n - ndef)
            if di < 0:
                raise Raised(ExcVal(TypeError, ('missing argument %s of %s' % (p, f.qual),)))
            if f.defaults is not None:
                env.vars[p] = self.wrap(f.defaults[di])
            else:
                denv = f.closure if f.closure is not None else Env(None, f)
                env.vars[p] = self.eval(a.defaults[di], denv)
        for i, p in enumerate(a.kwonlyargs):
            if p.arg in kwargs:
                env.vars[p.arg] = kwargs.pop(p.arg)
            elif f.kwdefaults is not None and p.arg in f.kwdefaults:
                env.vars[p.arg] = self.wrap(f.kwdefaults[p.arg])
            elif a.kw_defaults[i] is not None:
                env.vars[p.arg] = self.eval(a.kw_defaults[i], f.closure or Env(None, f))
            else:
                raise Raised(ExcVal(TypeError, ('missing kw argument %s' % p.arg,)))
        if a.vararg is not None:
            env.vars[a.vararg.arg] = tuple(extra)
        elif extra:
            raise Raised(ExcVal(TypeError, ('too many arguments for %s' % f.qual,)))
        if a.kwarg is not None:
            env.vars[a.kwarg.arg] = dict(kwargs)
        elif kwargs:
            raise Raised(ExcVal(TypeError, ('unexpected keyword %s for %s' % (sorted(kwargs), f.qual),)))

    # ------------------------------------------------------------------------------------------------------------------
    # statements

    def exec_block(self, stmts, env):
        frame = self.frames[-1] if self.frames else None
        saved = (frame.block, frame.index, frame.stmt) if frame else None
        try:
            for i, s in enumerate(stmts):
                if frame:
                    frame.block, frame.index, frame.stmt = stmts, i, s
                self.exec_stmt(s, env)
        finally:
            if frame:
                frame.block, frame.index, frame.stmt = saved

    def exec_stmt(self, s, env):
        ctx = self.ctx
        ctx.steps += 1
        if ctx.steps > 200000:
            raise Undecided('step budget exceeded')
        m = getattr(self, 'stmt_' + s.__class__.__name__, None)
        if m is None:
            raise Undecided('statement %s at line %d' % (s.__class__.__name__, s.lineno))
        return m(s, env)

    def stmt_Expr(self, s, env):
        if isinstance(s.value, pyast.Constant):
            return
        v = self.eval(s.value, env)
        # a comprehension over a symbolic list that is evaluated for its side effects ([self.visit(x) for x in xs] as a statement): the element
        # expression is executed for one arbitrary element (the list itself is discarded), like one arbitrary iteration of a for loop
        if isinstance(v, Obj):
            d = self.ctx.data(v)
            if d.kind == 'list' and d.symlen is not None and 'map_fn' in d.extra and isinstance(s.value, (pyast.ListComp, pyast.GeneratorExp, pyast.SetComp)):
                if self.ctx.branch(d.symlen >= 1):
                    self.list_elem(v, ('g', 'stmt@%d:%d' % (s.lineno, s.col_offset)))

    def stmt_Pass(self, s, env):
        pass

    def stmt_Return(self, s, env):
        raise ReturnSignal(self.eval(s.value, env) if s.value is not None else None)

    def stmt_Break(self, s, env):
        raise BreakSignal()

    def stmt_Continue(self, s, env):
        raise ContinueSignal()

    def stmt_Assign(self, s, env):
        v = self.eval(s.value, env)
        for t in s.targets:
            self.assign(t, v, env)

    def stmt_AugAssign(self, s, env):
        cur = self.eval(_as_load(s.target), env)
        rhs = self.eval(s.value, env)
        if isinstance(cur, Obj) and self.ctx.data(cur).kind == 'list' and isinstance(s.op, pyast.Add):
            from . import models
            models.call_method(self, cur, 'extend', [rhs], {})
            return
        v = self.binop(s.op, cur, rhs)
        self.assign(s.target, v, env)

    def stmt_AnnAssign(self, s, env):
        if s.value is not None:
            self.assign(s.target, self.eval(s.value, env), env)

    def assign(self, t, v, env):
        if isinstance(t, pyast.Name):
            e = env
            fnode = env.func.node if env.func is not None else None
            # python scoping: assignment binds in the current function scope unless declared nonlocal
            nl = _nonlocals(fnode) if fnode is not None else ()
            if t.id in nl:
                e2, _ = env.parent.lookup(t.id) if env.parent else (None, None)
                if e2 is None:
                    raise Undecided('nonlocal %s unresolved' % t.id)
                e2.vars[t.id] = v
            else:
                env.vars[t.id] = v
        elif isinstance(t, pyast.Attribute):
            self.setattr(self.eval(t.value, env), t.attr, v)
        elif isinstance(t, (pyast.Tuple, pyast.List)):
            vals = self.iterate_concrete(v)
            if len(vals) != len(t.elts):
                raise Raised(ExcVal(ValueError, ('unpack',)))
            for te, ve in zip(t.elts, vals):
                self.assign(te, ve, env)
        elif isinstance(t, pyast.Subscript):
            from . import models
            models.setitem(self, self.eval(t.value, env), self.eval_slice(t.slice, env), v)
        else:
            raise Undecided('assignment target %s' % t.__class__.__name__)

    def stmt_If(self, s, env):
        # version tests are decided concretely and the dead branch is recorded as pruned
        c = self.eval(s.test, env)
        if _mentions_version(s.test) and isinstance(c, bool):
            dead = s.orelse if c else s.body
            if dead:
                f = self.frames[-1].func
                self.pruned.add((f.spec, dead[0].lineno, dead[-1].end_lineno))
        if self.truth(c):
            self.exec_block(s.body, env)
        else:
            self.exec_block(s.orelse, env)

    def stmt_Assert(self, s, env):
        c = self.eval(s.test, env)
        if not self.truth(c):
            raise Raised(ExcVal(AssertionError, ()))

    def stmt_Raise(self, s, env):
        if s.exc is None:
            raise Undecided('bare raise')
        e = self.eval(s.exc, env)
        if isinstance(e, Native) and isinstance(e.py, type) and issubclass(e.py, BaseException):
            e = ExcVal(e.py, ())
        if not isinstance(e, ExcVal):
            if isinstance(e, Obj) and self.ctx.data(e).kind == 'inst' and self.ctx.data(e).cls is not None \
                    and issubclass(self.ctx.data(e).cls, BaseException):
                ev = ExcVal(self.ctx.data(e).cls, ())
                ev.obj = e
                raise Raised(ev)
            raise Undecided('raise of %r' % (e,))
        raise Raised(e)

    def stmt_Try(self, s, env):
        try:
            try:
                self.exec_block(s.body, env)
            except Raised as r:
                for h in s.handlers:
                    if h.type is None:
                        match = True
                    else:
                        t = self.eval(h.type, env)
                        ts = t if isinstance(t, tuple) else (t,)
                        match = any(isinstance(x, Native) and isinstance(x.py, type) and issubclass(r.exc.cls, x.py) for x in ts)
                    if match:
                        if h.name:
                            env.vars[h.name] = r.exc
                        self.exec_block(h.body, env)
                        break
                else:
                    raise
            else:
                self.exec_block(s.orelse, env)
        finally:
            if s.finalbody:
                self.exec_block(s.finalbody, env)

    def stmt_With(self, s, env):
        mgrs = []
        for item in s.items:
            m = self.eval(item.context_expr, env)
            enter = self.getattr(m, '__enter__')
            v = self.call(enter, [], {})
            if item.optional_vars is not None:
                self.assign(item.optional_vars, v, env)
            mgrs.append(m)
        try:
            self.exec_block(s.body, env)
        except Raised:
            for m in reversed(mgrs):
                self.call(self.getattr(m, '__exit__'), [Opaque('exc_type'), Opaque('exc_val'), Opaque('exc_tb')], {})
            raise
        except (ReturnSignal, BreakSignal, ContinueSignal):
            for m in reversed(mgrs):
                self.call(self.getattr(m, '__exit__'), [None, None, None], {})
            raise
        for m in reversed(mgrs):
            self.call(self.getattr(m, '__exit__'), [None, None, None], {})

    def stmt_FunctionDef(self, s, env):
        f = self.frames[-1].func
        qual = f.qual + '.<locals>.' + s.name
        env.vars[s.name] = SrcFunc(f.fi, s, f.globs, env, qual, f.module, None, None, None)

    def stmt_Import(self, s, env):
        import importlib
        for a in s.names:
            source.ensure_importable()
            mod = importlib.import_module(a.name)
            if a.asname:
                env.vars[a.asname] = Native(mod)
            else:
                top = importlib.import_module(a.name.split('.')[0])
                env.vars[a.name.split('.')[0]] = Native(top)

    def stmt_ImportFrom(self, s, env):
        import importlib
        source.ensure_importable()
        mod = importlib.import_module(s.module)
        for a in s.names:
            env.vars[a.asname or a.name] = self.wrap(getattr(mod, a.name))

    def stmt_Delete(self, s, env):
        for t in s.targets:
            if isinstance(t, pyast.Name):
                env.vars.pop(t.id, None)
            else:
                raise Undecided('del target')

    def stmt_Global(self, s, env):
        raise Undecided('global statement')

    def stmt_Nonlocal(self, s, env):
        pass

    def stmt_While(self, s, env):
        n = 0
        while True:
            n += 1
            if n > 64:
                raise Undecided('while loop did not terminate concretely within 64 iterations (line %d)' % s.lineno)
            if self.policy is not None:
                r = self.policy.while_loop(self, s, env, n)
                if r == 'exit':
                    break
            if not self.truth(self.eval(s.test, env)):
                self.exec_block(s.orelse, env)
                break
            try:
                self.exec_block(s.body, env)
            except BreakSignal:
                break
            except ContinueSignal:
                continue

    def stmt_For(self, s, env):
        ctx = self.ctx
        it = self.eval(s.iter, env)
        kind, seq = self.as_iterable(it)
        if kind == 'concrete':
            broke = False
            for v in seq:
                self.assign(s.target, v, env)
                try:
                    self.exec_block(s.body, env)
                except BreakSignal:
                    broke = True
                    break
                except ContinueSignal:
                    continue
            if not broke:
                self.exec_block(s.orelse, env)
            return
        # symbolic-length sequence: peel iteration 0, then havoc and run one arbitrary later iteration
        f = self.frames[-1].func
        loop_id = '%s@%d:%d' % (f.spec, s.lineno, s.col_offset)
        length, elem = seq
        if not ctx.branch(length >= 1):
            self.exec_block(s.orelse, env)
            return
        ctx.explorer.loop_first_obj.setdefault(loop_id, ctx.next_id)
        first_obj = ctx.next_id
        scheme = self.policy.loop_scheme(self, loop_id, s) if self.policy is not None else 'peel'
        if scheme == 'generic':
            # every iteration (including the first) is analysed as one arbitrary iteration from a havoc'd loop-head state
            ctx.loop_stack.append(loop_id)
            try:
                self.havoc_loop(loop_id, s, env, first_obj)
                self.policy.loop_generic(self, loop_id, s, env)
                self.assign(s.target, elem(('g', loop_id)), env)
                try:
                    self.exec_block(s.body, env)
                except BreakSignal:
                    return
                except ContinueSignal:
                    pass
            finally:
                ctx.loop_stack.pop()
            self.exec_block(s.orelse, env)
            return
        ctx.loop_stack.append(loop_id)
        try:
            self.assign(s.target, elem(0), env)
            try:
                self.exec_block(s.body, env)
            except BreakSignal:
                return
            except ContinueSignal:
                pass
            if not ctx.branch(length >= 2):
                self.exec_block(s.orelse, env)
                return
            self.havoc_loop(loop_id, s, env, first_obj)
            if self.policy is not None:
                self.policy.loop_generic(self, loop_id, s, env)
            self.assign(s.target, elem(('g', loop_id)), env)
            try:
                self.exec_block(s.body, env)
            except BreakSignal:
                return
            except ContinueSignal:
                pass
        finally:
            ctx.loop_stack.pop()
        self.exec_block(s.orelse, env)

    def havoc_loop(self, loop_id, s, env, first_obj):
        ctx = self.ctx
        # locals assigned in the body
        names = set()
        for n in pyast.walk(pyast.Module(body=s.body, type_ignores=[])):
            if isinstance(n, pyast.Name) and isinstance(n.ctx, pyast.Store):
                names.add(n.id)
        for n in pyast.walk(s.target):
            if isinstance(n, pyast.Name):
                names.discard(n.id)
        for name in sorted(names):
            e, v = env.lookup(name)
            if e is None:
                continue
            e.vars[name] = self.havoc_value(v, 'loc_%s' % name, loop_id)
        for (oid, field) in sorted(ctx.explorer.loop_writes.get(loop_id, ()), key=repr):
            if oid in ctx.heap and oid < first_obj:
                d = ctx.heap[oid]
                if field == '<items>':
                    if self.policy is not None and self.policy.havoc_list(self, Obj(oid), loop_id):
                        continue
                    raise Undecided('list mutated in a loop over a symbolic sequence (%s)' % loop_id)
                if field in d.fields:
                    d.fields[field] = self.havoc_value(d.fields[field], '%s_%s' % (d.name or oid, field), loop_id, Obj(oid), field)

    def havoc_value(self, v, base, loop_id, obj=None, field=None):
        ctx = self.ctx
        if self.policy is not None:
            r = self.policy.havoc(self, v, base, loop_id, obj, field)
            if r is not PROCEED:
                return r
        nm = ctx.fresh('hv_' + base)
        if isinstance(v, bool) or (is_z3(v) and z3.is_bool(v)):
            return z3.Bool(nm)
        if isinstance(v, int) or (is_z3(v) and z3.is_int(v)):
            return z3.Int(nm)
        if is_z3(v) and z3.is_real(v):
            return z3.Real(nm)
        if isinstance(v, (str, SymStr)) or (is_z3(v) and z3.is_string(v)):
            return SymStr((Opaque(nm, sort='str'),))
        # an unknown value: any use the engine cannot interpret soundly raises Undecided at that use
        return Opaque(nm, sort=None)

    def as_iterable(self, it):
        """-> ('concrete', [values]) or ('sym', (length z3 Int, elem(key)))"""
        ctx = self.ctx
        if isinstance(it, (list, tuple)):
            return 'concrete', [self.wrap(x) if not _is_value(x) else x for x in it]
        if isinstance(it, (set, frozenset)):
            return 'concrete', sorted(it, key=repr)
        if isinstance(it, dict):
            return 'concrete', list(it.keys())
        if isinstance(it, str):
            return 'concrete', list(it)
        if isinstance(it, Obj):
            d = ctx.data(it)
            if d.kind == 'list':
                if d.symlen is None:
                    return 'concrete', list(d.items)
                return 'sym', (d.symlen, lambda k, it=it: self.list_elem(it, k))
            if d.kind == 'dict':
                return 'concrete', list(d.items.keys())
            if d.kind == 'set':
                return 'concrete', sorted(d.items, key=repr)
        if isinstance(it, SymIter):
            src = it.src
            if it.label == 'filter-free':
                kind, seq = self.as_iterable(src)
                length, elem = seq
                return 'sym', (length, lambda k: it.fn(elem(k)))
            raise Undecided('iteration over filtered lazy iterable')
        if self.policy is not None:
            r = self.policy.iterate(self, it)
            if r is not PROCEED:
                return r
        raise Undecided('iteration over %r' % (it,))

    def iterate_concrete(self, v):
        kind, seq = self.as_iterable(v)
        if kind != 'concrete':
            raise Undecided('need a concrete sequence')
        return seq

    # ------------------------------------------------------------------------------------------------------------------
    # expressions

    def eval(self, e, env):
        m = getattr(self, 'expr_' + e.__class__.__name__, None)
        if m is None:
            raise Undecided('expression %s at line %d' % (e.__class__.__name__, getattr(e, 'lineno', 0)))
        return m(e, env)

    def expr_Constant(self, e, env):
        return e.value

    def expr_Name(self, e, env):
        ee, v = env.lookup(e.id)
        if ee is not None:
            return v
        f = env.func
        while f is None and env.parent is not None:
            env = env.parent
            f = env.func
        globs = f.globs if f is not None else {}
        if e.id in globs:
            return self.wrap(globs[e.id])
        if hasattr(pybuiltins, e.id):
            return self.wrap(getattr(pybuiltins, e.id))
        raise Raised(ExcVal(NameError, (e.id,)))

    def expr_Attribute(self, e, env):
        return self.getattr(self.eval(e.value, env), e.attr)

    def expr_Tuple(self, e, env):
        out = []
        for x in e.elts:
            if isinstance(x, pyast.Starred):
                out.extend(self.iterate_concrete(self.eval(x.value, env)))
            else:
                out.append(self.eval(x, env))
        return tuple(out)

    def expr_List(self, e, env):
        return self.ctx.new_list(list(self.expr_Tuple(e, env)))

    def expr_Set(self, e, env):
        o = self.ctx.new_obj('set')
        self.ctx.data(o).items = set(self.expr_Tuple(e, env))
        return o

    def expr_Dict(self, e, env):
        o = self.ctx.new_obj('dict')
        d = {}
        for k, v in zip(e.keys, e.values):
            if k is None:
                raise Undecided('dict unpacking')
            d[self.eval(k, env)] = self.eval(v, env)
        self.ctx.data(o).items = d
        return o

    def expr_Lambda(self, e, env):
        f = self.frames[-1].func if self.frames else env.func
        return SrcFunc(f.fi, e, f.globs, env, f.qual + '.<locals>.<lambda>', f.module, None, None, None)

    def expr_IfExp(self, e, env):
        if self.truth(self.eval(e.test, env)):
            return self.eval(e.body, env)
        return self.eval(e.orelse, env)

    def expr_BoolOp(self, e, env):
        is_and = isinstance(e.op, pyast.And)
        v = None
        for x in e.values:
            v = self.eval(x, env)
            t = self.truth(v)
            if is_and and not t:
                return v
            if not is_and and t:
                return v
        return v

    def expr_UnaryOp(self, e, env):
        v = self.eval(e.operand, env)
        if isinstance(e.op, pyast.Not):
            return not self.truth(v)
        if isinstance(e.op, pyast.USub):
            if is_z3(v):
                return -v
            return -v
        raise Undecided('unary op')

    def expr_BinOp(self, e, env):
        return self.binop(e.op, self.eval(e.left, env), self.eval(e.right, env))

    def binop(self, op, a, b):
        from . import models
        return models.binop(self, op, a, b)

    def expr_Compare(self, e, env):
        from . import models
        left = self.eval(e.left, env)
        result = True
        for op, rhs in zip(e.ops, e.comparators):
            right = self.eval(rhs, env)
            r = models.compare(self, op, left, right)
            if len(e.ops) == 1:
                return r
            if not self.truth(r):
                return False
            left = right
        return result

    def expr_Subscript(self, e, env):
        from . import models
        return models.getitem(self, self.eval(e.value, env), self.eval_slice(e.slice, env))

    def eval_slice(self, s, env):
        if isinstance(s, pyast.Slice):
            return slice(self.eval(s.lower, env) if s.lower else None, self.eval(s.upper, env) if s.upper else None,
                         self.eval(s.step, env) if s.step else None)
        return self.eval(s, env)

    def expr_Call(self, e, env):
        f = self.eval(e.func, env)
        args = []
        for a in e.args:
            if isinstance(a, pyast.Starred):
                args.extend(self.iterate_concrete(self.eval(a.value, env)))
            else:
                args.append(self.eval(a, env))
        kwargs = {}
        for k in e.keywords:
            if k.arg is None:
                d = self.eval(k.value, env)
                if isinstance(d, Obj):
                    d = self.ctx.data(d).items
                kwargs.update(d)
            else:
                kwargs[k.arg] = self.eval(k.value, env)
        # super() support
        if isinstance(f, Native) and f.py is super:
            fr = self.frames[-1]
            if not args:
                cls = fr.func.cls
                selfv = fr.env.vars[fr.func.node.args.args[0].arg]
            else:
                cls = args[0].py
                selfv = args[1]
            return SuperProxy(cls, selfv)
        return self.call(f, args, kwargs)

    def expr_ListComp(self, e, env):
        r = self.comprehension(e, env, e.elt)
        if isinstance(r, list):
            return self.ctx.new_list(r)
        if isinstance(r, SymIter) and r.label == 'filter-free':
            return self.materialize_map(r)
        return r

    def materialize_map(self, it):
        """[f(x) for x in L] over a symbolic list L: a list of the same length whose elements are computed on demand."""
        ctx = self.ctx
        kind, seq = self.as_iterable(it.src)
        if kind != 'sym':
            return it
        o = ctx.new_obj('list', name=ctx.fresh('map'))
        d = ctx.data(o)
        d.items = {}
        d.symlen = seq[0]
        d.extra['map_of'] = it.src
        d.extra['map_fn'] = it.fn
        d.elem_factory = lambda key, it=it, seq=seq: it.fn(seq[1](key))
        return o

    def expr_GeneratorExp(self, e, env):
        r = self.comprehension(e, env, e.elt)
        return r

    def comprehension(self, e, env, elt):
        if len(e.generators) != 1:
            return self.comprehension_nested(e, env, elt)
        g = e.generators[0]
        it = self.eval(g.iter, env)
        if isinstance(it, SymIter):
            # a comprehension over a lazy filter/map of a symbolic list: compose the element functions
            inner = it

            def fn2(v, g=g, env=env, elt=elt, inner=inner):
                w = inner.fn(v)
                if w is SymIter.SKIP:
                    return SymIter.SKIP
                cenv = Env(env, env.func)
                self.assign_comp(g.target, w, cenv)
                for c in g.ifs:
                    if not self.truth(self.eval(c, cenv)):
                        return SymIter.SKIP
                return self.eval(elt, cenv)
            return SymIter(inner.src, fn2, 'filtered')
        kind, seq = self.as_iterable(it)
        if kind == 'concrete':
            out = []
            for v in seq:
                cenv = Env(env, env.func)
                self.assign_comp(g.target, v, cenv)
                if all(self.truth(self.eval(c, cenv)) for c in g.ifs):
                    out.append(self.eval(elt, cenv))
            return out

        def fn(v, g=g, env=env, elt=elt):
            cenv = Env(env, env.func)
            self.assign_comp(g.target, v, cenv)
            for c in g.ifs:
                if not self.truth(self.eval(c, cenv)):
                    return SymIter.SKIP
            return self.eval(elt, cenv)
        return SymIter(it, fn, 'filter-free' if not g.ifs else 'filtered')

    def comprehension_nested(self, e, env, elt):
        def rec(i, cenv, out):
            if i == len(e.generators):
                out.append(self.eval(elt, cenv))
                return
            g = e.generators[i]
            for v in self.iterate_concrete(self.eval(g.iter, cenv)):
                c2 = Env(cenv, cenv.func)
                self.assign_comp(g.target, v, c2)
                if all(self.truth(self.eval(c, c2)) for c in g.ifs):
                    rec(i + 1, c2, out)
        out = []
        rec(0, env, out)
        return out

    def assign_comp(self, t, v, cenv):
        if isinstance(t, pyast.Name):
            cenv.vars[t.id] = v
        elif isinstance(t, (pyast.Tuple, pyast.List)):
            vals = self.iterate_concrete(v)
            for te, ve in zip(t.elts, vals):
                self.assign_comp(te, ve, cenv)
        else:
            raise Undecided('comprehension target')

    def expr_Yield(self, e, env):
        v = self.eval(e.value, env) if e.value is not None else None
        if self.policy is not None:
            self.policy.on_yield(self, v)
        for fr in reversed(self.frames):
            if fr.yields is not None:
                fr.yields.append(v)
                return None
        raise Undecided('yield outside generator')

    def expr_JoinedStr(self, e, env):
        raise Undecided('f-string in analysed code')

    def expr_Starred(self, e, env):
        raise Undecided('starred expression')


def _noop(*args, **kwargs):
    return None


class SuperProxy(object):
    def __init__(self, cls, selfv):
        self.cls = cls
        self.selfv = selfv


def _keyname(key):
    if isinstance(key, tuple):
        return '_'.join(_keyname(k) for k in key)
    s = str(key)
    return ''.join(ch if (ch.isalnum() or ch in '_.') else '_' for ch in s)[-40:]


def _hashable(x):
    try:
        hash(x)
        return True
    except TypeError:
        return False


def _is_value(x):
    return x is None or isinstance(x, (bool, int, float, complex, str, bytes, tuple, Obj, Opaque, SymStr, SrcFunc, Native, Bound,
                                       TagName, SymConst, ExcVal)) or is_z3(x)


def _as_load(t):
    import copy
    t2 = copy.copy(t)
    t2.ctx = pyast.Load()
    return t2


_gen_cache = {}


def _is_generator(node):
    k = id(node)
    if k not in _gen_cache:
        found = False
        stack = list(node.body)
        while stack:
            n = stack.pop()
            if isinstance(n, (pyast.Yield, pyast.YieldFrom)):
                found = True
                break
            if isinstance(n, (pyast.FunctionDef, pyast.AsyncFunctionDef, pyast.Lambda, pyast.ClassDef)):
                continue
            stack.extend(pyast.iter_child_nodes(n))
        _gen_cache[k] = found
    return _gen_cache[k]


def _nonlocals(fnode):
    out = set()
    if fnode is None or isinstance(fnode, pyast.Lambda):
        return out
    for n in pyast.walk(fnode):
        if isinstance(n, pyast.Nonlocal):
            out.update(n.names)
    return out


def _mentions_version(e):
    for n in pyast.walk(e):
        if isinstance(n, pyast.Attribute) and n.attr == 'version_info':
            return True
    return False


class Policy(object):
    """Contract-side hooks; the default policy decides nothing."""

    def attr(self, interp, obj, name):
        return PROCEED

    def hasattr(self, interp, obj, name):
        return PROCEED

    def optional(self, interp, obj, name):
        return True

    def elem_optional(self, interp, parent, field):
        return False

    def child_classes(self, interp, parent, field, index, classes):
        return classes

    def list_created(self, interp, obj, name, lst):
        pass

    def node_created(self, interp, obj):
        pass

    def on_write(self, interp, obj, name, value):
        pass

    def havoc(self, interp, v, base, loop_id, obj, field):
        return PROCEED

    def havoc_list(self, interp, obj, loop_id):
        return False

    def loop_generic(self, interp, loop_id, s, env):
        pass

    def while_loop(self, interp, s, env, n):
        return None

    def recursion_limit(self, interp, spec):
        return None

    def loop_scheme(self, interp, loop_id, s):
        return 'peel'

    def iterate(self, interp, it):
        return PROCEED

    def isinstance_opaque(self, interp, v, pycls):
        return PROCEED

    def call_opaque(self, interp, f, args, kwargs):
        return PROCEED

    def contains(self, interp, container, item):
        return PROCEED

    def on_yield(self, interp, value):
        pass

    def getitem(self, interp, v, idx):
        return PROCEED

    def setitem(self, interp, v, idx, value):
        return PROCEED

    def materialize(self, interp, it):
        return PROCEED

    def call_builtin(self, interp, py, args, kwargs):
        return PROCEED

    def length(self, interp, v):
        return PROCEED

    def allany(self, interp, py, it):
        # all(f(x) for x in xs) / any(...) over a symbolic sequence: an uninterpreted boolean related to ONE arbitrary element
        # (all: result => f(x);  any: f(x) => result); empty sequence: all -> True, any -> False
        import builtins as _b
        ctx = interp.ctx
        try:
            kind, seq = interp.as_iterable(it.src)
        except Exception:
            return PROCEED
        if kind != 'sym':
            return PROCEED
        n = getattr(self, '_allany_n', 0)
        self._allany_n = n + 1
        e = seq[1](('arbitrary', 'allany%d' % n))
        body = it.fn(e)
        if body is SymIter.SKIP:
            return PROCEED
        try:
            bz = body if is_z3(body) else z3.BoolVal(bool(interp.truth(body)))
        except Exception:
            return PROCEED
        r = z3.Bool(ctx.fresh('result_of_%s' % py.__name__))
        ctx.assume(z3.Implies(seq[0] == 0, r if py is _b.all else z3.Not(r)))
        ctx.assume(z3.Implies(r, bz) if py is _b.all else z3.Implies(bz, r))
        return r

    def call_method(self, interp, recv, name, args, kwargs):
        return PROCEED

    def str_method(self, interp, recv, name, args, kwargs):
        return PROCEED

    def str_equal(self, interp, a, b):
        return PROCEED

    def equal_opaque(self, interp, a, b):
        return PROCEED
