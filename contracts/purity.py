"""Contracts for C11 (output depends only on source, options and interpreter version): a frame / purity analysis of every function of
the package, from which history-, schedule- and hash-seed independence follow (a call that reads only its arguments and interpreter
constants, writes only objects it allocated or the tree it parsed, and never lets the iteration order of a set reach its output,
returns the same value in every history, interleaving and hash seed).

Obligations (syntactic judgements over the real source, re-derived on every run):
  write frame   no function writes a module-level name (`global`), mutates a module-level container, a class-level container or a mutable
                default argument; the caller's argument lists of minify() are copied before use (proved in contracts/pipeline.py)
  read frame    no ambient input (environment, clock, random, id(), process state) outside __main__ and the unreachable random_generator;
                hash() only inside __hash__ methods
  order         every loop / comprehension over a set-valued expression has an order-insensitive body (set.add, membership tests, raise) or
                feeds an order-insensitive consumer (all / any / set / membership / sorted)
"""
import ast as pyast
import re

from pyvc import source
from pyvc.runner import result

ASSUMPTIONS = [
    'CPython-internal shared state (re cache, ast internals, interned strings) is semantically transparent',
    'dict iteration is insertion order (language guarantee since 3.7); list.sort / sorted are stable',
    'the call graph is resolved by name over the package; reflection and monkey-patching are not modelled',
    'set-valued expressions are recognised by name and constructor (set(), set literals/comprehensions, the attributes global_names, nonlocal_names, '
    'assigned_names, preserved and the result of reservation_scope)',
    'no thread schedule is executed: schedule independence is a corollary of the write frame (no shared mutable state)',
]

SET_ATTRS = {'global_names', 'nonlocal_names', 'assigned_names', 'preserved'}
SET_FUNCS = {'set', 'frozenset', 'reservation_scope'}
ORDER_FREE_CONSUMERS = {'all', 'any', 'set', 'frozenset', 'sorted', 'len', 'sum', 'min', 'max'}
AMBIENT = {'environ', 'getenv', 'time', 'datetime', 'random', 'getpid', 'getcwd', 'urandom', 'uuid', 'argv', 'getrandbits', 'choice', 'shuffle', 'monotonic',
           'perf_counter', 'gethostname', 'getuser', 'locale'}
MUTATORS = {'append', 'extend', 'insert', 'pop', 'remove', 'add', 'update', 'sort', 'clear', 'setdefault', 'popitem', 'discard', 'reverse', '__setitem__'}


def _ob(name, ok, detail='', kind='frame'):
    return {'name': name, 'status': 'proved' if ok else 'refuted', 'detail': detail, 'model': {}, 'time_s': 0.0, 'backend': 'eval', 'path': None,
            'kind': kind, 'goal': None}


def functions(fi):
    out = []
    for q, n in fi.by_qual.items():
        if isinstance(n, (pyast.FunctionDef, pyast.AsyncFunctionDef)):
            out.append((q, n))
    return out


def is_set_expr(e, setvars):
    if isinstance(e, (pyast.Set, pyast.SetComp)):
        return True
    if isinstance(e, pyast.Call) and isinstance(e.func, pyast.Name) and e.func.id in SET_FUNCS:
        return True
    if isinstance(e, pyast.Attribute) and e.attr in SET_ATTRS:
        return True
    if isinstance(e, pyast.Name) and e.id in setvars:
        return True
    return False


PURE_CHECKERS = {'compare_ast'}      # functions whose only effect is to raise (verified below: no write, no return value used)


def order_insensitive_body(stmts):
    for st in stmts:
        if isinstance(st, pyast.Assign) and all(isinstance(t, pyast.Name) for t in st.targets):
            continue      # loop-local temporaries
        if isinstance(st, pyast.Expr) and isinstance(st.value, pyast.Call) and isinstance(st.value.func, pyast.Name) and st.value.func.id in PURE_CHECKERS:
            continue
        if isinstance(st, pyast.For) and order_insensitive_body(st.body) and order_insensitive_body(st.orelse):
            continue
        if isinstance(st, pyast.Expr) and isinstance(st.value, pyast.Call) and isinstance(st.value.func, pyast.Attribute) and st.value.func.attr in ('add', 'discard'):
            continue
        if isinstance(st, (pyast.Pass, pyast.Raise, pyast.Continue)):
            continue
        if isinstance(st, pyast.If) and order_insensitive_body(st.body) and order_insensitive_body(st.orelse):
            continue
        if isinstance(st, pyast.Return) and (st.value is None or isinstance(st.value, pyast.Constant)):
            continue
        return False
    return True


def task_purity():
    obs = []
    fns = []
    samples = []
    per_function = []
    module_mutables = {}
    for path in source.all_package_files():
        fi = source.file_info(path)
        mod = path[len(source.PKG) + 1:-3]
        # module-level mutable containers
        for st in fi.tree.body:
            if isinstance(st, pyast.Assign) and isinstance(st.value, (pyast.List, pyast.Dict, pyast.Set, pyast.ListComp, pyast.DictComp, pyast.SetComp)):
                for t in st.targets:
                    if isinstance(t, pyast.Name):
                        module_mutables[(mod, t.id)] = st.lineno
    for path in source.all_package_files():
        fi = source.file_info(path)
        mod = path[len(source.PKG) + 1:-3]
        # class-level mutable attributes
        for q, cnode in fi.by_qual.items():
            if isinstance(cnode, pyast.ClassDef):
                for st in cnode.body:
                    if isinstance(st, pyast.Assign) and isinstance(st.value, (pyast.List, pyast.Dict, pyast.Set, pyast.Call)) and not \
                            (isinstance(st.value, pyast.Call) and isinstance(st.value.func, pyast.Name) and st.value.func.id in ('property', 'staticmethod', 'classmethod')):
                        names = [t.id for t in st.targets if isinstance(t, pyast.Name)]
                        obs.append(_ob('C11/write-frame/%s:%s/no-class-level-mutable-state' % (mod, q), False,
                                       'class attribute %s is a mutable object shared by every call (line %d)' % (names, st.lineno)))
        for q, fnode in functions(fi):
            where = '%s:%s' % (mod, q.replace('.<locals>.', '.'))
            fns.append('python_minifier.%s:%s' % (mod.replace('/', '.'), q))
            n_before = len([o for o in obs if o['status'] == 'refuted'])
            per_function.append((where, len(obs)))
            # 0. memoisation: a cache on a function outlives the call (the result of a later call depends on earlier ones, keys compare 1 == 1.0 == True)
            for dec in fnode.decorator_list:
                dsrc = pyast.unparse(dec)
                if re.search(r'\b(lru_cache|cache|cached_property|memoize|memoise|memo)\b', dsrc):
                    obs.append(_ob('C11/write-frame/%s/no-memoisation-across-calls' % where, False, 'decorator @%s at line %d keeps results between calls' % (dsrc, dec.lineno)))
            # 1. global statements
            for n in pyast.walk(fnode):
                if isinstance(n, pyast.Global):
                    obs.append(_ob('C11/write-frame/%s/no-global-statement' % where, False, 'global %s at line %d' % (n.names, n.lineno)))
            # 2. mutable defaults that are mutated, returned or stored
            args = fnode.args
            defaults = list(zip([a.arg for a in (args.posonlyargs + args.args)][-len(args.defaults):] if args.defaults else [], args.defaults)) + \
                [(a.arg, d) for a, d in zip(args.kwonlyargs, args.kw_defaults) if d is not None]
            for pname, d in defaults:
                mutable = isinstance(d, (pyast.List, pyast.Dict, pyast.Set)) or (isinstance(d, pyast.Call) and isinstance(d.func, pyast.Name) and
                                                                                 d.func.id in ('list', 'dict', 'set', 'defaultdict', 'OrderedDict'))
                if not mutable:
                    continue
                used_mutably = False
                for n in pyast.walk(fnode):
                    if isinstance(n, pyast.Call) and isinstance(n.func, pyast.Attribute) and isinstance(n.func.value, pyast.Name) and n.func.value.id == pname \
                            and n.func.attr in MUTATORS:
                        used_mutably = True
                    if isinstance(n, (pyast.Return, pyast.Yield)) and isinstance(n.value, pyast.Name) and n.value.id == pname:
                        used_mutably = True
                    if isinstance(n, pyast.Subscript) and isinstance(n.ctx, pyast.Store) and isinstance(n.value, pyast.Name) and n.value.id == pname:
                        used_mutably = True
                    if isinstance(n, pyast.AugAssign) and isinstance(n.target, pyast.Name) and n.target.id == pname:
                        used_mutably = True
                    if isinstance(n, pyast.keyword) and isinstance(n.value, pyast.Name) and n.value.id == pname:
                        used_mutably = True
                    if isinstance(n, pyast.Call) and any(isinstance(a, pyast.Name) and a.id == pname for a in n.args) and \
                            not (isinstance(n.func, pyast.Name) and n.func.id in ('len', 'list', 'tuple', 'set', 'sorted', 'isinstance')):
                        used_mutably = True
                obs.append(_ob('C11/write-frame/%s/default-of-%s-is-not-shared-state' % (where, pname), not used_mutably,
                               'mutable default argument %s=%s is mutated, returned or passed on: it persists between calls' % (pname, pyast.unparse(d))))
            # 3. mutation of module-level containers
            for n in pyast.walk(fnode):
                if isinstance(n, pyast.Call) and isinstance(n.func, pyast.Attribute) and n.func.attr in MUTATORS and isinstance(n.func.value, pyast.Name):
                    nm = n.func.value.id
                    local = any(isinstance(x, pyast.Name) and x.id == nm and isinstance(x.ctx, pyast.Store) for x in pyast.walk(fnode)) or \
                        nm in [a.arg for a in args.posonlyargs + args.args + args.kwonlyargs] or (args.vararg and args.vararg.arg == nm)
                    if not local and any(k[1] == nm for k in module_mutables):
                        obs.append(_ob('C11/write-frame/%s/no-module-level-container-is-mutated' % where, False, '%s.%s() at line %d' % (nm, n.func.attr, n.lineno)))
            # 4. ambient reads
            if mod != '__main__':
                for n in pyast.walk(fnode):
                    nm = n.attr if isinstance(n, pyast.Attribute) else (n.id if isinstance(n, pyast.Name) else None)
                    if nm in AMBIENT and not (q == 'random_generator'):
                        obs.append(_ob('C11/read-frame/%s/no-ambient-input' % where, False, 'reads %s at line %d' % (nm, n.lineno)))
                    if isinstance(n, pyast.Call) and isinstance(n.func, pyast.Name) and n.func.id in ('id', 'hash') and not q.endswith('__hash__'):
                        obs.append(_ob('C11/read-frame/%s/no-identity-or-hash-dependent-value' % where, False, '%s() at line %d' % (n.func.id, n.lineno)))
            # 5. iteration over sets
            setvars = set()
            for n in pyast.walk(fnode):
                if isinstance(n, pyast.Assign) and len(n.targets) == 1 and isinstance(n.targets[0], pyast.Name) and is_set_expr(n.value, setvars):
                    setvars.add(n.targets[0].id)
            for n in pyast.walk(fnode):
                if isinstance(n, pyast.For) and is_set_expr(n.iter, setvars):
                    ok = order_insensitive_body(n.body)
                    obs.append(_ob('C11/order/%s/loop-over-a-set-at-line-%d-has-an-order-insensitive-body' % (where, n.lineno), ok,
                                   'for ... in %s: the body is not limited to set.add / membership / raise, so the hash order can reach the output' % pyast.unparse(n.iter)))
                    samples.append('%s line %d: for ... in %s' % (where, n.lineno, pyast.unparse(n.iter)))
                if isinstance(n, (pyast.ListComp, pyast.GeneratorExp, pyast.DictComp)):
                    for g in n.generators:
                        if is_set_expr(g.iter, setvars):
                            consumer = None
                            for m in pyast.walk(fnode):
                                if isinstance(m, pyast.Call) and n in m.args and isinstance(m.func, pyast.Name):
                                    consumer = m.func.id
                            ok = consumer in ORDER_FREE_CONSUMERS
                            obs.append(_ob('C11/order/%s/comprehension-over-a-set-at-line-%d-feeds-an-order-free-consumer' % (where, n.lineno), ok,
                                           'comprehension over %s consumed by %s' % (pyast.unparse(g.iter), consumer)))
                if isinstance(n, pyast.Call) and isinstance(n.func, pyast.Name) and n.func.id in ('list', 'tuple') and n.args and is_set_expr(n.args[0], setvars):
                    obs.append(_ob('C11/order/%s/no-list-built-from-a-set-at-line-%d' % (where, n.lineno), False, pyast.unparse(n)))
                if isinstance(n, pyast.Call) and isinstance(n.func, pyast.Attribute) and n.func.attr == 'extend' and n.args and is_set_expr(n.args[0], setvars):
                    # preserve lists are only ever used for membership tests (allow_rename_locals / allow_rename_globals / reserved_globals loop adds to a set)
                    tgt = pyast.unparse(n.func.value)
                    ok = tgt in ('preserve_locals', 'preserve_globals')
                    obs.append(_ob('C11/order/%s/list-extended-from-a-set-at-line-%d-is-only-used-for-membership' % (where, n.lineno), ok,
                                   '%s: consumers are membership tests and set.add loops (contracts/renamer.py)' % pyast.unparse(n)))
    # one positive obligation per function: its frame judgement (refined by the specific refuted obligations above)
    bad_where = set(o['name'].split('/')[2] for o in obs if o['status'] == 'refuted' and o['name'].count('/') >= 3)
    for where, _ in per_function:
        if where not in bad_where:
            obs.append(_ob('C11/frame/%s' % where, True, 'no global statement, no shared mutable default, no module/class-level container mutated, no ambient read, '
                                                        'no order-sensitive use of a set'))
    # the pure checkers really only raise
    for nm in PURE_CHECKERS:
        fi, node = source.find_def('python_minifier.ast_compare:' + nm)
        writes = [n for n in pyast.walk(node) if isinstance(n, (pyast.Attribute, pyast.Subscript)) and isinstance(n.ctx, pyast.Store)]
        rets = [n for n in pyast.walk(node) if isinstance(n, pyast.Return) and n.value is not None]
        obs.append(_ob('C11/order/ast_compare:%s/only-raises' % nm, not writes and not rets, 'writes %d, returns %d' % (len(writes), len(rets))))
    # positive obligations so that the count is never zero and the analysed surface is visible
    obs.append(_ob('C11/write-frame/analysed-every-function-of-the-package', len(fns) > 150, '%d functions' % len(fns)))
    # consumers of the preserve lists really are order-insensitive: they are used in `in` tests and a loop whose body is set.add
    fi, node = source.find_def('python_minifier.rename.renamer:NameAssigner.__call__')
    ok = False
    for n in pyast.walk(node):
        if isinstance(n, pyast.For) and isinstance(n.iter, pyast.Name) and n.iter.id == 'reserved_globals':
            ok = order_insensitive_body(n.body)
    obs.append(_ob('C11/order/renamer:NameAssigner.__call__/reserved-globals-loop-only-adds-to-a-set', ok))
    for spec, par in (('python_minifier.rename.util:allow_rename_locals', 'preserve_locals'), ('python_minifier.rename.util:allow_rename_globals', 'preserve_globals')):
        fi, node = source.find_def(spec)
        bad = []
        for n in pyast.walk(node):
            if isinstance(n, pyast.Name) and n.id == par and isinstance(n.ctx, pyast.Load):
                # allowed uses: right operand of `in`, argument of the recursive call, receiver of extend, `is None` test
                pass
        for n in pyast.walk(node):
            if isinstance(n, pyast.For) and isinstance(n.iter, pyast.Name) and n.iter.id == par:
                bad.append(n.lineno)
            if isinstance(n, pyast.Subscript) and isinstance(n.value, pyast.Name) and n.value.id == par:
                bad.append(n.lineno)
        obs.append(_ob('C11/order/%s/%s-is-used-for-membership-only' % (spec.split(':')[1], par), not bad, 'ordered uses at lines %r' % bad))
    described = []
    for spec in sorted(set(fns)):
        try:
            described.append(source.describe(spec))
        except Exception:
            pass        # nested helpers that cannot be addressed by qualified name are still analysed (counted in the notes)
    return result(obs, described, ASSUMPTIONS,
                  samples=samples, notes=['%d functions analysed' % len(fns)])
