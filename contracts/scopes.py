"""Contracts for rename/mapper.py (C03 part a): the namespace every node is analysed in equals the language's scoping table.

add_parent(node, namespace) is executed for a symbolic node of every class; every recursive call add_parent(child, namespace=X) (and the
helper functions for function definitions, classes, lambdas, comprehensions and assignment expressions) is recorded, and X must equal
spec_scope(class of node, field of child): defaults, decorators, annotations, return annotation, type parameters, bases and class
keywords in the ENCLOSING namespace; parameters and body in the new one; the first comprehension iterable in the enclosing namespace,
everything else inside; a walrus target in the nearest enclosing namespace that is not a comprehension.
"""
import ast as real_ast

import z3

from pyvc import source
from pyvc.engine import (ExcVal, Explorer, Native, Obj, Opaque, Raised, Undecided, tag_const, tag_universe, tags_of_class)
from pyvc.interp import PROCEED, Interp, Policy
from pyvc.runner import result
from contracts import printer as P

MP = 'python_minifier.rename.mapper'
NAMESPACE_TAGS = {'FunctionDef', 'AsyncFunctionDef', 'Lambda', 'ClassDef', 'Module', 'GeneratorExp', 'SetComp', 'DictComp', 'ListComp'}
COMP = {'GeneratorExp', 'SetComp', 'DictComp', 'ListComp'}

ASSUMPTIONS = [
    'scoping oracle: language reference 4.2 (naming and binding), 6.2.4 (comprehensions), 6.12 / PEP 572 (assignment expressions), 8.7-8.8 '
    '(function and class definitions): hand-written table spec_scope below (trusted; cross-checked boundedly by the rename sweep)',
    'python 3.12 type parameters live in an annotation scope of their own; the package analyses them in the enclosing namespace and pins '
    'their names module-wide. That is not conservative for reads next to the generic definition: the table below states the language rule and the '
    'obligation <K>.type_params-not-bound-in-the-enclosing-namespace is refuted on the pinned tree (open known finding KF-26)',
    'ast.iter_child_nodes(node) yields exactly the child nodes of node',
]

ENCLOSING, OWN, ANNOTATION_SCOPE = 'enclosing', 'own', 'annotation scope'


def spec_scope(kind, field):
    """Where the child in `field` of a node of class `kind` is evaluated / bound, relative to the node: 'own' (the new namespace the node
    opens), 'enclosing' (the namespace the node itself sits in), or 'same' for nodes that open no namespace."""
    if kind in ('FunctionDef', 'AsyncFunctionDef'):
        return {'body': OWN, 'args': OWN, 'decorator_list': ENCLOSING, 'returns': ENCLOSING, 'type_params': ANNOTATION_SCOPE}.get(field)
    if kind == 'Lambda':
        return {'body': OWN, 'args': OWN}.get(field)
    if kind == 'ClassDef':
        return {'body': OWN, 'bases': ENCLOSING, 'keywords': ENCLOSING, 'decorator_list': ENCLOSING, 'type_params': ANNOTATION_SCOPE}.get(field)
    if kind in COMP:
        return {'elt': OWN, 'key': OWN, 'value': OWN, 'generators': 'comprehension'}.get(field)
    if kind == 'Module':
        return OWN
    return 'same'


class ScopePolicy(P.PrinterPolicy):
    def __init__(self):
        P.PrinterPolicy.__init__(self)
        self.calls = []

    def attr(self, interp, obj, name):
        ctx = interp.ctx
        if isinstance(obj, Obj):
            d = ctx.data(obj)
            if d.kind == 'node' and name == 'namespace' and name not in d.fields:
                # the namespace of an already annotated ancestor: a symbolic namespace node
                v = ctx.new_node(NAMESPACE_TAGS, name='ns_of_' + d.name)
                d.fields['namespace'] = v
                return v
            if d.kind == 'node' and name in ('global_names', 'nonlocal_names'):
                s = ctx.new_obj('set', name='%s_%s' % (name, d.name))
                ctx.data(s).items = set()
                d.fields[name] = s
                return s
        return P.PrinterPolicy.attr(self, interp, obj, name)

    def hasattr(self, interp, obj, name):
        if name in ('varargannotation', 'kwargannotation'):
            return False
        return PROCEED

    def loop_scheme(self, interp, loop_id, s):
        return 'generic'

    def havoc(self, interp, v, base, loop_id, obj, field):
        if base == 'loc_iter_namespace':
            # add_parent_to_comprehension: the first generator sees the enclosing namespace, later ones the comprehension itself.
            # An arbitrary iteration is either the first (value = entry value) or a later one (value = node): both are explored.
            if interp.ctx.branch(z3.Bool('arbitrary_generator_is_the_first')):
                self.first_generator = True
                return v
            self.first_generator = False
            return self.comp_node
        if field in ('namespace',):
            return v
        return PROCEED

    def havoc_list(self, interp, obj, loop_id):
        return True


def install(interp, policy, ctx, root):
    mod = source.import_module(MP)
    policy.interp = interp
    policy.root = root

    def rec(nm):
        def h(it, f, args, kwargs):
            node = args[0]
            if nm == 'add_parent' and node == root:
                return PROCEED
            a = list(args)
            ns = a[1] if len(a) > 1 else kwargs.get('namespace', kwargs.get('func'))
            policy.calls.append((nm, node, ns))
            if isinstance(node, Obj) and ctx.data(node).kind == 'node':
                ctx.data(node).fields['namespace'] = ns if ns is not None else node
            return None
        return h
    interp.hooks[MP + ':add_parent'] = rec('add_parent')
    import python_minifier.ast_compat as compat

    def iter_children(it, args, kwargs):
        node = args[0]
        d = ctx.data(node)
        lst = ctx.new_obj('list', name='children_of_' + d.name)
        ld = ctx.data(lst)
        ld.items = {}
        ld.symlen = z3.Int('n_children_' + d.name)
        ctx.assume(ld.symlen >= 0)
        from pyvc.interp import _keyname

        def mk(key):
            c = ctx.new_node(set(tag_universe()['names']), name='child_%s_of_%s' % (_keyname(key), d.name))
            ctx.data(c).origin = (node, '<child>', None)
            return c
        ld.elem_factory = mk
        return lst
    interp.natives[compat.iter_child_nodes] = iter_children
    interp.hooks['python_minifier.ast_annotation:get_parent'] = lambda it, f, a, k: ctx.new_node(set(tag_universe()['names']), name=ctx.fresh('parent'))


def task_add_parent():
    mod = source.import_module(MP)
    name = 'C03/mapper.add_parent'
    pruned = set()

    def run(ctx):
        policy = ScopePolicy()
        interp = Interp(ctx, policy=policy)
        root = ctx.new_node(set(tag_universe()['names']) - {'arguments'}, name='root')
        install(interp, policy, ctx, root)
        enclosing = ctx.new_node(NAMESPACE_TAGS, name='enclosing')
        ctx.data(enclosing).fields['namespace'] = ctx.new_node(NAMESPACE_TAGS, name='outer')
        for f in ('global_names', 'nonlocal_names'):
            s = ctx.new_obj('set', name=f + '_enclosing')
            ctx.data(s).items = set()
            ctx.data(enclosing).fields[f] = s
        policy.comp_node = root
        # helper functions are inlined except add_parent_to_arguments (its own task); record the helper calls too
        def args_hook(it, f, args, kwargs):
            a = list(args)
            func = a[1] if len(a) > 1 else kwargs.get('func')
            policy.calls.append(('add_parent_to_arguments', a[0], func))
            return None
        interp.hooks[MP + ':add_parent_to_arguments'] = args_hook
        interp.hooks[MP + ':add_parent_to_namedexpr'] = lambda it, f, a, k: policy.calls.append(('add_parent_to_namedexpr', a[0], None))
        interp.call(interp.wrap(mod.add_parent), [root, enclosing], {})
        pruned.update(interp.pruned)
        rd = ctx.data(root)
        ctx.check(name + '/node-records-the-namespace-it-was-given', rd.fields.get('namespace') == enclosing, kind='post')
        kinds = rd.tags
        is_ns = kinds <= NAMESPACE_TAGS
        not_ns = not (kinds & NAMESPACE_TAGS)
        ctx.check(name + '/cover-class-is-decided', is_ns or not_ns, kind='cover', detail=repr(sorted(kinds))[:100])
        if is_ns:
            ok = all(isinstance(rd.fields.get(f), Obj) and ctx.data(rd.fields[f]).kind in ('list', 'set') and
                     (ctx.data(rd.fields[f]).items in ([], set())) for f in ('bindings', 'global_names', 'nonlocal_names'))
            ctx.check(name + '/namespace-nodes-start-with-empty-binding-tables', ok, kind='post')
        for nm, child, ns in policy.calls:
            if nm == 'add_parent_to_namedexpr':
                ctx.check(name + '/assignment-expressions-use-their-own-rule', child == root and kinds == {'NamedExpr'}, kind='post')
                continue
            if nm == 'add_parent_to_arguments':
                ctx.check(name + '/parameters-are-mapped-with-the-function-as-their-namespace', ns == root and child == rd.fields.get('args'), kind='post')
                continue
            cd = ctx.data(child) if isinstance(child, Obj) else None
            if cd is None or cd.origin is None:
                continue
            parent, field, idx = cd.origin
            if parent != root:
                pd = ctx.data(parent)
                if pd.tags == {'comprehension'} and pd.origin and pd.origin[0] == root:
                    # children of a generator clause of the comprehension `root`
                    if field == 'iter':
                        want = enclosing if policy.first_generator else root
                        ctx.check(name + '/first-iterable-in-the-enclosing-namespace-later-ones-inside', ns == want, kind='post',
                                  detail='generator is %s, iterable mapped to %r' % ('the first' if policy.first_generator else 'a later one', ns))
                    else:
                        ctx.check(name + '/comprehension-targets-and-conditions-inside-the-comprehension', ns == root, kind='post', detail='%s -> %r' % (field, ns))
                continue
            if len(kinds) != 1 and not not_ns and not (kinds <= {'FunctionDef', 'AsyncFunctionDef'}) and not (kinds <= COMP):
                continue
            if not_ns:
                if 'NamedExpr' in kinds and kinds == {'NamedExpr'}:
                    continue     # verified in its own task
                ctx.check(name + '/ordinary-nodes-pass-their-namespace-on-to-every-child', ns == enclosing, kind='post',
                          detail='child mapped to %r' % (ns,))
                continue
            K = sorted(kinds)[-1] if not kinds <= COMP else ('DictComp' if kinds == {'DictComp'} else 'ListComp')
            sp = spec_scope(K, field if field != '<child>' else 'body')
            if K == 'Module' or (field == '<child>'):
                ctx.check(name + '/children-of-a-plain-namespace-node-live-in-it', ns == root, kind='post')
                continue
            if sp == OWN:
                ctx.check(name + '/%s.%s-in-the-new-namespace' % (K, field), ns == root, kind='post', detail='mapped to %r' % (ns,))
            elif sp == ENCLOSING:
                ctx.check(name + '/%s.%s-in-the-enclosing-namespace' % (K, field), ns == enclosing, kind='post', detail='mapped to %r' % (ns,))
            elif sp == ANNOTATION_SCOPE:
                # language reference 4.2.2 / PEP 695: type parameters are bound in an annotation scope that only the generic definition sees;
                # they are NOT names of the namespace the definition sits in
                ctx.check(name + '/%s.%s-not-bound-in-the-enclosing-namespace' % (K, field), ns != enclosing, kind='post',
                          detail='type parameters mapped to %r, the namespace that contains the generic definition: a read of the same name next to the '
                                 'definition resolves to the type parameter' % (ns,))
            elif sp is None:
                ctx.check(name + '/%s.%s-has-a-scoping-rule' % (K, field), False, kind='total')
        # global / nonlocal declarations are recorded on the namespace the statement sits in
        if kinds == {'Global'} or kinds == {'Nonlocal'}:
            which = 'global_names' if kinds == {'Global'} else 'nonlocal_names'
            rec = ctx.data(ctx.data(enclosing).fields[which]).extra.get('sym_items', [])
            ctx.check(name + '/%s-declarations-are-recorded-on-their-namespace' % which[:-6], rec == [('update', rd.fields.get('names'))], kind='post',
                      detail=repr(rec))
            other = 'nonlocal_names' if kinds == {'Global'} else 'global_names'
            ctx.check(name + '/%s-declarations-do-not-touch-the-other-table' % which[:-6],
                      not ctx.data(ctx.data(enclosing).fields[other]).extra.get('sym_items'), kind='frame')
    ex = Explorer(max_paths=3000)
    ex.explore(run)
    return _finish(ex, name, [source.describe(MP + ':' + f) for f in ('add_parent', 'add_parent_to_functiondef', 'add_parent_to_classdef',
                                                                       'add_parent_to_comprehension', 'add_parent_to_namedexpr', 'namedexpr_namespace')], pruned)


def _finish(ex, name, fns, pruned=()):
    res = result([o.to_json() for o in ex.obligations], fns, ASSUMPTIONS, pruned=sorted(pruned))
    if ex.undecided_reason:
        res['obligations'].append({'name': name + '/engine', 'status': 'undecided', 'detail': ex.undecided_reason, 'model': {}, 'time_s': 0,
                                   'backend': 'engine', 'path': None, 'kind': 'engine', 'goal': None})
    ok = len([p for p in ex.paths if p[0] == 'ok'])
    res['notes'].append('%s: %d feasible paths' % (name, ok))
    if ok == 0 and not ex.undecided_reason:
        res['obligations'].append({'name': name + '/cover', 'status': 'undecided', 'detail': 'vacuous', 'model': {}, 'time_s': 0,
                                   'backend': 'engine', 'path': None, 'kind': 'cover', 'goal': None})
    return res


def task_arguments():
    """add_parent_to_arguments: parameter nodes in the function's namespace; annotations and defaults in the enclosing one."""
    mod = source.import_module(MP)
    name = 'C03/mapper.add_parent_to_arguments'
    pruned = set()

    def run(ctx):
        policy = ScopePolicy()
        interp = Interp(ctx, policy=policy)
        root = ctx.new_node({'arguments'}, name='root')
        install(interp, policy, ctx, root)
        func = ctx.new_node({'FunctionDef', 'AsyncFunctionDef', 'Lambda'}, name='func')
        enclosing = ctx.new_node(NAMESPACE_TAGS, name='enclosing')
        ctx.data(func).fields['namespace'] = enclosing
        interp.call(interp.wrap(mod.add_parent_to_arguments), [root, func], {})
        pruned.update(interp.pruned)
        ctx.check(name + '/arguments-node-belongs-to-the-function', ctx.data(root).fields.get('namespace') == func, kind='post')
        seen = set()
        for nm, child, ns in policy.calls:
            cd = ctx.data(child)
            parent, field, idx = cd.origin
            if parent == root:
                seen.add(field)
                if field in ('posonlyargs', 'args', 'kwonlyargs', 'vararg', 'kwarg'):
                    ctx.check(name + '/%s-are-bound-in-the-function' % field, ns == func, kind='post', detail='mapped to %r' % (ns,))
                elif field in ('defaults', 'kw_defaults'):
                    ctx.check(name + '/%s-are-evaluated-in-the-enclosing-namespace' % field, ns == enclosing, kind='post', detail='mapped to %r' % (ns,))
                else:
                    ctx.check(name + '/%s-has-a-scoping-rule' % field, False, kind='total')
            else:
                pd = ctx.data(parent)
                if pd.tags == {'arg'} and field == 'annotation':
                    ctx.check(name + '/annotations-are-evaluated-in-the-enclosing-namespace', ns == enclosing, kind='post',
                              detail='annotation of %s mapped to %r' % (pd.origin[1] if pd.origin else '?', ns))
        # every annotation that exists must have been remapped to the enclosing namespace AFTER the generic walk of the parameter
        for fld in ('vararg', 'kwarg'):
            a = ctx.data(root).fields.get(fld)
            if isinstance(a, Obj):
                ann = ctx.data(a).fields.get('annotation', 'unread')
                if ann == 'unread':
                    ctx.check(name + '/%s-annotation-is-looked-at' % fld, False, kind='post',
                              detail='the annotation of the %s parameter is never given the enclosing namespace' % fld)
                elif isinstance(ann, Obj):
                    last = [ns for nm, child, ns in policy.calls if child == ann]
                    ctx.check(name + '/%s-annotation-ends-up-in-the-enclosing-namespace' % fld, bool(last) and last[-1] == enclosing, kind='post',
                              detail=repr(last))
    ex = Explorer(max_paths=4000)
    ex.explore(run)
    return _finish(ex, name, [source.describe(MP + ':add_parent_to_arguments')], pruned)


def task_namedexpr():
    mod = source.import_module(MP)
    name = 'C03/mapper.namedexpr'

    def run(ctx):
        policy = ScopePolicy()
        interp = Interp(ctx, policy=policy)
        root = ctx.new_node({'NamedExpr'}, name='root')
        install(interp, policy, ctx, root)
        ns0 = ctx.new_node(NAMESPACE_TAGS, name='ns0')
        ns1 = ctx.new_node(NAMESPACE_TAGS, name='ns1')
        ns2 = ctx.new_node(NAMESPACE_TAGS - COMP, name='ns2')
        ctx.data(ns0).fields['namespace'] = ns1
        ctx.data(ns1).fields['namespace'] = ns2
        ctx.data(root).fields['namespace'] = ns0
        interp.call(interp.wrap(mod.add_parent_to_namedexpr), [root], {})
        d0, d1 = ctx.data(ns0), ctx.data(ns1)
        comp = lambda d: z3.Or([d.tagvar == tag_const(t) for t in sorted(COMP)])
        for nm, child, ns in policy.calls:
            field = ctx.data(child).origin[1]
            if field == 'value':
                ctx.check(name + '/value-is-evaluated-where-the-expression-stands', ns == ns0, kind='post')
            elif field == 'target':
                want = z3.If(z3.Not(comp(d0)), 0, z3.If(z3.Not(comp(d1)), 1, 2))
                got = {ns0.id: 0, ns1.id: 1, ns2.id: 2}.get(ns.id if isinstance(ns, Obj) else None)
                ctx.check(name + '/target-binds-in-the-nearest-namespace-that-is-not-a-comprehension', want == got if got is not None else False, kind='post',
                          detail='target mapped to %r' % (ns,))
    ex = Explorer()
    ex.explore(run)
    return _finish(ex, name, [source.describe(MP + ':add_parent_to_namedexpr'), source.describe(MP + ':namedexpr_namespace')])
