"""Contracts for token_printer.py (C02 layers L1 and L3, C08 no-raise): the real method bodies are executed with a symbolic
`previous_token`, a symbolic code prefix and symbolic arguments.

L1 (tokens never merge): a separating space is emitted whenever the previous token ends in an identifier character and the new token
starts with one (spec `needs_space`), the token text is appended unchanged, and `previous_token` is set to the class of the new token.
L3 (literals): integer() prints repr(v) or hex(v) and never raises; floatnumber() is analysed by a partition of the image of
repr(float) into shapes with symbolic digit strings of any length: its output is always a float literal (never an int literal or a
name) with the sign of the value.
"""
import ast as pyast
import re

import z3

from pyvc import source
from pyvc.engine import (ExcVal, Explorer, Native, NativeMethod, Obj, Opaque, Raised, SymStr, Undecided, mkstr)
from pyvc.interp import PROCEED, Interp, Policy
from pyvc.runner import result

TP = 'python_minifier.token_printer'
IDENT, KEYWORD, SOFT, NUMBER, NONNUM, DELIM, OPER, NEWLINE, ENDSTMT = 1, 2, 3, 4, 5, 6, 7, 8, 9
SOFT_KEYWORDS = ('_', 'case', 'match', 'type')

ASSUMPTIONS = [
    'lexical oracle (language reference 2.3-2.6): two adjacent tokens merge when the first ends and the second starts with an '
    'identifier character (letter, digit, underscore, non-ASCII identifier character); string prefixes are letters',
    'repr(str) starts with a quote character; repr(bytes) starts with the letter b; repr(int) and hex(int) are integer literals denoting the '
    'same value; repr(int) raises ValueError exactly above the interpreter digit limit; hex never raises',
    'repr(float) of a finite float has one of the shapes [-]0.D, [-]0.0, [-]N.0, [-]N.D, [-]d e(+|-)XX, [-]d.D e(+|-)XX with N = [1-9][0-9]*, '
    'D = [0-9]*[1-9], XX = at least two digits; inf prints as inf/-inf; NaN constants are never produced by the parser or the folder',
    're.match semantics for the pattern ^(\\d+?)(0+).0$ as translated in contracts/tokens.py (lazy first group, greedy zeros, unescaped dot)',
    'grammar adjacency: an operand token (name, number, string) is never immediately followed by another operand token, so literal '
    'printers need no space after a NumberLiteral (not proved; covered by the bounded enumeration)',
    'value preservation of the float spellings (e+ -> e, dN0..0.0 -> dNek, dropped leading/trailing zero) is NOT proved: bounded float sweep only',
]


def tp_module():
    return source.import_module(TP)


def whitelist(method):
    """The literal list of the `assert x in [...]` in keyword/delimiter/operator, read from the real source."""
    fi, node = source.find_def('%s:TokenPrinter.%s' % (TP, method))
    for n in pyast.walk(node):
        if isinstance(n, pyast.Assert) and isinstance(n.test, pyast.Compare) and isinstance(n.test.comparators[0], pyast.List):
            return [e.value for e in n.test.comparators[0].elts]
    return None


class TokenPolicy(Policy):
    def __init__(self):
        self.axioms = {}
        self.shape = None
        self.regex_of = {}

    def call_builtin(self, interp, py, args, kwargs):
        ctx = interp.ctx
        v = args[0] if args else None
        if py is repr and isinstance(v, Opaque):
            if v.sort == 'strval':
                return SymStr((Opaque('repr_of_str', (v,), sort='str'),))
            if v.sort == 'bytesval':
                return SymStr((Opaque('repr_of_bytes', (v,), sort='str'),))
            if v.sort == 'complexval':
                return z3.String('repr_complex')
            if v.sort == 'floatval':
                return self.float_repr(interp)
        if py is repr and z3.is_expr(v) and z3.is_int(v):
            if ctx.branch(z3.Bool('repr_exceeds_digit_limit')):
                raise Raised(ExcVal(ValueError, ('Exceeds the limit (4300 digits) for integer string conversion',)))
            return SymStr((Opaque('repr_int', (v,), sort='str'),))
        if py is hex and z3.is_expr(v):
            return SymStr((Opaque('hex_int', (v,), sort='str'),))
        if py is str and z3.is_expr(v) and z3.is_int(v):
            # axiom: the decimal text of a non-negative integer is a non-empty digit string (which integer is not needed here)
            t = z3.String(ctx.fresh('itos'))
            self.regex_of[t.decl().name()] = 'I'
            ctx.assume(z3.InRe(t, z3.Plus(z3.Range('0', '9'))))
            return t
        return PROCEED

    def str_equal(self, interp, a, b):
        sym, lit = (a, b) if isinstance(a, SymStr) else (b, a)
        if isinstance(sym, SymStr) and isinstance(lit, str):
            has_digit_var = any(z3.is_expr(p) and (p.decl().name() in self.regex_of or p.decl().kind() == z3.Z3_OP_INT_TO_STR) for p in sym.parts)
            if has_digit_var and not any(ch.isdigit() for ch in lit):
                return False      # a non-empty digit string is part of the text, the literal has no digit
            for p in sym.parts:
                if isinstance(p, str) and p not in lit:
                    return False
        return PROCEED

    def isinstance_opaque(self, interp, v, pycls):
        if v.sort == 'floatval':
            return issubclass(float, pycls)
        if v.sort == 'complexval':
            return issubclass(complex, pycls)
        return PROCEED

    def length(self, interp, v):
        if isinstance(v, SymStr) and len(v.parts) == 1 and isinstance(v.parts[0], Opaque) and v.parts[0].name in ('repr_of_str', 'repr_of_bytes'):
            n = z3.Int('len_' + repr(v.parts[0]))
            interp.ctx.assume(n >= 2)        # axiom: a repr of str/bytes has at least its two quotes
            return n
        return PROCEED

    def getitem(self, interp, v, idx):
        if isinstance(v, SymStr):
            if idx == 0 and v.parts and isinstance(v.parts[0], Opaque):
                return Opaque('char0', (v.parts[0],), sort='str')
            r = slice_symstr(v, idx)
            if r is not None:
                return r
        return PROCEED

    def str_method(self, interp, recv, name, args, kwargs):
        if isinstance(recv, Opaque) and recv.name == 'char0' and name == 'isalpha':
            src = recv.args[0]
            if src.name == 'repr_of_str':
                return False          # axiom: repr(str) starts with a quote
            if src.name == 'repr_of_bytes':
                return True           # axiom: repr(bytes) starts with b
        if isinstance(recv, (SymStr, str)) and name == 'replace' and len(args) == 2 and all(isinstance(a, str) for a in args):
            parts = []
            for p in (recv.parts if isinstance(recv, SymStr) else (recv,)):
                if isinstance(p, str):
                    parts.append(p.replace(args[0], args[1]))
                elif z3.is_expr(p) and p.decl().name() in self.regex_of:
                    parts.append(p)   # a digit string cannot contain the searched text
                else:
                    raise Undecided('replace on %r' % (p,))
            # the searched text must not straddle a part boundary: it starts with a non-digit ('e+') while variable parts are digits
            if args[0][0].isdigit() or args[0][-1].isdigit():
                raise Undecided('replace of a text that could straddle digit strings')
            return mkstr(parts)
        if isinstance(recv, SymStr) and name in ('startswith', 'endswith') and len(args) == 1 and isinstance(args[0], str):
            r = affix_symstr(recv, name, args[0], self)
            if r is not None:
                return r
        if isinstance(recv, Opaque) and recv.name == 'match' and name == 'group':
            return recv.args[args[0]]
        return PROCEED

    # -- repr(float): partition of the image into shapes ------------------------------------------------------------------------------
    def digits(self, ctx, name, kind):
        v = z3.String(name)
        self.regex_of[name] = kind
        d = z3.Range('0', '9')
        nz = z3.Range('1', '9')
        if kind == 'N':        # [1-9][0-9]*
            ctx.assume(z3.InRe(v, z3.Concat(nz, z3.Star(d))))
        elif kind == 'D':      # [0-9]*[1-9]
            ctx.assume(z3.InRe(v, z3.Concat(z3.Star(d), nz)))
        elif kind == 'd':      # [1-9]
            ctx.assume(z3.InRe(v, nz))
        elif kind == 'XX':     # two or more digits
            ctx.assume(z3.InRe(v, z3.Concat(d, z3.Plus(d))))
        return v

    def float_repr(self, interp):
        ctx = interp.ctx
        shapes = ['inf', '-inf', '0.D', '0.0', 'N.0', 'N.D', 'de', 'd.De']
        i = ctx.choose(len(shapes), 'float_shape')
        sh = shapes[i]
        self.shape = sh
        if sh in ('inf', '-inf'):
            self.sign = '-' if sh == '-inf' else ''
            return sh
        self.sign = '-' if ctx.branch(z3.Bool('float_negative')) else ''
        sg = self.sign
        if sh == '0.D':
            return mkstr([sg + '0.', self.digits(ctx, 'D2', 'D')])
        if sh == '0.0':
            return sg + '0.0'
        if sh == 'N.0':
            return mkstr([sg, self.digits(ctx, 'D1', 'N'), '.0'])
        if sh == 'N.D':
            return mkstr([sg, self.digits(ctx, 'D1', 'N'), '.', self.digits(ctx, 'D2', 'D')])
        es = '+' if ctx.branch(z3.Bool('exp_positive')) else '-'
        if sh == 'de':
            return mkstr([sg, self.digits(ctx, 'M1', 'd'), 'e' + es, self.digits(ctx, 'EE', 'XX')])
        return mkstr([sg, self.digits(ctx, 'M1', 'd'), '.', self.digits(ctx, 'M2', 'D'), 'e' + es, self.digits(ctx, 'EE', 'XX')])


def slice_symstr(v, idx):
    """s[1:], s[2:], s[:-1] on a part list whose first / last part is a long enough concrete string."""
    if not isinstance(idx, slice) or idx.step is not None:
        return None
    parts = list(v.parts)
    lo, hi = idx.start, idx.stop
    if isinstance(lo, int) and lo >= 0 and hi is None:
        if isinstance(parts[0], str) and len(parts[0]) >= lo:
            return mkstr([parts[0][lo:]] + parts[1:])
        return None
    if lo is None and isinstance(hi, int) and hi < 0:
        if isinstance(parts[-1], str) and len(parts[-1]) >= -hi:
            return mkstr(parts[:-1] + [parts[-1][:hi]])
        return None
    return None


FIRST = {'N': '123456789', 'D': '0123456789', 'd': '123456789', 'XX': '0123456789', 'Z': '0', 'I': '0123456789'}
LAST = {'N': '0123456789', 'D': '123456789', 'd': '123456789', 'XX': '0123456789', 'Z': '0', 'I': '0123456789'}


def affix_symstr(v, name, lit, policy):
    """startswith / endswith decided from the concrete first / last part and the character classes of the digit-string parts;
    None when it cannot be decided structurally."""
    parts = list(v.parts)

    def kind(p):
        if z3.is_expr(p) and p.decl().kind() == z3.Z3_OP_INT_TO_STR:
            return 'XX'     # the decimal text of a non-negative integer: digits only
        return policy.regex_of.get(p.decl().name()) if z3.is_expr(p) and p.decl().arity() == 0 else None
    if name == 'startswith':
        p = parts[0]
        if isinstance(p, str):
            if len(p) >= len(lit):
                return p.startswith(lit)
            if not lit.startswith(p):
                return False
            nxt = parts[1] if len(parts) > 1 else None
            k = kind(nxt) if nxt is not None else None
            if k and lit[len(p)] not in FIRST[k]:
                return False
            return None
        k = kind(p)
        if k and lit[0] not in FIRST[k]:
            return False
        return None
    return _endswith(parts, lit, kind)


def _endswith(parts, lit, kind):
    if lit == '':
        return True
    if not parts:
        return False
    p = parts[-1]
    if isinstance(p, str):
        if len(p) >= len(lit):
            return p.endswith(lit)
        if not lit.endswith(p):
            return False
        return _endswith(parts[:-1], lit[:-len(p)], kind)
    k = kind(p)
    if not k:
        return None
    alphabet = set(FIRST[k]) | set(LAST[k]) | (set('0123456789') if k != 'Z' else set('0'))
    if lit[-1] not in LAST[k]:
        return False
    run = 0
    while run < len(lit) and lit[-1 - run] in alphabet:
        run += 1
    if run == len(lit):
        return None
    # the character before the trailing run is outside the part's alphabet: the part must be exactly that run
    rest = _endswith(parts[:-1], lit[:-run], kind)
    if rest is False:
        return False
    return None


FLOAT_PATTERN = r'^(\d+?)(0+).0$'


def install_re_match(interp, policy):
    def re_match(it, args, kwargs):
        ctx = it.ctx
        pat, s = args[0], args[1]
        if pat != FLOAT_PATTERN:
            raise Undecided('re.match with a pattern that has no translation: %r' % (pat,))
        # s = G1 Z x '0' with G1 in \d+ (lazy), Z in 0+ (greedy), x any character.  Over the repr(float) shapes:
        sh = policy.shape
        if isinstance(s, str):
            m = re.match(pat, s)
            if m is None:
                return None
            return Opaque('match', (m.group(0), m.group(1), m.group(2)), sort='notnone')
        if sh == 'N.0' and policy.sign == '' and isinstance(s, SymStr) and len(s.parts) == 2 and s.parts[1] == '.0':
            d1 = s.parts[0]
            ends0 = z3.SuffixOf(z3.StringVal('0'), d1)
            if not ctx.branch(ends0):
                return None
            g1 = z3.String('G1')
            z = z3.String('Z')
            policy.regex_of['G1'] = 'D'
            policy.regex_of['Z'] = 'Z'
            d = z3.Range('0', '9')
            ctx.assume(d1 == z3.Concat(g1, z))
            ctx.assume(z3.InRe(z, z3.Plus(z3.Re('0'))))
            ctx.assume(z3.InRe(g1, z3.Concat(z3.Star(d), z3.Range('1', '9'))))
            return Opaque('match', (s, g1, z), sort='notnone')
        # every other shape: a sign, a dot or an exponent marker follows the first digits before any run of zeros that ends two
        # characters before the end (see ASSUMPTIONS: translation of the pattern)
        if sh in ('0.D', 'N.D', 'de', 'd.De', '0.0') or policy.sign == '-':
            return None
        raise Undecided('re.match on unknown shape %r' % (sh,))
    interp.natives[re.match] = re_match


def new_printer(interp, ctx):
    tp = tp_module()
    p = interp.instantiate(tp.TokenPrinter, [], {})
    d = ctx.data(p)
    pt = z3.Int('prev_token')
    ctx.assume(z3.And(pt >= 0, pt <= 9))
    d.fields['previous_token'] = pt
    d.fields['_code'] = SymStr((Opaque('code0', sort='str'),))
    ind = z3.Int('indent0')
    ctx.assume(ind >= 0)
    d.fields['indent'] = ind
    return p, pt


def appended(ctx, p):
    code = ctx.data(p).fields['_code']
    parts = list(code.parts) if isinstance(code, SymStr) else [code]
    if not parts or not (isinstance(parts[0], Opaque) and parts[0].name == 'code0'):
        return None
    return parts[1:]


def task_method(method):
    tp = tp_module()
    pruned = set()
    prefix = 'C02/L1/TokenPrinter.%s' % method
    wl = whitelist(method)

    def run(ctx):
        policy = TokenPolicy()
        interp = Interp(ctx, policy=policy)
        install_re_match(interp, policy)
        p, pt = new_printer(interp, ctx)
        idlike3 = z3.Or(pt == IDENT, pt == KEYWORD, pt == SOFT)
        idlike4 = z3.Or(idlike3, pt == NUMBER)
        if method in ('identifier',):
            arg = z3.String('name')
            ctx.assume(z3.Length(arg) > 0)
            need, newtype = idlike4, IDENT
        elif method == 'keyword':
            arg = z3.String('kw')
            need, newtype = idlike4, None
        elif method in ('delimiter', 'operator'):
            arg = z3.String('text')
            need, newtype = z3.BoolVal(False), DELIM if method == 'delimiter' else OPER
        elif method == 'stringliteral':
            arg = Opaque('value', sort='strval')
            need, newtype = z3.BoolVal(False), NONNUM
        elif method == 'bytesliteral':
            arg = Opaque('value', sort='bytesval')
            need, newtype = idlike3, NONNUM
        elif method == 'fstring':
            arg = z3.String('ftext')
            ctx.assume(z3.PrefixOf(z3.StringVal('f'), arg))
            need, newtype = idlike3, NONNUM
        elif method == 'integer':
            arg = z3.Int('v')
            ctx.assume(arg >= 0)
            need, newtype = idlike3, NUMBER
        elif method == 'imagnumber':
            arg = Opaque('value', sort='complexval')
            need, newtype = idlike3, NUMBER
        elif method == 'floatnumber':
            arg = Opaque('value', sort='floatval')
            need, newtype = idlike3, NUMBER
        else:
            raise Undecided('no contract for %s' % method)
        f = interp.getattr(p, method)
        raised = None
        try:
            interp.call(f, [arg], {})
        except Raised as e:
            raised = e.exc
        pruned.update(interp.pruned)
        if method in ('keyword', 'delimiter', 'operator'):
            inlist = z3.Or([arg == z3.StringVal(x) for x in wl])
            if raised is not None:
                ctx.check(prefix + '/rejects-only-unknown-tokens', z3.Not(inlist) if raised.cls is AssertionError else False, kind='noraise',
                          detail='raised %r' % (raised,))
                return
            ctx.check(prefix + '/accepts-only-listed-tokens', inlist, kind='post')
        else:
            ctx.check('C08/noraise/TokenPrinter.%s' % method, raised is None, kind='noraise', detail='raised %r' % (raised,))
            if raised is not None:
                return
        parts = appended(ctx, p)
        ctx.check(prefix + '/appends-to-the-code', parts is not None and len(parts) >= 1, kind='post', detail=repr(parts))
        if not parts:
            return
        has_space = isinstance(parts[0], str) and parts[0].startswith(' ')
        text_parts = list(parts)
        if has_space:
            text_parts[0] = text_parts[0][1:]
            if text_parts[0] == '':
                text_parts = text_parts[1:]
        ctx.check(prefix + '/space-when-tokens-would-merge', z3.BoolVal(has_space) == need if method != 'floatnumber' and method != 'imagnumber'
                  else z3.Implies(need, z3.BoolVal(has_space)), kind='post',
                  detail='space emitted: %s; required iff the previous token ends in an identifier character' % has_space)
        newpt = ctx.data(p).fields['previous_token']
        if method == 'keyword':
            soft = z3.Or([arg == z3.StringVal(x) for x in SOFT_KEYWORDS])
            want = z3.If(soft, SOFT, KEYWORD)
            got = newpt if z3.is_expr(newpt) else z3.IntVal(newpt)
            ctx.check(prefix + '/records-token-class', got == want, kind='post', detail='previous_token becomes %r' % (newpt,))
        else:
            ctx.check(prefix + '/records-token-class', newpt == newtype if not z3.is_expr(newpt) else False, kind='post',
                      detail='previous_token becomes %r' % (newpt,))
        text = mkstr(text_parts)
        if method in ('identifier', 'keyword', 'delimiter', 'operator', 'fstring'):
            t1 = text.parts[0] if isinstance(text, SymStr) and len(text.parts) == 1 else text
            ok = z3.is_expr(t1) and t1.eq(arg)
            ctx.check(prefix + '/prints-exactly-its-argument', bool(ok), kind='post', detail='appended %r' % (text,))
        if method in ('stringliteral', 'bytesliteral'):
            nm = 'repr_of_str' if method == 'stringliteral' else 'repr_of_bytes'
            ok = isinstance(text, SymStr) and len(text.parts) == 1 and isinstance(text.parts[0], Opaque) and text.parts[0].name == nm \
                and text.parts[0].args[0] is arg
            ctx.check('C02/L3/TokenPrinter.%s/prints-repr-of-the-value' % method, bool(ok), kind='post', detail='appended %r' % (text,))
        if method == 'integer':
            ok = isinstance(text, SymStr) and len(text.parts) == 1 and isinstance(text.parts[0], Opaque) and \
                text.parts[0].name in ('repr_int', 'hex_int', 'hex') and text.parts[0].args[0] is arg
            ctx.check('C02/L3/TokenPrinter.integer/prints-repr-or-hex-of-the-value', bool(ok), kind='post', detail='appended %r' % (text,))
        if method == 'floatnumber':
            check_float_text(ctx, interp, policy, text)
    ex = Explorer()
    ex.explore(run)
    res = result([o.to_json() for o in ex.obligations], [source.describe('%s:TokenPrinter.%s' % (TP, method))], ASSUMPTIONS,
                 pruned=sorted(pruned))
    if ex.undecided_reason:
        res['obligations'].append({'name': prefix + '/engine', 'status': 'undecided', 'detail': ex.undecided_reason, 'model': {}, 'time_s': 0,
                                   'backend': 'engine', 'path': None, 'kind': 'engine', 'goal': None})
    ok = len([p for p in ex.paths if p[0] == 'ok'])
    res['notes'].append('%s: %d feasible paths' % (prefix, ok))
    if ok == 0:
        res['obligations'].append({'name': prefix + '/cover', 'status': 'undecided', 'detail': 'vacuous', 'model': {}, 'time_s': 0,
                                   'backend': 'engine', 'path': None, 'kind': 'cover', 'goal': None})
    return res


def float_literal_re():
    d = z3.Range('0', '9')
    digits = z3.Plus(d)
    exp = z3.Concat(z3.Re('e'), z3.Option(z3.Union(z3.Re('-'), z3.Re('+'))), digits)
    pointfloat = z3.Union(z3.Concat(z3.Star(d), z3.Re('.'), digits), z3.Concat(digits, z3.Re('.')))
    return z3.Concat(z3.Option(z3.Re('-')), z3.Union(z3.Concat(pointfloat, z3.Option(exp)), z3.Concat(digits, exp)))


def check_float_text(ctx, interp, policy, text):
    """The text printed for a float is a float literal (contains a point or an exponent), never an integer literal or a name, and
    carries the sign of the value."""
    name = 'C02/L3/TokenPrinter.floatnumber'
    try:
        zt = interp.to_z3(text)
    except Undecided as e:
        ctx.check(name + '/is-a-float-literal', False, detail='printed text has an uninterpreted part: %r' % (text,))
        return
    ctx.check(name + '/is-a-float-literal', z3.InRe(zt, float_literal_re()), kind='post',
              detail='shape %s sign %r printed as %r' % (policy.shape, policy.sign, text))
    neg = z3.PrefixOf(z3.StringVal('-'), zt)
    ctx.check(name + '/keeps-the-sign', neg if policy.sign == '-' else z3.Not(neg), kind='post', detail='shape %s printed as %r' % (policy.shape, text))
    # structure: the significant digits of the value appear unchanged in the text (value preservation itself is bounded-only)
    keep = [p for p in ('D1', 'D2', 'M1', 'M2', 'EE') if p in policy.regex_of and policy.regex_of[p] != 'I']
    sx = zt.sexpr()
    missing = [p for p in keep if p not in sx and not (p == 'D1' and 'G1' in sx)]
    ctx.check(name + '/keeps-every-digit-string-of-the-repr', not missing, kind='post',
              detail='digit strings %r of shape %s do not occur in %r' % (missing, policy.shape, text))


def task_callsites():
    """no-raise of the whitelist asserts: every literal passed to keyword/delimiter/operator anywhere in the package is listed."""
    obs = []
    seen_names = set()
    lists = dict((m, whitelist(m)) for m in ('keyword', 'delimiter', 'operator'))
    fns = []
    for path in source.all_package_files():
        fi = source.file_info(path)
        rel = path[len(source.SRC) + 1:]

        def where(n):
            # the enclosing function (names stay stable when unrelated lines are added to the file; the line goes into the detail)
            best = '<module>'
            for q, d in fi.by_qual.items():
                if isinstance(d, (pyast.FunctionDef, pyast.AsyncFunctionDef)) and d.lineno <= n.lineno <= d.end_lineno and (best == '<module>' or len(q) > len(best)):
                    best = q
            return '%s:%s' % (rel[:-3].replace('python_minifier/', ''), best)
        for n in pyast.walk(fi.tree):
            if isinstance(n, pyast.Call) and isinstance(n.func, pyast.Attribute) and n.func.attr in lists and n.args:
                recv = pyast.unparse(n.func.value)
                if 'printer' not in recv:
                    continue
                a = n.args[0]
                if isinstance(a, pyast.Constant) and isinstance(a.value, str):
                    ok = a.value in lists[n.func.attr]
                    name = 'C08/noraise/%s/%s(%r)-is-a-listed-token' % (where(n), n.func.attr, a.value)
                    if name not in seen_names:
                        seen_names.add(name)
                        obs.append(_ob(name, ok, 'literal %r at line %d' % (a.value, n.lineno)))
                else:
                    src = pyast.unparse(a)
                    if src in ('repr(node.value)', 'self._delimiter', 'd', 'kw', 'o'):
                        continue     # covered by the L3 dispatch contract / Delimiter constructor scan / the method's own parameter
                    obs.append(_ob('C08/noraise/%s/%s-argument-is-a-literal' % (where(n), n.func.attr), False, 'non-literal argument %s at line %d' % (src, n.lineno)))
            if isinstance(n, pyast.Call) and isinstance(n.func, pyast.Name) and n.func.id == 'Delimiter':
                for k in n.keywords:
                    if k.arg == 'delimiter':
                        ok = isinstance(k.value, pyast.Constant) and k.value.value in lists['delimiter']
                        name = 'C08/noraise/%s/Delimiter-separator(%s)-is-listed' % (where(n), pyast.unparse(k.value))
                        if name not in seen_names:
                            seen_names.add(name)
                            obs.append(_ob(name, ok, '%s at line %d' % (pyast.unparse(k.value), n.lineno)))
    fi, node = source.find_def('%s:Delimiter.__init__' % TP)
    dflt = node.args.defaults[0].value if node.args.defaults else None
    obs.append(_ob('C08/noraise/Delimiter-default-separator-is-listed', dflt in lists['delimiter'], repr(dflt)))
    return result(obs, [source.describe('%s:TokenPrinter.%s' % (TP, m)) for m in lists], ASSUMPTIONS)


def _ob(name, ok, detail=''):
    return {'name': name, 'status': 'proved' if ok else 'refuted', 'detail': detail, 'model': {}, 'time_s': 0.0, 'backend': 'eval',
            'path': None, 'kind': 'noraise', 'goal': None}


METHODS = ('identifier', 'keyword', 'delimiter', 'operator', 'stringliteral', 'bytesliteral', 'fstring', 'integer', 'imagnumber', 'floatnumber')


def task_delimiter():
    """token_printer.Delimiter (used by contract in the printers): as a context manager with add_parens it prints '(' before the first item and ')'
    on exit exactly when an item was printed; between items exactly the separator.  Lemma: the parentheses of a `with Delimiter(...)` group balance."""
    tp = tp_module()
    obs_all = []
    name = 'C02/L4/Delimiter'

    def setup(ctx):
        policy = TokenPolicy()
        interp = Interp(ctx, policy=policy)
        emitted = []
        pr = ctx.new_obj('ns', name='terminal_printer')
        interp.hooks['%s:TokenPrinter.delimiter' % TP] = lambda it, f, a, k: emitted.append(a[1])

        class PP(TokenPolicy):
            def attr(self, it, obj, nm):
                if obj == pr and nm == 'delimiter':
                    return Native(_emit)
                return TokenPolicy.attr(self, it, obj, nm)
        interp.policy = PP()
        interp.natives[_emit] = lambda it, a, k: emitted.append(a[0])
        o = ctx.new_obj('inst', tp.Delimiter, name='group')
        first, cm, parens = z3.Bool('first_before'), z3.Bool('context_manager_before'), z3.Bool('add_parens')
        sep = z3.String('separator')
        ctx.data(o).fields.update({'_terminal_printer': pr, '_delimiter': sep, '_add_parens': parens, '_first': first, '_context_manager': cm})
        return interp, o, emitted, first, cm, parens, sep

    def bz(v):
        return v if z3.is_expr(v) else z3.BoolVal(bool(v))

    def run_new_item(ctx):
        interp, o, emitted, first, cm, parens, sep = setup(ctx)
        interp.call(interp.getattr(o, 'new_item'), [], {})
        d = ctx.data(o)
        ctx.check(name + '.new_item/afterwards-the-group-is-no-longer-empty', z3.Not(bz(d.fields['_first'])), kind='post')
        if emitted == ['(']:
            ctx.check(name + '.new_item/opening-parenthesis-only-before-the-first-item-of-a-parenthesised-context-group', z3.And(first, cm, parens), kind='post')
        elif len(emitted) == 1:
            ctx.check(name + '.new_item/between-items-exactly-the-separator', z3.And(z3.Not(first), z3.BoolVal(emitted[0] is sep or (z3.is_expr(emitted[0]) and emitted[0].eq(sep)))),
                      kind='post', detail=repr(emitted))
        else:
            ctx.check(name + '.new_item/nothing-printed-only-for-the-first-item-of-a-bare-group', z3.And(first, z3.Not(z3.And(cm, parens)), z3.BoolVal(emitted == [])), kind='post',
                      detail=repr(emitted))
        for f in ('_add_parens', '_context_manager', '_delimiter', '_terminal_printer'):
            pass
        ctx.check(name + '.new_item/configuration-is-not-changed', d.fields['_add_parens'] is parens and d.fields['_context_manager'] is cm and d.fields['_delimiter'] is sep, kind='frame')

    def run_exit(ctx):
        interp, o, emitted, first, cm, parens, sep = setup(ctx)
        interp.call(interp.getattr(o, '__exit__'), [None, None, None], {})
        if emitted == [')']:
            ctx.check(name + '.__exit__/closing-parenthesis-only-when-an-item-was-printed-in-a-parenthesised-group', z3.And(z3.Not(first), parens), kind='post')
        else:
            ctx.check(name + '.__exit__/no-closing-parenthesis-only-for-an-empty-or-bare-group', z3.And(z3.Or(first, z3.Not(parens)), z3.BoolVal(emitted == [])), kind='post',
                      detail=repr(emitted))

    def run_enter(ctx):
        interp, o, emitted, first, cm, parens, sep = setup(ctx)
        r = interp.call(interp.getattr(o, '__enter__'), [], {})
        d = ctx.data(o)
        ctx.check(name + '.__enter__/marks-the-group-as-context-managed-and-prints-nothing', z3.And(bz(d.fields['_context_manager']), z3.BoolVal(emitted == [] and r == o)), kind='post')
        ctx.check(name + '.__enter__/leaves-the-rest-alone', d.fields['_first'] is first and d.fields['_add_parens'] is parens, kind='frame')

    def run_init(ctx):
        policy = TokenPolicy()
        interp = Interp(ctx, policy=policy)
        pr = ctx.new_obj('ns', name='terminal_printer')
        o = interp.instantiate(tp.Delimiter, [pr], {'add_parens': z3.Bool('add_parens')})
        d = ctx.data(o)
        ctx.check(name + '.__init__/a-new-group-is-empty-and-not-context-managed', z3.And(bz(d.fields['_first']), z3.Not(bz(d.fields['_context_manager']))), kind='post')
    notes = []
    und = []
    for label, fn in (('new_item', run_new_item), ('__exit__', run_exit), ('__enter__', run_enter), ('__init__', run_init)):
        ex = Explorer()
        ex.explore(fn)
        obs_all += [o.to_json() for o in ex.obligations]
        if ex.undecided_reason:
            und.append((label, ex.undecided_reason))
        notes.append('Delimiter.%s: %d feasible paths' % (label, len([p for p in ex.paths if p[0] == 'ok'])))
    # lemma over the four contracts: in `with Delimiter(p, add_parens=a) as d: d.new_item()*n` the '(' is printed iff the ')' is
    a, n_pos = z3.Bool('add_parens'), z3.Bool('at_least_one_item')
    first0, cm0 = z3.BoolVal(True), z3.BoolVal(False)                    # post of __init__
    first1, cm1 = first0, z3.BoolVal(True)                                # post of __enter__
    opened = z3.If(n_pos, z3.And(first1, cm1, a), z3.BoolVal(False))      # post of the first new_item (later ones print the separator only)
    first_end = z3.If(n_pos, z3.BoolVal(False), first1)                   # post of new_item: the group is no longer empty
    closed = z3.And(z3.Not(first_end), a)                                 # post of __exit__
    s = z3.Solver()
    s.add(opened != closed)
    obs_all.append({'name': name + '/lemma/parentheses-of-a-with-group-balance', 'status': 'proved' if s.check() == z3.unsat else 'refuted',
                    'detail': 'from the contracts of __init__, __enter__, new_item, __exit__', 'model': {}, 'time_s': 0, 'backend': 'z3', 'path': None, 'kind': 'lemma', 'goal': None})
    res = result(obs_all, [source.describe('%s:Delimiter.%s' % (TP, m)) for m in ('__init__', '__enter__', '__exit__', 'new_item')], ASSUMPTIONS, notes=notes)
    for label, why in und:
        res['obligations'].append({'name': '%s.%s/engine' % (name, label), 'status': 'undecided', 'detail': why, 'model': {}, 'time_s': 0, 'backend': 'engine', 'path': None,
                                   'kind': 'engine', 'goal': None})
    return res


def _emit(*a):
    raise RuntimeError('model only')
