"""Contracts for python_minifier.__main__ (C13, C14, C15 and the CLI clause of C10).

Functions under contract: parse_args (argument table + validation tail), do_minify, main, source_modules, stdout_write_bytes.
The 19 boolean flags are free z3 booleans; the run is loop-free in them, so the proof covers the full 2^19 domain.
External behaviour is axiomatised here (argparse actions, os.walk, open, os.environ) and listed in ASSUMPTIONS.
"""
import ast as pyast
import inspect
import os
import sys

import z3

from pyvc import source
from pyvc.engine import (Bound, ExcVal, Explorer, Native, NativeMethod, Obj, Opaque, Raised, SymStr, Undecided, mkstr)
from pyvc.interp import PROCEED, Interp, Policy, SymIter
from pyvc.runner import result
from spec import cli_docs

MAIN = 'python_minifier.__main__'

ASSUMPTIONS = [
    'argparse: store_true/store_false write only their own dest; the value is the stored constant when the flag is present, else '
    '`default=` if given, else the negation of the constant; `append` collects occurrences in command-line order (None when absent); '
    'options of a mutually exclusive group are never both set; nargs="+" yields a non-empty list',
    'os.walk(top, onerror, followlinks) yields (root, dirs, files) with files the non-directory entries of root; os.path.join is a '
    'function of its arguments; os.path.isdir is a predicate of the path',
    'open(p, "wb") truncates p only when it is executed; open(p, "rb").read() has no write effect; file.write(d) writes exactly d',
    'os.environ.get returns None or a str',
    'bytes.encode/len: len() of a bytes object is its byte length (mathematical integers, no overflow)',
    'python_minifier.minify is treated by contract in this group (its result is an uninterpreted str); it is verified in the other groups',
]


def _main_module():
    return source.import_module(MAIN)


def extract_argtable():
    """Mechanical extraction of every add_argument(...) call of the real parse_args: re-done on every run."""
    fi, node = source.find_def(MAIN + ':parse_args')
    table = []
    for n in pyast.walk(node):
        if isinstance(n, pyast.Call) and isinstance(n.func, pyast.Attribute) and n.func.attr == 'add_argument':
            flags = [a.value for a in n.args if isinstance(a, pyast.Constant)]
            kw = {}
            for k in n.keywords:
                try:
                    kw[k.arg] = pyast.literal_eval(k.value)
                except Exception:
                    kw[k.arg] = pyast.unparse(k.value)
            group = pyast.unparse(n.func.value)
            table.append({'flags': flags, 'kw': kw, 'group': group, 'line': n.lineno})
    return table


def effective_default(entry):
    kw = entry['kw']
    act = kw.get('action', 'store')
    if 'default' in kw:
        return kw['default']
    if act == 'store_true':
        return False
    if act == 'store_false':
        return True
    return None


def stored_const(entry):
    return {'store_true': True, 'store_false': False}.get(entry['kw'].get('action'))


def minify_defaults():
    import python_minifier
    sig = inspect.signature(python_minifier.minify)
    return dict((k, p.default) for k, p in sig.parameters.items())


def bool_flags(table):
    out = []
    for e in table:
        if e['kw'].get('action') in ('store_true', 'store_false') and e['kw'].get('dest') not in ('in_place',):
            long = [f for f in e['flags'] if f.startswith('--')]
            if long:
                out.append((long[0], e))
    return out


class Ob(object):
    """Collector for statically evaluated obligations (closed terms, decided by evaluation)."""

    def __init__(self):
        self.items = []

    def add(self, name, ok, detail='', kind='post', replay=None):
        o = {'name': name, 'status': 'proved' if ok else 'refuted', 'detail': detail, 'model': {}, 'time_s': 0.0,
             'backend': 'eval', 'path': None, 'kind': kind, 'goal': None}
        if replay is not None:
            o['replay'] = replay
        self.items.append(o)


def funcs(*specs):
    return [source.describe(s) for s in specs]


# ---------------------------------------------------------------------------------------------------------------------
# task: argument table


def task_argtable():
    ob = Ob()
    table = extract_argtable()
    defaults = minify_defaults()
    from python_minifier.transforms.remove_annotations_options import RemoveAnnotationsOptions
    ann_defaults = dict((f, getattr(RemoveAnnotationsOptions(), f)) for f in cli_docs.ANNOTATION_FIELDS)
    docs, _ = cli_docs.from_docs(source.REPO)
    notes = []
    flags = bool_flags(table)
    dests = {}
    opts_with_flag = set()
    for flag, e in flags:
        opt, val = cli_docs.by_spelling(flag)
        opts_with_flag.add(opt)
        const = stored_const(e)
        ob.add('C13/parse_args/flag%s/stores-documented-value' % flag, const == val,
               'flag %s is spelled as %s=%r but its action stores %r' % (flag, opt, val, const),
               replay={'kind': 'cli', 'flags': [flag]})
        if opt in ann_defaults:
            want = ann_defaults[opt]
        elif opt == 'remove_annotations':
            want = True
        else:
            want = defaults.get(opt)
        ob.add('C13/parse_args/flag%s/absent-means-api-default' % flag, effective_default(e) == want,
               'without %s the namespace holds %r, the API default of %s is %r' % (flag, effective_default(e), opt, want),
               replay={'kind': 'cli', 'flags': []})
        dests.setdefault(e['kw'].get('dest'), []).append(flag)
        if flag in docs and docs[flag] != (opt, val):
            notes.append('documentation note: %s documented as %s=%r, spelling rule gives %s=%r' % ((flag,) + docs[flag] + (opt, val)))
        if flag not in docs:
            hit = [d for d in docs if docs[d] == (opt, val)]
            if hit:
                notes.append('documentation note: %s=%r is documented with the flag %s; the tool accepts %s' % (opt, val, hit[0], flag))
    for d, fl in sorted(dests.items()):
        ob.add('C13/parse_args/dest-%s/single-writer' % d, len(fl) == 1, 'dest %s is written by %s' % (d, fl),
               replay={'kind': 'cli', 'flags': fl})
    for opt, dv in sorted(defaults.items()):
        if isinstance(dv, bool):
            ob.add('C13/parse_args/option-%s/has-flag' % opt, opt in opts_with_flag, 'no flag is spelled for option %s' % opt)
    # preserve lists
    for name in ('preserve_locals', 'preserve_globals'):
        es = [e for e in table if e['kw'].get('dest') == name]
        ok = len(es) == 1 and es[0]['kw'].get('action') == 'append' and es[0]['flags'] == ['--' + name.replace('_', '-')]
        ob.add('C13/parse_args/%s/append-action' % name, ok, repr(es), replay={'kind': 'cli-preserve'})
    # output options
    out = [e for e in table if e['kw'].get('dest') == 'output']
    inp = [e for e in table if e['kw'].get('dest') == 'in_place']
    ob.add('C15/parse_args/output-and-in-place-exclusive',
           len(out) == 1 and len(inp) == 1 and out[0]['group'] == inp[0]['group'] == 'output_options'
           and _is_mutex_group('output_options'), 'output and in_place must be in one mutually exclusive group')
    pe = [e for e in table if e['flags'] == ['path']]
    ob.add('C13/parse_args/path-nargs-plus', len(pe) == 1 and pe[0]['kw'].get('nargs') == '+', repr(pe))
    return result(ob.items, funcs(MAIN + ':parse_args'), ASSUMPTIONS, notes=notes,
                  samples=[{'argument_table': [{'flags': e['flags'], 'dest': e['kw'].get('dest'), 'action': e['kw'].get('action'),
                                                'default': e['kw'].get('default', '<unset>')} for e in table]}])


def _is_mutex_group(varname):
    fi, node = source.find_def(MAIN + ':parse_args')
    for n in pyast.walk(node):
        if isinstance(n, pyast.Assign) and isinstance(n.targets[0], pyast.Name) and n.targets[0].id == varname:
            return isinstance(n.value, pyast.Call) and isinstance(n.value.func, pyast.Attribute) \
                and n.value.func.attr == 'add_mutually_exclusive_group'
    return False


# ---------------------------------------------------------------------------------------------------------------------
# symbolic namespace


def make_namespace(ctx, interp, table):
    """argparse axioms: the Namespace produced by parser.parse_args() for symbolic flags."""
    ns = ctx.new_obj('ns', name='args')
    d = ctx.data(ns)
    flagvars = {}
    for e in table:
        kw = e['kw']
        dest = kw.get('dest')
        act = kw.get('action', 'store')
        if act in ('store_true', 'store_false'):
            long = [f for f in e['flags'] if f.startswith('--')][0]
            fv = z3.Bool('flag' + long)
            flagvars[long] = fv
            const = stored_const(e)
            dflt = effective_default(e)
            if not isinstance(dflt, bool):
                raise Undecided('non-boolean default for %s' % long)
            d.fields[dest] = z3.If(fv, z3.BoolVal(const), z3.BoolVal(dflt))
        elif act == 'append':
            pass   # created lazily: None or a list of occurrences
        elif act == 'store' and dest:
            pass
    d.extra['flagvars'] = flagvars
    d.extra['table'] = table
    return ns, flagvars


class CliPolicy(Policy):
    def __init__(self, ns=None):
        self.ns = ns
        self.events = []
        self.acc = {}           # accumulator list id -> summary entries
        self.absent = set()
        self.strip = z3.Function('py_strip', z3.StringSort(), z3.StringSort())

    # namespace attributes created on demand
    def attr(self, interp, obj, name):
        ctx = interp.ctx
        if isinstance(obj, Obj):
            d = ctx.data(obj)
            if d.kind == 'ns' and d.name == 'args':
                if name in ('preserve_locals', 'preserve_globals'):
                    if ctx.branch(z3.Bool('absent_' + name)):
                        self.absent.add(name)
                        return None
                    lst = ctx.new_obj('list', name='occ_' + name)
                    ld = ctx.data(lst)
                    ld.items = {}
                    ld.symlen = z3.Int('n_' + name)
                    ctx.assume(ld.symlen >= 1)
                    ld.elem_factory = lambda key, name=name: z3.String('%s_arg_%s' % (name, _k(key)))
                    ld.extra['role'] = ('occurrences', name)
                    return lst
                if name == 'output':
                    if ctx.branch(z3.Bool('no_output')):
                        return None
                    s = z3.String('output_path')
                    ctx.assume(z3.Length(s) > 0)
                    return s
                if name == 'in_place':
                    return z3.Bool('in_place')
                if name == 'path':
                    lst = ctx.new_obj('list', name='paths')
                    ld = ctx.data(lst)
                    ld.items = {}
                    ld.symlen = z3.Int('n_paths')
                    ctx.assume(ld.symlen >= 1)
                    ld.elem_factory = lambda key: z3.String('path_%s' % _k(key))
                    ld.extra['role'] = ('paths',)
                    return lst
            if d.kind == 'ns' and d.extra.get('type') in ('file', 'argparser', 'walkentry'):
                return NativeMethod(obj, name)
        return PROCEED

    def contains(self, interp, container, item):
        ctx = interp.ctx
        if isinstance(container, Obj):
            d = ctx.data(container)
            if d.extra.get('role') == ('paths',) and item == '-':
                b = z3.Bool('dash_in_path')
                # membership semantics for the cases the code distinguishes
                p0 = interp.list_elem(container, 0)
                ctx.assume(z3.Implies(d.symlen == 1, b == (p0 == z3.StringVal('-'))))
                ctx.assume(z3.Implies(p0 == z3.StringVal('-'), b))
                return b
        return PROCEED

    def str_method(self, interp, recv, name, args, kwargs):
        ctx = interp.ctx
        if name == 'split' and is_z3s(recv) and len(args) == 1 and isinstance(args[0], str):
            lst = ctx.new_obj('list', name=ctx.fresh('split'))
            ld = ctx.data(lst)
            ld.items = {}
            ld.symlen = z3.Int(ctx.fresh('n_split'))
            ctx.assume(ld.symlen >= 1)
            ld.elem_factory = lambda key, n=ld.name: z3.String('%s_piece_%s' % (n, _k(key)))
            ld.extra['role'] = ('split', recv, args[0])
            return lst
        if name == 'strip' and is_z3s(recv) and not args:
            return self.strip(recv)
        if name == 'encode' and isinstance(recv, Opaque):
            return Opaque('encode', (recv,) + tuple(args), sort='bytes')
        return PROCEED

    def call_method(self, interp, recv, name, args, kwargs):
        ctx = interp.ctx
        if isinstance(recv, Obj):
            d = ctx.data(recv)
            if d.kind == 'list' and name == 'extend' and isinstance(args[0], SymIter):
                it = args[0]
                sd = ctx.data(it.src) if isinstance(it.src, Obj) else None
                role = sd.extra.get('role') if sd is not None else None
                if role and role[0] == 'split':
                    piece = interp.list_elem(it.src, ('g', 'piece'))
                    n0 = len(ctx.pc)
                    dec0 = len(ctx.decisions)
                    v = it.fn(piece)
                    kept = v is not SymIter.SKIP
                    self.acc.setdefault(recv.id, []).append({'outer': role[1], 'sep': role[2], 'piece': piece, 'kept': kept,
                                                             'value': v if kept else None, 'loops': list(ctx.loop_stack)})
                    which = 'preserve-list'
                    nonempty = z3.Length(piece) > 0
                    ctx.check('C13/do_minify/%s/keeps-exactly-the-non-empty-pieces' % which, nonempty if kept else z3.Not(nonempty),
                              detail='a piece is kept iff it is not the empty string')
                    if kept:
                        ok = z3.is_expr(v) and z3.is_string(v)
                        ctx.check('C13/do_minify/%s/pieces-are-stripped' % which, v == self.strip(piece) if ok else False,
                                  detail='kept value is %r' % (v,))
                    ctx.note_write(recv, '<items>')
                    return None
            if d.extra.get('type') == 'file':
                if name == '__enter__':
                    return recv
                if name == '__exit__':
                    self.events.append(('close', d.extra['path'], d.extra['mode']))
                    return None
                if name == 'write':
                    self.events.append(('write', d.extra['path'], d.extra['mode'], args[0], list(ctx.loop_stack)))
                    return None
                if name == 'read':
                    self.events.append(('read', d.extra['path'], d.extra['mode']))
                    return Opaque('content', (d.extra['path'], d.extra.get('gen')), sort='bytes')
            if d.extra.get('type') == 'argparser':
                if name in ('add_argument',):
                    return None
                if name in ('add_mutually_exclusive_group', 'add_argument_group'):
                    return recv
                if name == 'parse_args':
                    return self.ns
        return PROCEED

    def havoc_list(self, interp, obj, loop_id):
        return obj.id in self.acc or True

    def length(self, interp, v):
        return PROCEED


def is_z3s(v):
    return z3.is_expr(v) and z3.is_string(v)


def _k(key):
    from pyvc.interp import _keyname
    return _keyname(key)


# ---------------------------------------------------------------------------------------------------------------------
# task: do_minify


def task_do_minify():
    m = _main_module()
    table = extract_argtable()
    defaults = minify_defaults()
    from python_minifier.transforms.remove_annotations_options import RemoveAnnotationsOptions
    ann_defaults = dict((f, getattr(RemoveAnnotationsOptions(), f)) for f in cli_docs.ANNOTATION_FIELDS)
    flags = bool_flags(table)
    by_opt = {}
    for flag, e in flags:
        opt, val = cli_docs.by_spelling(flag)
        by_opt.setdefault(opt, []).append((flag, val))
    pruned = set()
    called = set()
    state = {}

    def run(ctx):
        policy = CliPolicy()
        interp = Interp(ctx, policy=policy)
        ns, fv = make_namespace(ctx, interp, table)
        policy.ns = ns
        calls = []
        env_calls = []

        def minify_hook(it, f, args, kwargs):
            calls.append((list(args), dict(kwargs)))
            return Opaque('api_result', sort='str')
        interp.hooks['python_minifier:minify'] = minify_hook

        def environ_get(it, args, kwargs):
            env_calls.append(args[0])
            if ctx.branch(z3.Bool('env_unset')):
                return None
            return z3.String('env_value')
        interp.natives[os.environ.get] = environ_get
        source_b = Opaque('source', sort='bytes')
        filename = Opaque('filename', sort='str')
        f = interp.wrap(m.do_minify)
        outcome = None
        try:
            r = interp.call(f, [source_b, filename, ns], {})
            outcome = ('return', r)
        except Raised as e:
            outcome = ('raise', e.exc)
        pruned.update(interp.pruned)
        called.update(interp.called)
        # ---- obligations -------------------------------------------------------------------------------------------
        ctx.check('C13/do_minify/calls-api-exactly-once', len(calls) == 1, detail='minify called %d times' % len(calls))
        if len(calls) != 1:
            return outcome
        args, kw = calls[0]
        ctx.check('C13/do_minify/source-forwarded', len(args) >= 1 and args[0] is source_b or kw.get('source') is source_b,
                  detail='first argument of minify is %r' % (args[:1],))
        ctx.check('C13/do_minify/filename-forwarded', kw.get('filename') is filename or (len(args) > 1 and args[1] is filename))
        lenv = lambda o: z3.Int('len_' + repr(o))
        for opt, dv in sorted(defaults.items()):
            if not isinstance(dv, bool):
                continue
            exp = z3.BoolVal(dv)
            for flag, val in by_opt.get(opt, []):
                exp = z3.If(fv[flag], z3.BoolVal(val), exp)
            got = kw.get(opt, dv)
            if isinstance(got, bool):
                got = z3.BoolVal(got)
            if not (z3.is_expr(got) and z3.is_bool(got)):
                ctx.check('C13/do_minify/kw-%s' % opt, False, detail='keyword %s receives %r' % (opt, got))
                continue
            ob = ctx.check('C13/do_minify/kw-%s' % opt, got == exp, detail='minify(%s=...) must equal the documented function of the flags' % opt)
            ob.replay = {'kind': 'cli-model', 'option': opt}
        # annotations
        ra = kw.get('remove_annotations')
        ok_inst = isinstance(ra, Obj) and ctx.data(ra).cls is RemoveAnnotationsOptions
        ctx.check('C13/do_minify/kw-remove_annotations/type', ok_inst, detail='remove_annotations receives %r' % (ra,))
        if ok_inst:
            off = fv.get('--no-remove-annotations', z3.BoolVal(False))
            for fld in cli_docs.ANNOTATION_FIELDS:
                exp = z3.BoolVal(ann_defaults[fld])
                for flag, val in by_opt.get(fld, []):
                    exp = z3.If(fv[flag], z3.BoolVal(val), exp)
                exp = z3.If(off, z3.BoolVal(False), exp)
                got = ctx.data(ra).fields.get(fld)
                if isinstance(got, bool):
                    got = z3.BoolVal(got)
                # the combination --remove-class-attribute-annotations with --no-remove-annotations is rejected by parse_args
                ctx.check('C13/do_minify/kw-remove_annotations.%s' % fld, got == exp if z3.is_expr(got) else False,
                          detail='RemoveAnnotationsOptions.%s' % fld)
        # preserve lists (C10 CLI clause): comma separated, repeatable, stripped, empty pieces dropped
        for name in ('preserve_locals', 'preserve_globals'):
            lst = kw.get(name)
            base = 'C13/do_minify/%s' % name
            if not (isinstance(lst, Obj) and ctx.data(lst).kind == 'list'):
                ctx.check(base + '/is-list', False, detail='%s receives %r' % (name, lst))
                continue
            ld = ctx.data(lst)
            absent = name in policy.absent
            entries = policy.acc.get(lst.id, [])
            if absent:
                ctx.check(base + '/absent-gives-empty', ld.symlen is None and len(ld.items) == 0 and not entries,
                          detail='without --%s the API must receive an empty list' % name.replace('_', '-'))
                continue
            ctx.check(base + '/starts-empty-and-only-extended', ld.symlen is None and len(ld.items) == 0 and len(entries) >= 1,
                      detail='items=%r entries=%d' % (ld.items, len(entries)))
            for i, en in enumerate(entries[:1]):
                src_ok = is_z3s(en['outer']) and en['outer'].decl().name().startswith(name + '_arg_')
                ctx.check(base + '/splits-each-occurrence', src_ok and len(en['loops']) == 1,
                          detail='pieces come from %r inside loops %r' % (en['outer'], en['loops']))
                ctx.check(base + '/comma-separated', en['sep'] == ',', detail='separator %r' % (en['sep'],))
        return outcome

    def on_end(ctx, outcome):
        pass

    ex = Explorer()

    # obligations that depend on how the path ended are raised inside `run`; the remaining ones here need the outcome
    def run2(ctx):
        out = run(ctx)
        kind, val = out
        force = None
        src_len = z3.Int('len_source')
        enc = Opaque('encode', (Opaque('api_result', sort='str'), 'utf-8'), sort='bytes')
        enc_len = z3.Int('len_' + repr(enc))
        unset = z3.Bool('env_unset')
        forced = z3.And(z3.Not(unset), z3.Length(z3.String('env_value')) > 0)
        if kind == 'return':
            ctx.check('C13/do_minify/returns-utf8-encoding-of-api-result', isinstance(val, Opaque) and val == enc,
                      detail='returned %r' % (val,))
            ctx.check('C14/do_minify/returned-bytes-not-longer-unless-forced', z3.Or(forced, enc_len <= src_len),
                      detail='len(result) <= len(source) unless PYMINIFY_FORCE_BEST_EFFORT is set')
        else:
            is_nb = isinstance(val, ExcVal) and val.cls.__name__ == 'MinificationNotBeneficialError'
            ctx.check('C13/do_minify/raises-only-not-beneficial', is_nb, detail='raised %r' % (val,))
            ctx.check('C14/do_minify/not-beneficial-only-when-larger', z3.And(z3.Not(forced), enc_len > src_len))
        return out

    # len(source) of the opaque parameter must be the same integer in the code and in the contract
    ex.explore(run2)
    obs = list(ex.obligations)
    stat = Ob()
    stat.add('C14/do_minify/override-variable-name', True, 'checked inside run')
    res = result(obs, funcs(MAIN + ':do_minify'), ASSUMPTIONS, pruned=sorted(pruned))
    if ex.undecided_reason:
        res['obligations'].append({'name': 'C13/do_minify/engine', 'status': 'undecided', 'detail': ex.undecided_reason, 'model': {},
                                   'time_s': 0, 'backend': 'engine', 'path': None, 'kind': 'engine', 'goal': None})
    res['notes'].append('do_minify: %d paths explored' % len(ex.paths))
    return res


# ---------------------------------------------------------------------------------------------------------------------
# shared external models for parse_args / main / source_modules

ISDIR = z3.Function('os_path_isdir', z3.StringSort(), z3.BoolSort())


def install_externals(interp, policy, ctx):
    import argparse

    def mk_parser(it, args, kwargs):
        o = ctx.new_obj('ns', name=ctx.fresh('parser'))
        ctx.data(o).extra['type'] = 'argparser'
        return o
    interp.natives[argparse.ArgumentParser] = mk_parser

    def stderr_write(it, args, kwargs):
        policy.events.append(('stderr', args[0]))
        return None
    interp.natives[sys.stderr.write] = stderr_write

    def stdout_write(it, args, kwargs):
        policy.events.append(('stdout_text', args[0]))
        return None
    interp.natives[sys.stdout.write] = stdout_write

    def stdout_bytes(it, args, kwargs):
        policy.events.append(('stdout_bytes', args[0]))
        return None
    interp.natives[sys.stdout.buffer.write] = stdout_bytes

    def stdin_read(it, args, kwargs):
        policy.events.append(('stdin_read',))
        return Opaque('stdin_bytes', sort='bytes')
    interp.natives[sys.stdin.buffer.read] = stdin_read

    def sys_exit(it, args, kwargs):
        raise Raised(ExcVal(SystemExit, tuple(args)))
    interp.natives[sys.exit] = sys_exit

    def isdir(it, args, kwargs):
        p = args[0]
        if not is_z3s(p):
            raise Undecided('isdir of %r' % (p,))
        return ISDIR(p)
    interp.natives[os.path.isdir] = isdir

    def join(it, args, kwargs):
        return Opaque('os_path_join', tuple(args), sort='str')
    interp.natives[os.path.join] = join

    def walk(it, args, kwargs):
        policy.events.append(('walk', args[0], dict(kwargs)))
        top = args[0]
        lst = ctx.new_obj('list', name=ctx.fresh('walk'))
        ld = ctx.data(lst)
        ld.items = {}
        ld.symlen = z3.Int(ctx.fresh('n_walk'))
        ctx.assume(ld.symlen >= 0)

        def factory(key, top=top, n=ld.name):
            files = ctx.new_obj('list', name='%s_files_%s' % (n, _k(key)))
            fd = ctx.data(files)
            fd.items = {}
            fd.symlen = z3.Int('n_%s' % fd.name)
            ctx.assume(fd.symlen >= 0)
            def file_elem(k2, fn=fd.name):
                v = z3.String('%s_%s' % (fn, _k(k2)))
                policy.file_vars[v.decl().name()] = fn
                return v
            fd.elem_factory = file_elem
            fd.extra['role'] = ('walkfiles', top)
            root = z3.String('%s_root_%s' % (n, _k(key)))
            policy.walk_roots[root.decl().name()] = top
            policy.walk_files[fd.name] = (top, root)
            return (root, Opaque('dirs_%s' % _k(key)), files)
        ld.elem_factory = factory
        return lst
    interp.natives[os.walk] = walk

    def open_(it, args, kwargs):
        path, mode = args[0], args[1] if len(args) > 1 else 'r'
        if mode == 'rb' and ctx.branch(z3.Bool(ctx.fresh('open_fails'))):
            policy.events.append(('open_failed', path, mode))
            raise Raised(ExcVal(OSError, ('cannot open',)))
        policy.events.append(('open', path, mode))
        o = ctx.new_obj('ns', name=ctx.fresh('file'))
        d = ctx.data(o)
        d.extra['type'] = 'file'
        d.extra['path'] = path
        d.extra['mode'] = mode
        return o
    import builtins
    interp.natives[builtins.open] = open_


def invalid_combinations(interp, ctx, ns):
    """The combinations the property says must be rejected, as z3 conditions over the symbolic namespace."""
    paths = interp.getattr(ns, 'path')
    n = ctx.data(paths).symlen
    dash = interp.policy.contains(interp, paths, '-')
    p0 = interp.list_elem(paths, 0)
    inp = interp.getattr(ns, 'in_place')
    ca = ctx.data(ns).fields['remove_class_attribute_annotations']
    ra = ctx.data(ns).fields['remove_annotations']
    return {
        'stdin-with-other-paths': z3.And(dash, n != 1),
        'stdin-in-place': z3.And(dash, inp),
        'many-paths-without-in-place': z3.And(n > 1, z3.Not(inp)),
        'directory-without-in-place': z3.And(n == 1, ISDIR(p0), z3.Not(inp)),
        'class-attribute-annotations-without-annotations': z3.And(ca, z3.Not(ra)),
    }


def task_parse_args():
    m = _main_module()
    table = extract_argtable()
    pruned = set()

    def run(ctx):
        policy = CliPolicy()
        policy.walk_roots, policy.walk_files, policy.file_vars = {}, {}, {}
        interp = Interp(ctx, policy=policy)
        ns, fv = make_namespace(ctx, interp, table)
        policy.ns = ns
        install_externals(interp, policy, ctx)
        inv = invalid_combinations(interp, ctx, ns)
        any_inv = z3.Or(list(inv.values()))
        try:
            r = interp.call(interp.wrap(m.parse_args), [], {})
            ctx.check('C13/parse_args/returns-the-parsed-namespace', r is ns, detail='returned %r' % (r,))
            for name, cond in sorted(inv.items()):
                ctx.check('C13/parse_args/rejects/%s' % name, z3.Not(cond), detail='parse_args returned normally although %s' % name)
        except Raised as e:
            ok = e.exc.cls is SystemExit and len(e.exc.args) == 1 and isinstance(e.exc.args[0], int) and e.exc.args[0] != 0
            ctx.check('C13/parse_args/rejection-exits-non-zero', ok, detail='raised %r' % (e.exc,))
            ctx.check('C13/parse_args/rejects-only-invalid-combinations', any_inv,
                      detail='parse_args exits although the combination is valid')
        wrote = [ev for ev in policy.events if ev[0] in ('stdout_text', 'stdout_bytes', 'open', 'write')]
        ctx.check('C13/parse_args/nothing-written-before-validation', not wrote, detail=repr(wrote))
        pruned.update(interp.pruned)
        return None
    ex = Explorer()
    ex.explore(run)
    return _finish_task(ex, 'C13/parse_args', funcs(MAIN + ':parse_args'), pruned)


def _finish_task(ex, prefix, functions, pruned=(), notes=()):
    res = result(list(ex.obligations), functions, ASSUMPTIONS, pruned=sorted(pruned), notes=list(notes))
    if ex.undecided_reason:
        res['obligations'].append({'name': prefix + '/engine', 'status': 'undecided', 'detail': ex.undecided_reason, 'model': {},
                                   'time_s': 0, 'backend': 'engine', 'path': None, 'kind': 'engine', 'goal': None})
    ok = len([p for p in ex.paths if p[0] == 'ok'])
    res['notes'].append('%s: %d feasible paths explored' % (prefix, ok))
    if ok == 0:
        res['obligations'].append({'name': prefix + '/cover', 'status': 'undecided', 'detail': 'no feasible path: vacuous', 'model': {},
                                   'time_s': 0, 'backend': 'engine', 'path': None, 'kind': 'cover', 'goal': None})
    return res


def task_source_modules():
    m = _main_module()
    table = extract_argtable()
    pruned = set()

    class P(CliPolicy):
        def loop_scheme(self, interp, loop_id, s):
            return 'generic'

        def on_yield(self, interp, value):
            ctx = interp.ctx
            # a module is handed out only on the first visit of its real path (otherwise --in-place would minify already minified text)
            asked = [bv for p, bv in getattr(self, 'first_visits', []) if p is value or (is_z3s(p) and is_z3s(value) and p.eq(value)) or
                     (isinstance(p, Opaque) and isinstance(value, Opaque) and p == value)]
            ctx.check('C15/source_modules/a-module-is-yielded-only-on-the-first-visit-of-its-real-path',
                      bool(asked) and any(any(c.eq(bv) for c in ctx.pc) for bv in asked), detail='first_visit asked for this path: %s' % bool(asked))
            # which path argument are we in?  the innermost assignment of the loop variable `path_arg`
            fr = [f for f in interp.frames if f.func.qual.endswith('source_modules')][-1]
            arg = fr.env.vars.get('path_arg')
            if is_z3s(value):
                ok = is_z3s(arg) and value.eq(arg)
                ctx.check('C15/source_modules/explicit-argument-yielded-as-given', ok, detail='yielded %r for argument %r' % (value, arg))
                ctx.check('C15/source_modules/only-non-directories-yielded-directly', z3.Not(ISDIR(arg)) if ok else False)
                return
            ok = isinstance(value, Opaque) and value.name == 'os_path_join' and len(value.args) == 2
            ctx.check('C15/source_modules/walked-file-is-join-of-root-and-name', ok, detail='yielded %r' % (value,))
            if not ok:
                return
            root, name = value.args
            top = self.walk_roots.get(root.decl().name()) if is_z3s(root) else None
            fname_list = self.file_vars.get(name.decl().name()) if is_z3s(name) else None
            from_walk = fname_list in self.walk_files and self.walk_files[fname_list][1].eq(root) if is_z3s(name) and is_z3s(root) else False
            ctx.check('C15/source_modules/walked-file-comes-from-walk-of-the-argument',
                      bool(from_walk) and top is not None and is_z3s(arg) and top.eq(arg), detail='root %r name %r arg %r' % (root, name, arg))
            ctx.check('C15/source_modules/only-py-and-pyw-files-selected',
                      z3.Or(z3.SuffixOf(z3.StringVal('.py'), name), z3.SuffixOf(z3.StringVal('.pyw'), name)) if is_z3s(name) else False,
                      detail='file name %r' % (name,))
            ctx.check('C15/source_modules/walk-only-directories', ISDIR(arg) if is_z3s(arg) else False)

    def run(ctx):
        policy = P()
        policy.walk_roots, policy.walk_files, policy.file_vars = {}, {}, {}
        interp = Interp(ctx, policy=policy)
        ns, fv = make_namespace(ctx, interp, table)
        policy.ns = ns
        install_externals(interp, policy, ctx)
        # first_visit(path) (nested helper, by contract): True exactly the first time a real path is seen; verified below on its own
        policy.first_visits = []

        def first_visit_hook(it, f, a, k):
            bv = z3.Bool(ctx.fresh('first_visit'))
            policy.first_visits.append((a[0], bv))
            return bv
        interp.hooks[MAIN + ':source_modules.<locals>.first_visit'] = first_visit_hook
        try:
            interp.call(interp.wrap(m.source_modules), [ns], {})
        except Raised as e:
            ctx.check('C15/source_modules/no-exception', False, detail='raised %r' % (e.exc,))
        for ev in policy.events:
            if ev[0] == 'walk':
                ctx.check('C15/source_modules/walk-follows-links-as-documented', ev[2].get('followlinks') is True, detail=repr(ev[2]))
                ctx.check('C15/source_modules/walk-errors-are-raised', isinstance(ev[2].get('onerror'), object) and ev[2].get('onerror') is not None)
        bad = [ev for ev in policy.events if ev[0] in ('open', 'write', 'stdout_bytes', 'stdout_text')]
        ctx.check('C15/source_modules/no-io-besides-walk', not bad, detail=repr(bad))
        pruned.update(interp.pruned)
    ex = Explorer()
    ex.explore(run)
    res = _finish_task(ex, 'C15/source_modules', funcs(MAIN + ':source_modules'), pruned)
    # first_visit itself: the shape `real = realpath(path); if real in seen: return False; seen.add(real); return True` over a set that is created once
    # per call of source_modules and written nowhere else (membership before insertion => True exactly once per real path)
    import ast as pyast
    fi, node = source.find_def(MAIN + ':source_modules')
    helper = [n for n in node.body if isinstance(n, pyast.FunctionDef) and n.name == 'first_visit']
    ok, why = False, 'helper first_visit not found'
    if helper:
        h = helper[0]
        srcs = [pyast.unparse(st) for st in h.body]
        setvars = [t.id for st in node.body if isinstance(st, pyast.Assign) and isinstance(st.value, pyast.Call) and pyast.unparse(st.value) == 'set()' for t in st.targets
                   if isinstance(t, pyast.Name)]
        writes = [pyast.unparse(n) for n in pyast.walk(node) if isinstance(n, pyast.Call) and isinstance(n.func, pyast.Attribute) and isinstance(n.func.value, pyast.Name)
                  and n.func.value.id in setvars and n.func.attr not in ('__contains__',)]
        ok = len(setvars) == 1 and len(srcs) == 4 and srcs[0] == 'real_path = os.path.realpath(path)' and srcs[1] == 'if real_path in %s:\n    return False' % setvars[0] \
            and srcs[2] == '%s.add(real_path)' % setvars[0] and srcs[3] == 'return True' and writes == ['%s.add(real_path)' % setvars[0]]
        why = 'body %r, set variables %r, writes %r' % (srcs, setvars, writes)
    res['obligations'].append({'name': 'C15/source_modules/first_visit-is-true-exactly-once-per-real-path', 'status': 'proved' if ok else 'undecided', 'detail': why, 'model': {},
                               'time_s': 0, 'backend': 'eval', 'path': None, 'kind': 'post', 'goal': None})
    return res


def task_main():
    m = _main_module()
    table = extract_argtable()
    pruned = set()
    NB = m.MinificationNotBeneficialError

    def run(ctx):
        policy = CliPolicy()
        policy.walk_roots, policy.walk_files, policy.file_vars = {}, {}, {}
        interp = Interp(ctx, policy=policy)
        ns, fv = make_namespace(ctx, interp, table)
        policy.ns = ns
        install_externals(interp, policy, ctx)
        inv = invalid_combinations(interp, ctx, ns)
        for c in inv.values():
            ctx.assume(z3.Not(c))          # ensures of parse_args (verified in task_parse_args)
        out = interp.getattr(ns, 'output')
        inp = interp.getattr(ns, 'in_place')
        if out is not None:
            ctx.assume(z3.Not(inp))        # argparse mutually exclusive group (axiom)
        ctx.data(ns).fields['output'] = out
        ctx.data(ns).fields['in_place'] = inp

        def parse_args_hook(it, f, args, kwargs):
            policy.events.append(('parse_args',))
            return ns
        interp.hooks[MAIN + ':parse_args'] = parse_args_hook

        def source_modules_hook(it, f, args, kwargs):
            lst = ctx.new_obj('list', name='modules')
            ld = ctx.data(lst)
            ld.items = {}
            ld.symlen = z3.Int('n_modules')
            ctx.assume(ld.symlen >= 0)
            ld.elem_factory = lambda key: z3.String('module_%s' % _k(key))
            return lst
        interp.hooks[MAIN + ':source_modules'] = source_modules_hook

        def do_minify_hook(it, f, args, kwargs):
            src, fname, a = args
            which = ctx.choose(3, 'do_minify')
            outcome = ('return', 'not-beneficial', 'error')[which]
            policy.events.append(('do_minify', src, fname, a, outcome))
            if outcome == 'return':
                return Opaque('minified', (src,), sort='bytes')
            if outcome == 'not-beneficial':
                raise Raised(ExcVal(NB, ()))
            raise Raised(ExcVal(SyntaxError, ('any other exception',)))
        interp.hooks[MAIN + ':do_minify'] = do_minify_hook

        raised = None
        try:
            interp.call(interp.wrap(m.main), [], {})
        except Raised as e:
            raised = e.exc
        pruned.update(interp.pruned)
        # ---- trace obligations ------------------------------------------------------------------------------------------
        ev = policy.events
        ctx.check('C13/main/validates-arguments-first', len(ev) > 0 and ev[0] == ('parse_args',), detail=repr(ev[:2]))
        cur_path = cur_src = None
        status = None
        outputs = 0
        expected_name = None
        stdin_mode = False

        def same(a, b):
            if z3.is_expr(a) and z3.is_expr(b):
                return a.eq(b)
            return a == b if not (z3.is_expr(a) or z3.is_expr(b)) else False

        def close_source():
            if status in ('return', 'not-beneficial'):
                want = 1
                if inplace_now and status == 'not-beneficial':
                    want = 0
                ctx.check('C13/main/exactly-one-output-per-module', outputs == want,
                          detail='%d outputs for a module whose minification outcome was %s (in_place=%s)' % (outputs, status, inplace_now))
        inplace_now = ctx.solver.check(z3.Not(inp)) == z3.unsat
        for e in ev[1:]:
            k = e[0]
            if k == 'stdin_read':
                cur_path, cur_src, status, outputs, stdin_mode = 'stdin', Opaque('stdin_bytes', sort='bytes'), 'read', 0, True
            elif k == 'open' and e[2] == 'rb':
                close_source()
                cur_path, cur_src, status, outputs = e[1], None, 'opened', 0
                ctx.check('C15/main/reads-only-selected-modules', is_z3s(e[1]) and e[1].decl().name().startswith('module_'), detail=repr(e[1]))
            elif k == 'read':
                cur_src = Opaque('content', (e[1], None), sort='bytes')
                status = 'read'
            elif k == 'do_minify':
                ctx.check('C13/main/minifies-the-bytes-it-read', cur_src is not None and e[1] == cur_src, detail='%r vs %r' % (e[1], cur_src))
                ctx.check('C13/main/filename-is-the-path', same(e[2], cur_path), detail='%r vs %r' % (e[2], cur_path))
                ctx.check('C13/main/passes-the-parsed-arguments', e[3] is ns)
                status = e[4]
            elif k == 'open' and e[2] == 'wb':
                ctx.check('C15/main/minify-completes-before-destination-is-opened', status in ('return', 'not-beneficial'),
                          detail='open(%r, "wb") while the state of the current module is %r' % (e[1], status))
                is_out = out is not None and same(e[1], out)
                is_inplace = (not stdin_mode) and same(e[1], cur_path) and inplace_now
                ctx.check('C15/main/writes-only-output-file-or-in-place-target', bool(is_out or is_inplace),
                          detail='opened %r for writing (output=%r, current=%r, in_place proven=%s)' % (e[1], out, cur_path, inplace_now))
                if is_inplace and not is_out:
                    ctx.check('C15/main/in-place-never-rewrites-unchanged-source', status == 'return')
            elif k in ('write', 'stdout_bytes'):
                data = e[3] if k == 'write' else e[1]
                if status == 'return':
                    want = Opaque('minified', (cur_src,), sort='bytes')
                elif status == 'not-beneficial':
                    want = cur_src
                else:
                    want = None
                ctx.check('C14/main/output-is-minified-or-original-source', want is not None and data == want,
                          detail='wrote %r, expected %r (state %s)' % (data, want, status))
                if k == 'stdout_bytes':
                    ctx.check('C13/main/stdout-only-without-output-and-in-place', out is None and not inplace_now)
                outputs += 1
            elif k == 'open_failed':
                close_source()
                cur_path, cur_src, status, outputs = e[1], None, 'error', 0
            elif k in ('close', 'stdout_text'):
                pass
            else:
                ctx.check('C13/main/unexpected-io', False, detail=repr(e))
        if raised is None:
            close_source()
        else:
            # errors from reading or minifying must propagate (non-zero exit) and nothing may be written afterwards
            ctx.check('C15/main/only-read-or-minify-errors-escape', raised.cls in (OSError, SyntaxError), detail=repr(raised))
            ctx.check('C15/main/failing-module-is-not-written', outputs == 0 and status in ('error', 'opened'),
                      detail='outputs=%d status=%s' % (outputs, status))
        if any(e[0] == 'do_minify' and e[4] == 'error' for e in ev):
            ctx.check('C15/main/minify-errors-are-not-swallowed', raised is not None and raised.cls is SyntaxError, detail=repr(raised))
        return None
    ex = Explorer()
    ex.explore(run)
    return _finish_task(ex, 'C13/main', funcs(MAIN + ':main', MAIN + ':stdout_write_bytes'), pruned)
