"""Contracts for literal hoisting and the cost model (C06, C17 second clause): rename/rename_literals.py, rename/util.insert,
transforms/suite_transformer.NodeVisitor.visit_Constant, rename/binding.py cost functions."""
import ast as real_ast

import z3

from pyvc import source
from pyvc.engine import (Bound, ExcVal, Explorer, Native, Obj, Opaque, Raised, SymStr, Undecided, tag_const, tag_universe, tags_of_class)
from pyvc.interp import PROCEED, Interp, Policy, SymConst, SymIter
from pyvc.runner import result
from contracts import printer as P
from contracts.scopes import NAMESPACE_TAGS, COMP, _finish
from contracts.renamer import RenPolicy, RU, RB, RN

RL = 'python_minifier.rename.rename_literals'
ST = 'python_minifier.transforms.suite_transformer'

ASSUMPTIONS = [
    'dict lookup follows __eq__ / __hash__ of the key objects (HoistedValue)',
    'literal values come from ast.parse or the constant folder: no NaN, no negative zero among hoistable kinds (str, bytes, None, True, False)',
    'the printed length of a str / bytes / None / True / False literal is len(repr(value)) (C02 L3 contracts: stringliteral / bytesliteral / keyword '
    'print repr(value)); byte-cost accounting table in contracts/hoist.py:TRUE_DELTA is hand-written from what rename() writes and the printer prints',
    'separator cost of an inserted assignment is taken as 2 bytes as the code does (known finding KF-19: it is larger before a compound statement)',
]


def task_hoist_visitors():
    P.install_symconst_type_support()
    mod = source.import_module(RL)
    name = 'C06/HoistLiterals'
    obs_all = []
    fns = []
    notes = []

    def setup(ctx, root_tags, rootname='root'):
        policy = RenPolicy()
        interp = Interp(ctx, policy=policy)
        policy.interp = interp
        root = ctx.new_node(root_tags, name=rootname)
        policy.root = root
        o = ctx.new_obj('inst', mod.HoistLiterals, name='self')
        ctx.data(o).fields.update({'_ignore_slots': True, '_hoisted': ctx.new_obj('dict')})
        ctx.data(ctx.data(o).fields['_hoisted']).items = {}
        ev = policy.events
        parent = ctx.new_node(set(tag_universe()['names']), name='parent')
        interp.hooks['python_minifier.ast_annotation:get_parent'] = lambda it, f, a, k: parent

        def gb(it, f, a, k):
            b = Opaque('hoisted_binding', sort='binding')
            ev.append(('get_binding', a[1], a[2]))
            return b
        interp.hooks[RL + ':HoistLiterals.get_binding'] = gb

        class PP(RenPolicy):
            def call_opaque(self, it, f, args, kwargs):
                return PROCEED

            def attr(self, it, obj, nm):
                if isinstance(obj, Opaque) and obj.name == 'hoisted_binding' and nm == 'add_reference':
                    return Native(_add_reference)
                return RenPolicy.attr(self, it, obj, nm)
        interp.policy = PP()
        interp.policy.interp = interp
        interp.policy.events = ev
        interp.natives[_add_reference] = lambda it, a, k: ev.append(('add_reference', a[0]))

        def visit_hook(it, f, a, k):
            if a[1] == root:
                return PROCEED
            ev.append(('visit', a[1]))
            return None
        for kcls in mod.HoistLiterals.__mro__:
            if kcls.__module__.startswith('python_minifier') and 'visit' in kcls.__dict__:
                interp.hooks['%s:%s.visit' % (kcls.__module__, kcls.__name__)] = visit_hook
            if kcls.__module__.startswith('python_minifier') and 'generic_visit' in kcls.__dict__:
                interp.hooks['%s:%s.generic_visit' % (kcls.__module__, kcls.__name__)] = lambda it, f, a, k: ev.append(('generic_visit', a[1]))
        return policy, interp, root, o, ev, parent

    # visit_Str / visit_Bytes
    def run_str(ctx):
        policy, interp, root, o, ev, parent = setup(ctx, {'Constant'})
        v = interp.getattr(root, 'value')
        ctx.assume(z3.Or(v.kind == 6, v.kind == 7))
        interp.call(interp.getattr(o, 'visit_Str'), [root], {})
        refs = [e for e in ev if e[0] == 'add_reference']
        gbs = [e for e in ev if e[0] == 'get_binding']
        pd = ctx.data(parent)
        if refs:
            ctx.check(name + '.visit_Str/literal-statements-and-docstrings-are-never-hoisted', pd.tagvar != tag_const('Expr'), kind='post')
            ctx.check(name + '.visit_Str/reference-is-the-literal-node-keyed-by-its-own-value', refs == [('add_reference', root)] and len(gbs) == 1 and gbs[0][1] is v
                      and gbs[0][2] == root, kind='post', detail=repr(ev))
        else:
            ctx.check(name + '.visit_Str/skipped-only-in-statement-position', pd.tagvar == tag_const('Expr'), kind='post')
    ex = Explorer(); ex.explore(run_str)
    r = _finish(ex, name + '.visit_Str', [source.describe(RL + ':HoistLiterals.visit_Str'), source.describe(RL + ':HoistLiterals.visit_Bytes')])
    obs_all += r['obligations']; fns += r['functions']; notes += r['notes']

    # visit_NameConstant
    def run_nc(ctx):
        policy, interp, root, o, ev, parent = setup(ctx, {'Constant'})
        v = interp.getattr(root, 'value')
        interp.call(interp.getattr(o, 'visit_NameConstant'), [root], {})
        gbs = [e for e in ev if e[0] == 'get_binding']
        ctx.check(name + '.visit_NameConstant/keyed-by-its-own-value', len(gbs) == 1 and gbs[0][1] is v and ('add_reference', root) in ev, kind='post')
    ex = Explorer(); ex.explore(run_nc)
    r = _finish(ex, name + '.visit_NameConstant', [source.describe(RL + ':HoistLiterals.visit_NameConstant')])
    obs_all += r['obligations']; fns += r['functions']; notes += r['notes']

    # visit_JoinedStr: the literal text parts of an f-string are never visited
    def run_js(ctx):
        policy, interp, root, o, ev, parent = setup(ctx, {'JoinedStr'})
        interp.call(interp.getattr(o, 'visit_JoinedStr'), [root], {})
        for e in ev:
            if e[0] == 'visit':
                d = ctx.data(e[1])
                c = d.fields.get('value')
                is_text = z3.And(d.tagvar == tag_const('Constant'), c.kind == 6) if isinstance(c, SymConst) else z3.BoolVal(False)
                ctx.check(name + '.visit_JoinedStr/text-parts-of-an-f-string-are-never-hoisted', z3.Not(is_text), kind='post')
        ctx.check(name + '.visit_JoinedStr/no-direct-reference', not [e for e in ev if e[0] in ('add_reference', 'get_binding')], kind='post')
    ex = Explorer(); ex.explore(run_js)
    r = _finish(ex, name + '.visit_JoinedStr', [source.describe(RL + ':HoistLiterals.visit_JoinedStr')])
    obs_all += r['obligations']; fns += r['functions']; notes += r['notes']

    # visit_match_case: only guard and body
    def run_mc(ctx):
        policy, interp, root, o, ev, parent = setup(ctx, {'match_case'})
        interp.call(interp.getattr(o, 'visit_match_case'), [root], {})
        for e in ev:
            if e[0] == 'visit':
                origin = ctx.data(e[1]).origin
                ctx.check(name + '.visit_match_case/patterns-are-never-visited', origin is not None and origin[0] == root and origin[1] in ('guard', 'body'), kind='post',
                          detail='visited %r' % (origin[1] if origin else None,))
        ctx.check(name + '.visit_match_case/pattern-field-is-not-even-read', 'pattern' not in ctx.data(root).fields, kind='frame')
    ex = Explorer(); ex.explore(run_mc)
    r = _finish(ex, name + '.visit_match_case', [source.describe(RL + ':HoistLiterals.visit_match_case')])
    obs_all += r['obligations']; fns += r['functions']; notes += r['notes']

    # visit_Assign: __slots__ in a class body
    def run_as(ctx):
        policy, interp, root, o, ev, parent = setup(ctx, {'Assign'})
        ns = ctx.new_node(NAMESPACE_TAGS, name='ns')
        ctx.data(root).fields['namespace'] = ns
        interp.call(interp.getattr(o, 'visit_Assign'), [root], {})
        gv = [e for e in ev if e[0] == 'generic_visit']
        slots = z3.BoolVal(False)
        tg = ctx.data(root).fields.get('targets')
        if isinstance(tg, Obj):
            for k, t in ctx.data(tg).items.items():
                if isinstance(t, Obj) and 'id' in ctx.data(t).fields:
                    slots = z3.Or(slots, z3.And(ctx.data(t).tagvar == tag_const('Name'), ctx.data(t).fields['id'] == z3.StringVal('__slots__')))
        in_class = ctx.data(ns).tagvar == tag_const('ClassDef')
        if gv:
            ctx.check(name + '.visit_Assign/slots-assignment-in-a-class-body-is-never-visited', z3.Not(z3.And(in_class, slots)), kind='post')
        else:
            ctx.check(name + '.visit_Assign/only-slots-assignments-in-class-bodies-are-skipped', z3.And(in_class, slots), kind='post')
    ex = Explorer(); ex.explore(run_as)
    r = _finish(ex, name + '.visit_Assign', [source.describe(RL + ':HoistLiterals.visit_Assign')])
    obs_all += r['obligations']; fns += r['functions']; notes += r['notes']

    # NodeVisitor.visit_Constant: dispatch by the TYPE of the value
    stm = source.import_module(ST)

    def run_vc(ctx):
        policy, interp, root, o, ev, parent = setup(ctx, {'Constant'})
        v = interp.getattr(root, 'value')
        called = []
        for m in ('visit_NameConstant', 'visit_Str', 'visit_Bytes'):
            interp.hooks['%s:HoistLiterals.%s' % (RL, m)] = (lambda m: lambda it, f, a, k: called.append(m))(m)
        interp.call(interp.getattr(o, 'visit_Constant'), [root], {})
        gv = [e for e in ev if e[0] == 'generic_visit']
        want = {'visit_NameConstant': [0, 1, 2], 'visit_Str': [6], 'visit_Bytes': [7]}
        if called:
            ctx.check('C06/NodeVisitor.visit_Constant/literal-kind-is-decided-by-type-not-by-equality', z3.Or([v.kind == k for k in want[called[0]]]), kind='post',
                      detail='%s called: 0, 1, 0.0 and 1.0 compare equal to False/True but are numbers' % called[0])
        else:
            ctx.check('C06/NodeVisitor.visit_Constant/numbers-and-ellipsis-are-not-hoistable-literals', z3.Or([v.kind == k for k in (3, 4, 5, 8)]) if gv else False, kind='post')
    ex = Explorer(); ex.explore(run_vc)
    r = _finish(ex, 'C06/NodeVisitor.visit_Constant', [source.describe(ST + ':NodeVisitor.visit_Constant')])
    obs_all += r['obligations']; fns += r['functions']; notes += r['notes']

    # annotations under `from __future__ import annotations` are stored as text and evaluated later in another scope: nothing inside them is visited
    for method, tags, fld in (('visit_AnnAssign', {'AnnAssign'}, 'annotation'), ('visit_arg', {'arg'}, 'annotation'), ('visit_FunctionDef', {'FunctionDef'}, 'returns'),
                              ('visit_AsyncFunctionDef', {'AsyncFunctionDef'}, 'returns')):
        def run_ann(ctx, method=method, tags=tags, fld=fld):
            policy, interp, root, o, ev, parent = setup(ctx, tags)
            lazy = z3.Bool('module_postpones_annotation_evaluation')
            ctx.data(o).fields['_lazy_annotations'] = lazy
            ann = interp.getattr(root, fld)
            import python_minifier.ast_compat as compat

            def iter_fields(it, a, k):
                nd = ctx.data(a[0])
                if nd.kind != 'node' or len(nd.tags) != 1:
                    raise Undecided('iter_fields of a node of unknown class')
                return ctx.new_list([(f, it.getattr(a[0], f)) for f in tag_universe()['cls'][list(nd.tags)[0]]._fields])
            interp.natives[compat.iter_fields] = iter_fields
            # without a method of its own the node is handled by generic_visit, which visits every field
            use = method if any(method in k.__dict__ for k in mod.HoistLiterals.__mro__) else 'generic_visit'
            interp.call(interp.getattr(o, use), [root], {})
            visited = [e[1] for e in ev if e[0] == 'visit']
            generic = [e for e in ev if e[0] == 'generic_visit']
            if ann is not None:
                if ann in visited or generic:
                    ctx.check('C06/HoistLiterals.%s/annotation-is-not-visited-when-evaluation-is-postponed' % method, z3.Not(lazy), kind='post',
                              detail='a literal inside a stringified annotation would be replaced by a name of another scope')
                else:
                    ctx.check('C06/HoistLiterals.%s/cover-annotation-skipped' % method, lazy, kind='post')
        ex = Explorer(); ex.explore(run_ann)
        try:
            r = _finish(ex, 'C06/HoistLiterals.' + method, [source.describe(RL + ':HoistLiterals.' + method)])
        except source.MissingFunction:
            r = _finish(ex, 'C06/HoistLiterals.' + method, [])
            r['obligations'].append({'name': 'C06/HoistLiterals.%s/annotation-is-not-visited-when-evaluation-is-postponed' % method, 'status': 'refuted',
                                     'detail': '[needs-witness] HoistLiterals has no %s: annotations are visited like any other expression' % method, 'model': {}, 'time_s': 0,
                                     'backend': 'eval', 'path': None, 'kind': 'post', 'goal': None})
        obs_all += r['obligations']; fns += r['functions']; notes += r['notes']
    return result(obs_all, fns, ASSUMPTIONS, notes=notes)


def _add_reference(*a, **k):
    raise RuntimeError('model only')


def task_hoisted_value():
    mod = source.import_module(RL)
    P.install_symconst_type_support()
    from contracts.folding import install_symconst_pair_support
    install_symconst_pair_support()
    name = 'C06/HoistedValue'

    def run(ctx):
        policy = RenPolicy()
        interp = Interp(ctx, policy=policy)
        policy.interp = interp

        class PP(RenPolicy):
            def call_builtin(self, it, py, args, kwargs):
                if py is type and isinstance(args[0], SymConst):
                    return P.SymConstType(args[0])
                return PROCEED
        interp.policy = PP()
        a, b = SymConst('a'), SymConst('b')
        for c in (a, b):
            ctx.assume(c.constraint())
        oa = interp.instantiate(mod.HoistedValue, [a], {})
        ob = interp.instantiate(mod.HoistedValue, [b], {})
        r = interp.call(interp.getattr(oa, '__eq__'), [ob], {})
        rz = r if z3.is_expr(r) else z3.BoolVal(bool(r))
        tc = lambda c: z3.If(z3.Or(c.kind == 1, c.kind == 2), z3.IntVal(1), c.kind)
        ctx.check(name + '.__eq__/equal-keys-have-identical-type', z3.Implies(rz, tc(a) == tc(b)), kind='post',
                  detail='True / 1 / 1.0 and str / bytes must not share a hoisted binding')
        ctx.check(name + '.__eq__/equal-keys-have-equal-values', z3.Implies(rz, z3.Bool('pyeq_a_b')), kind='post')
    ex = Explorer()
    ex.explore(run)
    return _finish(ex, name, [source.describe(RL + ':HoistedValue.__eq__'), source.describe(RL + ':HoistedValue.__hash__')])


def task_insert():
    """util.insert: the new statement goes after the longest prefix of `from __future__` imports and string-expression statements and
    before everything else (arbitrary iteration of the generator with the loop invariant `inserted == False  =>  everything seen so far
    is such a prefix statement`)."""
    P.install_symconst_type_support()
    umod = source.import_module(RU)
    name = 'C06/util.insert'

    def run(ctx):
        yields = []

        class PP(RenPolicy):
            def on_yield(self, it, value):
                yields.append((value, len(it.ctx.loop_stack)))

            def havoc(self, it, v, base, loop_id, obj, field):
                if base == 'loc_inserted':
                    self.inserted_at_head = it.ctx.branch(z3.Bool('already_inserted_at_loop_head'))
                    return self.inserted_at_head
                return PROCEED
        policy = PP()
        interp = Interp(ctx, policy=policy)
        policy.interp = interp
        suite = ctx.new_obj('list', name='suite')
        sd = ctx.data(suite)
        sd.items = {}
        sd.symlen = z3.Int('n_suite')
        ctx.assume(sd.symlen >= 0)
        from pyvc.interp import _keyname
        sd.elem_factory = lambda key: ctx.new_node(tags_of_class(real_ast.stmt), name='stmt_%s' % _keyname(key))
        new = ctx.new_node({'Assign'}, name='new_statement')
        interp.call(interp.wrap(umod.insert), [suite, new], {})
        inl = [v for v, dpt in yields if dpt > 0]
        after = [v for v, dpt in yields if dpt == 0]
        if not sd.items:
            ctx.check(name + '/empty-suite-gets-just-the-new-statement', [v for v, _ in yields] == [new], kind='inv.init')
            return
        st = list(sd.items.values())[0]
        d = ctx.data(st)
        mod_ = d.fields.get('module')
        fut = z3.And(d.tagvar == tag_const('ImportFrom'), mod_ == z3.StringVal('__future__')) if z3.is_expr(mod_) else z3.BoolVal(False)
        val = d.fields.get('value')
        doc = z3.BoolVal(False)
        if isinstance(val, Obj) and 'Expr' in d.tags:
            c = ctx.data(val).fields.get('value')
            if isinstance(c, SymConst):
                doc = z3.And(d.tagvar == tag_const('Expr'), ctx.data(val).tagvar == tag_const('Constant'), c.kind == 6)
        prefix_kind = z3.Or(fut, doc)
        if policy.inserted_at_head:
            ctx.check(name + '/after-insertion-statements-pass-through-in-order', inl == [st], kind='inv.step', detail=repr(inl))
            ctx.check(name + '/inserted-exactly-once', new not in after, kind='post')
        else:
            if inl == [st]:
                ctx.check(name + '/docstrings-and-future-imports-stay-ahead-of-the-new-statement', prefix_kind, kind='inv.step')
                ctx.check(name + '/appended-at-the-end-when-nothing-else-follows', after == [new], kind='post', detail=repr(after))
            else:
                ctx.check(name + '/new-statement-goes-before-the-first-ordinary-statement', inl == [new, st], kind='inv.step', detail=repr(inl))
                ctx.check(name + '/only-docstrings-and-future-imports-may-precede-it', z3.Not(prefix_kind), kind='inv.step',
                          detail='the new statement was placed before a statement that must stay first')
                ctx.check(name + '/inserted-exactly-once', new not in after, kind='post')
    ex = Explorer()
    ex.explore(run)
    return _finish(ex, name, [source.describe(RU + ':insert')])


def task_placement():
    mod = source.import_module(RL)
    name = 'C06/HoistLiterals.placement'

    # nearest_function_namespace: the result is a function or the module, never a class, lambda or comprehension
    def run(ctx):
        policy = RenPolicy()
        interp = Interp(ctx, policy=policy)
        policy.interp = interp
        o = ctx.new_obj('inst', mod.HoistLiterals, name='self')
        node = ctx.new_node(set(tag_universe()['names']), name='node')
        ns = ctx.new_node(NAMESPACE_TAGS, name='ns')
        ctx.data(node).fields['namespace'] = ns
        rec = []

        def rec_hook(it, f, a, k):
            if a[1] == node:
                return PROCEED
            rec.append(a[1])
            return Opaque('function_namespace_further_out', sort='node')
        interp.hooks[RL + ':HoistLiterals.nearest_function_namespace'] = rec_hook
        r = interp.call(interp.getattr(o, 'nearest_function_namespace'), [node], {})
        nd = ctx.data(ns)
        fn = z3.Or([nd.tagvar == tag_const(t) for t in ('FunctionDef', 'AsyncFunctionDef', 'Module')])
        if rec:
            ctx.check(name + '.nearest_function_namespace/keeps-climbing-through-classes-lambdas-and-comprehensions', z3.And(z3.Not(fn), z3.BoolVal(rec == [ns])), kind='post')
        else:
            ctx.check(name + '.nearest_function_namespace/aliases-live-only-in-function-or-module-bodies', z3.And(fn, z3.BoolVal(r == ns)), kind='post')
    ex = Explorer(); ex.explore(run)
    r1 = _finish(ex, name + '.nearest_function_namespace', [source.describe(RL + ':HoistLiterals.nearest_function_namespace')])

    # common_path: arbitrary iteration: a step is appended only if both paths agree on it; the loop stops at the first disagreement
    def run2(ctx):
        policy = RenPolicy()
        interp = Interp(ctx, policy=policy)
        policy.interp = interp
        o = ctx.new_obj('inst', mod.HoistLiterals, name='self')
        same = z3.Bool('steps_are_the_same_namespace')

        def mk(label):
            lst = ctx.new_obj('list', name=label)
            ld = ctx.data(lst)
            ld.items = {}
            ld.symlen = z3.Int('n_' + label)
            ctx.assume(ld.symlen >= 0)
            return lst
        p1, p2 = mk('path1'), mk('path2')
        shared = ctx.new_node(NAMESPACE_TAGS, name='shared_step')
        other = ctx.new_node(NAMESPACE_TAGS, name='other_step')
        ctx.data(p1).elem_factory = lambda key: shared
        ctx.data(p2).elem_factory = lambda key: shared if ctx.branch(same) else other

        class PP(RenPolicy):
            def havoc_list(self, it, obj, loop_id):
                ctx.data(obj).items = [Opaque('common_prefix_so_far', sort='node')]
                return True
        interp.policy = PP()
        interp.policy.interp = interp
        r = interp.call(interp.getattr(o, 'common_path'), [p1, p2], {})
        items = ctx.data(r).items if isinstance(r, Obj) else None
        if items is None:
            ctx.check(name + '.common_path/returns-a-list', False, kind='post')
            return
        took_step = any(not z3.is_not(c) and c.eq(same) for c in ctx.pc)
        if len(items) == 2:
            ctx.check(name + '.common_path/a-step-is-kept-only-when-both-paths-agree-on-it', took_step and items[1] == shared, kind='inv.step', detail=repr(items))
        elif any(z3.is_not(c) and c.arg(0).eq(same) for c in ctx.pc):
            ctx.check(name + '.common_path/stops-at-the-first-disagreement', items == [Opaque('common_prefix_so_far', sort='node')] or items == [], kind='inv.step',
                      detail=repr(items))
    ex2 = Explorer(); ex2.explore(run2)
    r2 = _finish(ex2, name + '.common_path', [source.describe(RL + ':HoistLiterals.common_path')])

    # HoistedBinding.rename
    def run3(ctx):
        policy = RenPolicy()
        interp = Interp(ctx, policy=policy)
        policy.interp = interp
        value_node = ctx.new_node({'Constant'}, name='first_occurrence')
        local_ns = ctx.new_node({'FunctionDef', 'AsyncFunctionDef', 'Module'}, name='local_namespace')
        refs = ctx.new_obj('list', name='refs')
        rd = ctx.data(refs)
        rd.items = {}
        rd.symlen = z3.Int('n_refs')
        ctx.assume(rd.symlen >= 1)
        from pyvc.interp import _keyname
        rd.elem_factory = lambda key: ctx.new_node({'Constant'}, name='use_%s' % _keyname(key))
        b = ctx.new_obj('inst', mod.HoistedBinding, name='binding')
        ctx.data(b).fields.update({'_value_node': value_node, '_local_namespace': local_ns, '_references': refs, '_name': None, '_allow_rename': True, '_reserved': None})
        new = z3.String('alias_name')
        repl = []
        interp.hooks[RL + ':replace'] = lambda it, f, a, k: repl.append((a[0], a[1]))
        ins = []

        def insert_hook(it, f, a, k):
            ins.append((a[0], a[1]))
            return ctx.new_list([Opaque('body_with_alias_definition', sort='node')])
        interp.hooks[RU + ':insert'] = insert_hook
        body0 = interp.getattr(local_ns, 'body')
        interp.call(interp.getattr(b, 'rename'), [new], {})
        for use, name_node in repl:
            nd = ctx.data(name_node)
            ok = nd.tags == {'Name'} and nd.fields['id'].eq(new) and ctx.data(nd.fields['ctx']).tags == {'Load'} and use in rd.items.values()
            ctx.check(name + '.HoistedBinding.rename/every-use-becomes-a-load-of-the-alias', bool(ok), kind='post')
        ctx.check(name + '.HoistedBinding.rename/uses-are-replaced', len(repl) >= 1, kind='post')
        ok = len(ins) == 1 and ins[0][0] == body0
        if ok:
            st = ctx.data(ins[0][1])
            tg = ctx.data(st.fields['targets']).items if st.tags == {'Assign'} else []
            ok = st.tags == {'Assign'} and len(tg) == 1 and ctx.data(tg[0]).tags == {'Name'} and ctx.data(tg[0]).fields['id'].eq(new) and \
                ctx.data(ctx.data(tg[0]).fields['ctx']).tags == {'Store'} and st.fields['value'] == value_node
        ctx.check(name + '.HoistedBinding.rename/alias-is-assigned-once-the-literal-node-itself-via-insert-into-the-chosen-body', bool(ok), kind='post',
                  detail='inserts %r' % (ins,))
        ctx.check(name + '.HoistedBinding.rename/binding-takes-the-alias-name', ctx.data(b).fields['_name'].eq(new), kind='post')
    ex3 = Explorer(); ex3.explore(run3)
    r3 = _finish(ex3, name + '.HoistedBinding.rename', [source.describe(RL + ':HoistedBinding.rename')])
    for r in (r2, r3):
        r1['obligations'] += r['obligations']
        r1['functions'] += r['functions']
        r1['notes'] += r['notes']
    return r1


# ---------------------------------------------------------------------------------------------------------------------
# cost model (C17 second clause)

def true_delta(kind, a, b):
    """Exact change of the printed length caused by renaming ONE reference of this kind from a name of length a to one of length b
    (what NameBinding.rename writes x what the printers print)."""
    if kind == 'alias-without-asname':
        return 4 + b                 # import foo  ->  import foo as N
    if kind == 'arg-not-in-place':
        return 0                     # the signature keeps the name; the binding as a whole pays for `N=name;` (see BINDING_EXTRA)
    return b - a


def binding_extra(kinds, a, b):
    """Once per binding: a keyword-callable parameter is re-bound in the body: `N=name` plus one separator."""
    if 'arg-not-in-place' in kinds:
        return b + 1 + a + 1
    return 0


def task_cost_model():
    bmod = source.import_module(RB)
    lmod = source.import_module(RL)
    name = 'C17/NameBinding.should_rename'
    kinds = ['Name', 'FunctionDef', 'ClassDef', 'ExceptHandler', 'alias-without-asname', 'alias-with-asname', 'arg-in-place', 'arg-not-in-place', 'MatchAs',
             'MatchStar', 'MatchMapping', 'TypeVar', 'Global-one-name']
    obs = []
    notes = []

    def make_ref(ctx, kind, i):
        tag = {'alias-without-asname': 'alias', 'alias-with-asname': 'alias', 'arg-in-place': 'arg', 'arg-not-in-place': 'arg', 'Global-one-name': 'Global'}.get(kind, kind)
        n = ctx.new_node({tag}, name='ref%d' % i)
        d = ctx.data(n)
        if tag == 'alias':
            d.fields['asname'] = None if kind == 'alias-without-asname' else z3.String('asname%d' % i)
            d.fields['name'] = z3.String('imported%d' % i)
        if tag == 'Name':
            d.fields['ctx'] = ctx.new_node({'Load', 'Store', 'Del'}, name='ctx%d' % i)
        if tag == 'MatchAs':
            d.fields['name'] = z3.String('capture%d' % i)
        if tag == 'Global':
            d.fields['names'] = ctx.new_list([z3.String('the_name')])
        return n

    for combo in [(k,) for k in kinds] + [(k, k) for k in ('alias-without-asname', 'arg-not-in-place', 'Name')] + [('Name', 'alias-without-asname'), ('arg-not-in-place', 'Name'),
                                                                                                                      ('alias-without-asname', 'alias-without-asname', 'Name'), ('alias-without-asname', 'Name', 'Name'),
                                                                                                                      ('arg-not-in-place', 'Name', 'Name', 'Name'), ('alias-with-asname', 'alias-without-asname', 'Name', 'Name'),
                                                                                                                      ('arg-in-place', 'Name', 'Name'), ('ExceptHandler', 'Name', 'Name'), ('Global-one-name', 'Name', 'FunctionDef')]:
        def run(ctx, combo=combo):
            policy = RenPolicy()
            interp = Interp(ctx, policy=policy)
            policy.interp = interp
            refs = [make_ref(ctx, k, i) for i, k in enumerate(combo)]
            inplace = {}
            for r_, k in zip(refs, combo):
                inplace[r_.id] = (k == 'arg-in-place')
            interp.hooks[RU + ':arg_rename_in_place'] = lambda it, f, a, k2: inplace.get(a[0].id, False)
            b = ctx.new_obj('inst', bmod.NameBinding, name='binding')
            nm = z3.String('the_name')
            new = z3.String('new_name')
            ctx.assume(z3.And(z3.Length(nm) >= 1, z3.Length(new) >= 1))
            ctx.data(b).fields.update({'_name': nm, '_allow_rename': True, '_reserved': None, '_references': ctx.new_list(refs)})
            r = interp.call(interp.getattr(b, 'should_rename'), [new], {})
            rz = r if z3.is_expr(r) else z3.BoolVal(bool(r))
            a_, b_ = z3.Length(nm), z3.Length(new)
            delta = sum([true_delta(k, a_, b_) for k in combo]) + binding_extra(combo, a_, b_)
            ctx.check('%s[%s]/rename-only-when-the-output-does-not-grow' % (name, '+'.join(combo)), z3.Implies(rz, delta <= 0), kind='post',
                      detail='exact size change of renaming these references: sum of per-reference deltas plus the re-binding statement')
        ex = Explorer()
        ex.explore(run)
        r = _finish(ex, '%s[%s]' % (name, '+'.join(combo)), [])
        obs += r['obligations']
        notes += r['notes']

    # hoisted literals: k uses of a literal of printed length L
    def run_h(ctx):
        class PP(RenPolicy):
            def call_builtin(self, it, py, args, kwargs):
                if py is repr and isinstance(args[0], SymConst):
                    return Opaque('repr', (args[0],), sort='str')
                if py is type and isinstance(args[0], SymConst):
                    return P.SymConstType(args[0])
                return PROCEED
        policy = PP()
        interp = Interp(ctx, policy=policy)
        policy.interp = interp
        P.install_symconst_type_support()
        vn = ctx.new_node({'Constant'}, name='value_node')
        v = interp.getattr(vn, 'value')
        ctx.assume(z3.Or([v.kind == k for k in (0, 1, 2, 6, 7)]))
        refs = ctx.new_obj('list', name='refs')
        rd = ctx.data(refs)
        rd.items = {}
        rd.symlen = z3.Int('n_uses')
        ctx.assume(rd.symlen >= 1)
        b = ctx.new_obj('inst', lmod.HoistedBinding, name='binding')
        ctx.data(b).fields.update({'_value_node': vn, '_references': refs, '_name': None, '_allow_rename': True, '_reserved': None, '_local_namespace': None})
        new = z3.String('alias')
        ctx.assume(z3.Length(new) >= 1)
        r = interp.call(interp.getattr(b, 'should_rename'), [new], {})
        rz = r if z3.is_expr(r) else z3.BoolVal(bool(r))
        L = z3.Int('len_' + repr(Opaque('repr', (v,), sort='str')))
        ctx.assume(L >= 2)
        k, n = rd.symlen, z3.Length(new)
        delta = (n + 1 + L + 1) + k * (n - L)
        ctx.check('C17/HoistedBinding.should_rename/hoist-only-when-the-output-does-not-grow', z3.Implies(rz, delta <= 0), kind='post',
                  detail='alias definition `N=<literal>` plus separator, and every use shrinks from the printed literal (length of repr) to the alias')
    ex = Explorer()
    ex.explore(run_h)
    r = _finish(ex, 'C17/HoistedBinding.should_rename', [])
    obs += r['obligations']
    notes += r['notes']
    fns = [source.describe(RB + ':NameBinding.should_rename'), source.describe(RB + ':Binding.old_mention_count'), source.describe(RB + ':Binding.new_mention_count'),
           source.describe(RB + ':Binding.additional_byte_cost'), source.describe(RL + ':HoistedBinding.should_rename')]
    return result(obs, fns, ASSUMPTIONS, notes=notes)


def task_hoist_call():
    """HoistLiterals.__call__: the "annotations are postponed" flag is set whenever ANY statement of the module body is `from __future__ import ...`
    with an alias named annotations (C06 / C01: under PEP 563 an annotation is evaluated later, possibly in another scope, so the visitors - whose
    contracts take the flag as given - must be told); then the module is visited and the bindings are placed."""
    P.install_symconst_type_support()
    mod = source.import_module(RL)
    name = 'C06/HoistLiterals.__call__'
    import ast as real_ast

    def run(ctx):
        policy = RenPolicy()
        interp = Interp(ctx, policy=policy)
        policy.interp = interp
        module = ctx.new_node({'Module'}, name='module')
        o = ctx.new_obj('inst', mod.HoistLiterals, name='self')
        calls = []
        interp.hooks[RL + ':HoistLiterals.visit'] = lambda it, f, a, k: calls.append(('visit', a[1]))
        for k in mod.HoistLiterals.__mro__:
            if k.__module__.startswith('python_minifier') and 'visit' in k.__dict__:
                interp.hooks['%s:%s.visit' % (k.__module__, k.__name__)] = lambda it, f, a, k: calls.append(('visit', a[1]))
        interp.hooks[RL + ':HoistLiterals.place_bindings'] = lambda it, f, a, k: calls.append(('place',))
        interp.call(interp.getattr(o, '__call__'), [module], {})
        flag = ctx.data(o).fields.get('_lazy_annotations')
        ctx.check(name + '/module-is-visited-then-bindings-are-placed', calls == [('visit', module), ('place',)], kind='post', detail=repr(calls))
        ctx.check(name + '/sets-the-postponed-annotations-flag', flag is not None, kind='post')
        if flag is None:
            return
        fz = flag if z3.is_expr(flag) else z3.BoolVal(bool(flag))
        body = ctx.data(module).fields.get('body')
        examined = [(k, e) for k, e in (ctx.data(body).items.items() if isinstance(body, Obj) else []) if isinstance(e, Obj)]
        ctx.check(name + '/every-statement-of-the-module-body-is-examined', bool(examined), kind='post',
                  detail='[needs-witness] the flag is computed without looking at the statements of the module body')
        for k, e in examined:
            ed = ctx.data(e)
            if 'ImportFrom' not in ed.tags:
                continue
            if not (ed.tags == {'ImportFrom'} or ctx.branch(ed.tagvar == tag_const('ImportFrom'))):
                continue
            interp.narrow(e, {'ImportFrom'})
            m = interp.getattr(e, 'module')
            if m is None:
                continue
            names = interp.getattr(e, 'names')
            al = [a for ak, a in ctx.data(names).items.items() if isinstance(a, Obj)]
            ctx.check(name + '/alias-names-of-a-future-import-are-examined', bool(al) or ctx.solver.check(m == z3.StringVal('__future__')) != z3.sat, kind='post',
                      detail='[needs-witness] a from-import statement is classified without looking at its alias names')
            for a in al:
                an = interp.getattr(a, 'name')
                ctx.check(name + '/from-__future__-import-annotations-sets-the-flag',
                          z3.Implies(z3.And(m == z3.StringVal('__future__'), an == z3.StringVal('annotations')), fz), kind='post',
                          detail='an arbitrary statement of the module body is `from __future__ import annotations` (arbitrary alias) and the flag is %s' % (flag,))
    ex = Explorer(max_paths=2000)
    ex.explore(run)
    res = result([o.to_json() for o in ex.obligations], [source.describe(RL + ':HoistLiterals.__call__')], [])
    if ex.undecided_reason:
        res['obligations'].append({'name': name + '/engine', 'status': 'undecided', 'detail': ex.undecided_reason, 'model': {}, 'time_s': 0, 'backend': 'engine', 'path': None,
                                   'kind': 'engine', 'goal': None})
    res['notes'].append('%s: %d feasible paths' % (name, len([p for p in ex.paths if p[0] == 'ok'])))
    return res
