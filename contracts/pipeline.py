"""Contract of python_minifier.minify (the pipeline): C01 composition, C05 gating, C09 freeze, C10 preserve flow, C11 argument frame,
C16 shebang tail, C08 SyntaxError clause.

The real body of minify() is executed with every option as a free symbol; each stage (transformer __call__, bind_names, rename, unparse,
...) is a contract call recorded in an event log.  Obligations are statements about that log on every path.
"""
import z3

from pyvc import source
from pyvc.engine import (ExcVal, Explorer, Native, Obj, Opaque, Raised, SymStr, Undecided, tag_const)
from pyvc.interp import PROCEED, Interp, Policy
from pyvc.runner import result

PM = 'python_minifier'
BOOL_OPTS = ('remove_pass', 'remove_literal_statements', 'combine_imports', 'hoist_literals', 'rename_locals', 'rename_globals',
             'remove_object_base', 'convert_posargs_to_args', 'remove_asserts', 'remove_debug', 'remove_explicit_return_none',
             'remove_builtin_exception_brackets', 'constant_folding')
STAGE_OF = {'RemoveLiteralStatements': 'remove_literal_statements', 'CombineImports': 'combine_imports', 'RemovePass': 'remove_pass',
            'RemoveObject': 'remove_object_base', 'RemoveAsserts': 'remove_asserts', 'RemoveDebug': 'remove_debug',
            'RemoveExplicitReturnNone': 'remove_explicit_return_none', 'FoldConstants': 'constant_folding'}
ORDER = ['parse', 'add_parent', 'add_namespace', 'TRANSFORMS', 'bind_names', 'resolve_names', 'remove_no_arg_exception_call',
         'allow_rename_locals', 'allow_rename_globals', 'rename_literals', 'rename', 'remove_posargs', 'unparse']

ASSUMPTIONS = [
    'every stage is used by contract here: it receives the module and returns it (transformers: verified in contracts/transforms.py; '
    'renamer stages: contracts/renamer.py); ast.parse returns a Module or raises SyntaxError',
    'module.tainted / module.preserved are set by bind_names / resolve_names (contracts/renamer.py)',
    'typestate order is required only where a stage reads annotations another stage writes (DESIGN appendix C)',
]


class GuardedInterp(Interp):
    """If-conversion for the straight-line option tests of minify(): `if <symbolic flag>: <stage calls / boolean assignments>` is executed
    once with the condition pushed on a guard stack (every recorded event carries the conjunction of its guards) and boolean locals
    assigned in the body are merged with z3 If.  Sound here because every stage call is a contract call that returns the module it was
    given; any other statement shape falls back to ordinary path forking."""

    guards = ()

    def convertible(self, body):
        import ast as pyast
        for st in body:
            if isinstance(st, pyast.Assign) and len(st.targets) == 1 and isinstance(st.targets[0], pyast.Name):
                continue
            if isinstance(st, pyast.Expr) and isinstance(st.value, pyast.Call):
                continue
            return False
        return True

    def stmt_If(self, s, env):
        import ast as pyast
        if not s.orelse and self.convertible(s.body):
            c = self.eval(s.test, env)
            if z3.is_expr(c) and z3.is_bool(c) and not z3.is_true(z3.simplify(c)) and not z3.is_false(z3.simplify(c)):
                before = dict(env.vars)
                self.guards = self.guards + (c,)
                try:
                    self.exec_block(s.body, env)
                finally:
                    self.guards = self.guards[:-1]
                for k, v in list(env.vars.items()):
                    old = before.get(k, None)
                    if v is old or (isinstance(v, Obj) and v == old):
                        continue
                    if (isinstance(v, bool) or (z3.is_expr(v) and z3.is_bool(v))) and (isinstance(old, bool) or (z3.is_expr(old) and z3.is_bool(old))):
                        zb = lambda x: x if z3.is_expr(x) else z3.BoolVal(x)
                        env.vars[k] = z3.If(c, zb(v), zb(old))
                    else:
                        raise Undecided('if-conversion cannot merge %s' % k)
                return
            if self.truth(c):
                self.exec_block(s.body, env)
            return
        return Interp.stmt_If(self, s, env)

    def expr_BoolOp(self, e, env):
        import ast as pyast
        vals = [self.eval(x, env) for x in e.values] if all(isinstance(x, (pyast.Name, pyast.Attribute, pyast.UnaryOp, pyast.Constant)) for x in e.values) else None
        if vals is not None and all(isinstance(v, bool) or (z3.is_expr(v) and z3.is_bool(v)) for v in vals) and any(z3.is_expr(v) for v in vals):
            zs = [v if z3.is_expr(v) else z3.BoolVal(v) for v in vals]
            return z3.And(zs) if isinstance(e.op, pyast.And) else z3.Or(zs)
        return Interp.expr_BoolOp(self, e, env)

    def expr_UnaryOp(self, e, env):
        import ast as pyast
        if isinstance(e.op, pyast.Not):
            v = self.eval(e.operand, env)
            if z3.is_expr(v) and z3.is_bool(v):
                return z3.Not(v)
            return not self.truth(v)
        return Interp.expr_UnaryOp(self, e, env)


def task_minify():
    pm = source.import_module(PM)
    import python_minifier.ast_compat as compat
    from python_minifier.transforms.remove_annotations_options import RemoveAnnotationsOptions
    name = 'minify'
    pruned = set()

    def run(ctx):
        policy = Policy()
        interp = GuardedInterp(ctx, policy=policy)
        ev = []
        flags = dict((o, z3.Bool('opt_' + o)) for o in BOOL_OPTS)
        src = Opaque('source', sort='str')
        module = ctx.new_node({'Module'}, name='module')
        md = ctx.data(module)

        def parse_model(it, args, kwargs):
            ev.append(('parse', args, {}, ()))
            if ctx.branch(z3.Bool('source_does_not_parse')):
                raise Raised(ExcVal(SyntaxError, ('from ast.parse',)))
            return module
        interp.natives[compat.parse] = parse_model

        def stage(nm, ret='module'):
            def h(it, f, args, kwargs):
                ev.append((nm, list(args), dict(kwargs), interp.guards))
                if nm == 'bind_names':
                    md.fields['tainted'] = z3.Bool('tainted_after_bind')
                    pres = ctx.new_obj('list', name='module_preserved')
                    pd = ctx.data(pres)
                    pd.items = {}
                    pd.symlen = z3.Int('n_module_preserved')
                    ctx.assume(pd.symlen >= 0)
                    pd.elem_factory = lambda key: z3.String('preserved_typevar_%s' % key if isinstance(key, int) else 'preserved_typevar_g')
                    md.fields['preserved'] = pres
                if nm == 'resolve_names':
                    md.fields['tainted'] = z3.Bool('tainted')
                if nm == 'unparse':
                    return Opaque('minified_text', sort='str')
                if nm == '_find_shebang':
                    if ctx.branch(z3.Bool('no_shebang')):
                        return None
                    return Opaque('shebang_line', sort='str')
                if nm == 'remove_posargs':
                    return args[0]
                return None
            return h
        interp.hooks['python_minifier.ast_annotation:add_parent'] = stage('add_parent')
        interp.hooks['python_minifier.rename.mapper:add_namespace'] = stage('add_namespace')
        interp.hooks['python_minifier.rename.bind_names:bind_names'] = stage('bind_names')
        interp.hooks['python_minifier.rename.resolve_names:resolve_names'] = stage('resolve_names')
        interp.hooks['python_minifier.transforms.remove_exception_brackets:remove_no_arg_exception_call'] = stage('remove_no_arg_exception_call')
        interp.hooks['python_minifier.rename.util:allow_rename_locals'] = stage('allow_rename_locals')
        interp.hooks['python_minifier.rename.util:allow_rename_globals'] = stage('allow_rename_globals')
        interp.hooks['python_minifier.rename.rename_literals:rename_literals'] = stage('rename_literals')
        interp.hooks['python_minifier.rename.renamer:rename'] = stage('rename')
        interp.hooks['python_minifier.transforms.remove_posargs:remove_posargs'] = stage('remove_posargs')
        interp.hooks[PM + ':unparse'] = stage('unparse')

        def find_all_hook(it, f, a, k):
            # not called by minify() today; by contract: a list of unknown length (the literal entries of __all__)
            lst = ctx.new_obj('list', name=ctx.fresh('names_in___all__'))
            ld = ctx.data(lst)
            ld.items = {}
            ld.symlen = z3.Int(ctx.fresh('n_names_in___all__'))
            ctx.assume(ld.symlen >= 0)
            ld.elem_factory = lambda key: z3.String(ctx.fresh('name_in___all__'))
            return lst
        interp.hooks['python_minifier.rename.util:find__all__'] = find_all_hook
        interp.hooks[PM + ':_find_shebang'] = stage('_find_shebang')

        def call_hook(it, f, args, kwargs):
            cls = ctx.data(args[0]).cls
            ev.append(('T:' + cls.__name__, list(args), dict(kwargs), interp.guards))
            return args[1]
        import python_minifier.transforms.suite_transformer as stm
        for modname, cname in (('remove_literal_statements', 'RemoveLiteralStatements'), ('combine_imports', 'CombineImports'),
                               ('remove_annotations', 'RemoveAnnotations'), ('remove_pass', 'RemovePass'), ('remove_object_base', 'RemoveObject'),
                               ('remove_asserts', 'RemoveAsserts'), ('remove_debug', 'RemoveDebug'),
                               ('remove_explicit_return_none', 'RemoveExplicitReturnNone'), ('constant_folding', 'FoldConstants')):
            m = source.import_module('python_minifier.transforms.' + modname)
            cls = getattr(m, cname)
            for k in cls.__mro__:
                if '__call__' in k.__dict__ and k.__module__.startswith('python_minifier'):
                    interp.hooks['%s:%s.__call__' % (k.__module__, k.__name__)] = call_hook
        # ---- arguments -----------------------------------------------------------------------------------------------------
        kw = dict(flags)
        which_ra = ctx.choose(3, 'remove_annotations_kind')
        ra_bool = None
        ra_opts = None
        if which_ra == 0:
            ra_bool = z3.Bool('remove_annotations_bool')
            kw['remove_annotations'] = ra_bool
        elif which_ra == 1:
            ra_opts = ctx.new_obj('inst', RemoveAnnotationsOptions, name='ra_options')
            for f in ('remove_variable_annotations', 'remove_return_annotations', 'remove_argument_annotations', 'remove_class_attribute_annotations'):
                ctx.data(ra_opts).fields[f] = z3.Bool('ra_' + f)
            kw['remove_annotations'] = ra_opts
        else:
            kw['remove_annotations'] = 'yes please'
        ps = ctx.choose(3, 'preserve_shebang_kind')
        kw['preserve_shebang'] = (True, False, 1)[ps]
        caller_lists = {}
        for pname in ('preserve_locals', 'preserve_globals'):
            k = ctx.choose(3, pname + '_kind')
            if k == 0:
                kw[pname] = None
            elif k == 1:
                kw[pname] = z3.String(pname + '_single')
            else:
                lst = ctx.new_obj('list', name='caller_' + pname)
                ld = ctx.data(lst)
                ld.items = {}
                ld.symlen = z3.Int('n_caller_' + pname)
                ctx.assume(ld.symlen >= 0)
                ld.elem_factory = lambda key, pname=pname: z3.String('%s_elem_%s' % (pname, key if isinstance(key, int) else 'g'))
                kw[pname] = lst
                caller_lists[pname] = (lst, ld.symlen)
        fn = ctx.choose(2, 'filename_kind')
        filename = None if fn == 0 else z3.String('filename')
        raised = None
        r = None
        try:
            r = interp.call(interp.wrap(pm.minify), [src, filename], kw)
        except Raised as e:
            raised = e.exc
        pruned.update(interp.pruned)
        names = [e[0] for e in ev]
        # ---- C08: SyntaxError clause ---------------------------------------------------------------------------------------------
        ctx.check('C08/minify/parses-the-source-first', names[:1] == ['parse'] and ev[0][1][0] is src, kind='post', detail=repr(names[:2]))
        if raised is not None:
            parse_failed = any(c.eq(z3.Bool('source_does_not_parse')) for c in ctx.pc)
            if raised.cls is SyntaxError:
                ctx.check('C08/minify/syntax-error-of-the-parser-is-propagated-unchanged', parse_failed and names == ['parse'], kind='post')
            else:
                ctx.check('C08/minify/only-a-bad-remove_annotations-argument-is-rejected', raised.cls is TypeError and which_ra == 2, kind='noraise',
                          detail='raised %r' % (raised,))
            return
        ctx.check('C08/minify/unparsable-source-never-returns', not any(c.eq(z3.Bool('source_does_not_parse')) for c in ctx.pc), kind='post')
        # ---- C05: gating ---------------------------------------------------------------------------------------------------------
        def when(nm):
            conds = [z3.And(list(e[3])) if e[3] else z3.BoolVal(True) for e in ev if e[0] == nm]
            return z3.Or(conds) if conds else z3.BoolVal(False)
        for cname, opt in sorted(STAGE_OF.items()):
            ctx.check('C05/minify/%s-runs-exactly-when-%s-is-on' % (cname, opt), when('T:' + cname) == flags[opt], kind='post')
            ctx.check('C05/minify/%s-runs-at-most-once' % cname, names.count('T:' + cname) <= 1, kind='post')
        ran_ra = when('T:RemoveAnnotations')
        if which_ra == 0:
            ctx.check('C05/minify/RemoveAnnotations-runs-exactly-when-remove_annotations-is-true', ran_ra == ra_bool, kind='post')
        elif which_ra == 1:
            anyf = z3.Or([ctx.data(ra_opts).fields[f] for f in ('remove_variable_annotations', 'remove_return_annotations',
                                                                 'remove_argument_annotations', 'remove_class_attribute_annotations')])
            ctx.check('C05/minify/RemoveAnnotations-runs-exactly-when-some-annotation-option-is-on', ran_ra == anyf, kind='post')
        for e in [x for x in ev if x[0] == 'T:RemoveAnnotations']:
            o = ctx.data(e[1][0]).fields.get('_options')
            if which_ra == 1:
                ctx.check('C05/minify/RemoveAnnotations-receives-the-callers-options', o == ra_opts, kind='post')
            else:
                od = ctx.data(o).fields if isinstance(o, Obj) else {}
                ok = all(z3.is_expr(od.get(f)) and od.get(f).eq(ra_bool) for f in ('remove_variable_annotations', 'remove_return_annotations',
                                                                                     'remove_argument_annotations', 'remove_class_attribute_annotations'))
                ctx.check('C05/minify/remove_annotations-bool-selects-all-four-kinds', ok, kind='post')
        tainted = z3.Bool('tainted')
        ctx.check('C05/minify/exception-brackets-removed-exactly-when-option-on-and-module-not-tainted',
                  when('remove_no_arg_exception_call') == z3.And(flags['remove_builtin_exception_brackets'], z3.Not(tainted)), kind='post')
        ran_hoist = when('rename_literals')
        ctx.check('C05/minify/literals-hoisted-only-when-hoist_literals-is-on', z3.Implies(ran_hoist, flags['hoist_literals']), kind='post')
        ctx.check('C09/minify/no-hoisting-in-a-tainted-module', z3.Implies(ran_hoist, z3.Not(tainted)), kind='post',
                  detail='rename_literals introduces new names')
        ctx.check('C06/minify/hoisting-runs-when-requested-and-safe', z3.Implies(z3.And(flags['hoist_literals'], z3.Not(tainted)), ran_hoist), kind='post')
        ctx.check('C05/minify/posargs-converted-exactly-when-option-on', when('remove_posargs') == flags['convert_posargs_to_args'], kind='post')
        # ---- C01: order / typestate -------------------------------------------------------------------------------------------------
        def rank(n):
            if n.startswith('T:'):
                return ORDER.index('TRANSFORMS')
            return ORDER.index(n) if n in ORDER else None
        seq = [rank(n) for n in names if rank(n) is not None]
        ctx.check('C01/minify/stages-run-in-dependency-order', seq == sorted(seq), kind='pre@call', detail=repr(names))
        for must in ('parse', 'add_parent', 'add_namespace', 'bind_names', 'resolve_names', 'allow_rename_locals', 'allow_rename_globals', 'rename', 'unparse'):
            ctx.check('C01/minify/%s-always-runs-once' % must, names.count(must) == 1 and not [e for e in ev if e[0] == must][0][3], kind='post')
        for e in ev:
            if e[0] in ORDER and e[0] not in ('parse',) or e[0].startswith('T:'):
                a = e[1]
                m_arg = a[1] if e[0].startswith('T:') else (a[0] if a else None)
                ctx.check('C01/minify/every-stage-works-on-the-parsed-module', m_arg == module, kind='post', detail='%s got %r' % (e[0], m_arg))
        # ---- C09: freeze ---------------------------------------------------------------------------------------------------------------
        arl = [e for e in ev if e[0] == 'allow_rename_locals'][0]
        arg_ = [e for e in ev if e[0] == 'allow_rename_globals'][0]
        rn = [e for e in ev if e[0] == 'rename'][0]

        def argval(e, i, nm):
            return e[1][i] if len(e[1]) > i else e[2].get(nm)
        rl, rg = argval(arl, 1, 'rename_locals'), argval(arg_, 1, 'rename_globals')

        def zb(v):
            return v if z3.is_expr(v) else z3.BoolVal(bool(v))
        ctx.check('C09/minify/tainted-module-never-renames-locals', z3.Implies(tainted, z3.Not(zb(rl))), kind='post')
        ctx.check('C09/minify/tainted-module-never-renames-globals', z3.Implies(tainted, z3.Not(zb(rg))), kind='post')
        ctx.check('C04/minify/locals-renamed-only-on-request', z3.Implies(zb(rl), flags['rename_locals']), kind='post')
        ctx.check('C04/minify/globals-renamed-only-on-request', z3.Implies(zb(rg), flags['rename_globals']), kind='post')
        ctx.check('C04/minify/rename-is-asked-for-when-not-tainted', z3.Implies(z3.Not(tainted), z3.And(zb(rl) == flags['rename_locals'], zb(rg) == flags['rename_globals'])),
                  kind='post')
        pg = argval(rn, 1, 'prefix_globals')
        ctx.check('C04/minify/added-globals-get-a-prefix-unless-globals-are-renamed', zb(pg) == z3.Not(zb(rg)), kind='post')
        # ---- C10 / C11: preserve lists -----------------------------------------------------------------------------------------------
        for pname, e, idx in (('preserve_locals', arl, 2), ('preserve_globals', arg_, 2)):
            got = argval(e, idx, pname)
            given = kw[pname]
            ok_list = isinstance(got, Obj) and ctx.data(got).kind == 'list'
            ctx.check('C10/minify/%s-reaches-the-renamer-as-a-list' % pname, ok_list, kind='post', detail=repr(got))
            if not ok_list:
                continue
            gd = ctx.data(got)
            parts = gd.extra.get('parts')
            if given is None:
                base_ok = parts is not None and parts[:-1] == [] or (parts is not None and parts[0] == ('items', []))
                base_ok = parts is not None and len(parts) == 1
            elif z3.is_expr(given):
                base_ok = parts is not None and len(parts) == 2 and parts[0][0] == 'items' and len(parts[0][1]) == 1 and parts[0][1][0].eq(given)
            else:
                base_ok = gd.extra.get('copy_of') == given and parts is not None and parts[0][0] == 'self0'
                ctx.check('C11/minify/%s-list-of-the-caller-is-copied-not-extended' % pname, got != given and 'parts' not in ctx.data(given).extra
                          and ctx.data(given).symlen.eq(caller_lists[pname][1]), kind='frame',
                          detail='the list object handed to the renamer must not be the caller\'s list')
            ctx.check('C10/minify/%s-names-are-all-passed-on' % pname, bool(base_ok), kind='post', detail='parts %r' % (parts,))
            ext_ok = parts is not None and parts[-1] == ('list', md.fields.get('preserved'))
            ctx.check('C10/minify/%s-is-extended-by-the-module-preserved-names' % pname, bool(ext_ok), kind='post', detail=repr(parts))
        ctx.check('C10/minify/preserved-globals-are-reserved-during-renaming', argval(rn, 2, 'preserved_globals') == argval(arg_, 2, 'preserve_globals'), kind='post')
        # ---- C16: shebang tail ------------------------------------------------------------------------------------------------------------
        found = 'no_shebang' in ' '.join(c.sexpr() for c in ctx.pc)
        sheb = [e for e in ev if e[0] == '_find_shebang']
        if kw['preserve_shebang'] is True:
            ctx.check('C16/minify/shebang-is-looked-up-in-the-original-source', len(sheb) == 1 and sheb[0][1][0] is src, kind='post')
            has = not any(c.eq(z3.Bool('no_shebang')) for c in ctx.pc)
            if has:
                ok = isinstance(r, SymStr) and list(r.parts) == [Opaque('shebang_line', sort='str'), '\n', Opaque('minified_text', sort='str')]
                ctx.check('C16/minify/shebang-line-then-newline-then-minified-module', ok, kind='post', detail=repr(r))
            else:
                ctx.check('C16/minify/no-shebang-gives-the-minified-module-alone', r == Opaque('minified_text', sort='str'), kind='post', detail=repr(r))
        else:
            ctx.check('C16/minify/shebang-dropped-unless-preserve_shebang-is-True', r == Opaque('minified_text', sort='str') and not sheb, kind='post', detail=repr(r))
        ctx.check('C01/minify/result-is-the-unparsed-final-tree', names[-1] in ('unparse', '_find_shebang') and 'unparse' in names, kind='post')
    ex = Explorer(max_paths=20000)
    ex.explore(run)
    res = result([o.to_json() for o in ex.obligations], [source.describe(PM + ':minify')], ASSUMPTIONS, pruned=sorted(pruned))
    if ex.undecided_reason:
        res['obligations'].append({'name': 'C01/minify/engine', 'status': 'undecided', 'detail': ex.undecided_reason, 'model': {}, 'time_s': 0,
                                   'backend': 'engine', 'path': None, 'kind': 'engine', 'goal': None})
    ok = len([p for p in ex.paths if p[0] == 'ok'])
    res['notes'].append('minify: %d feasible paths' % ok)
    return res


# ---------------------------------------------------------------------------------------------------------------------
# C01: composition lemma over the stage contracts

ADEQUACY = [
    ('parse/print', 'the printed text parses back to the printed tree (C02) and the tree is what CPython would compile (external)'),
    ('RemoveLiteralStatements', 'dropping an expression statement that is a literal has no effect; a suite never becomes empty (C05); module docstring kept when __doc__ is used'),
    ('CombineImports', 'adjacent imports merged in source order execute the same imports in the same order (C05)'),
    ('RemoveAnnotations', 'dropping an annotation changes only __annotations__ PROVIDED its expression has no effect (side condition NOT established by the code: KF-15)'),
    ('RemovePass', 'pass has no effect; an emptied suite gets the expression statement 0 (C05)'),
    ('RemoveObject', 'class C(object) == class C PROVIDED object is the builtin (side condition established conservatively: nothing in the module binds the name and there is no star import; C05/RemoveObject.*, C05/rebinds_object/*)'),
    ('RemoveAsserts', 'only on request (not a safe option)'),
    ('RemoveDebug', 'only on request (not a safe option)'),
    ('RemoveExplicitReturnNone', 'return None == return; a trailing bare return == falling off the end (C05)'),
    ('FoldConstants', 'the replacement literal has the value and type of the expression (C07)'),
    ('remove_no_arg_exception_call', 'raise E() == raise E PROVIDED E is an un-shadowed builtin exception class (C05: builtin binding, not redefined, whitelisted, not tainted)'),
    ('rename_literals', 'an alias bound once, first in an enclosing function/module body, to the identical constant (C06); identity of equal immutable constants is not observable behaviour'),
    ('rename', 'alpha-renaming of bindings that are not part of the interface (C03, C04, C09, C10)'),
    ('remove_posargs', 'a, / -> a PROVIDED no **kwargs parameter can capture the name (side condition established: C05/remove_posargs/marker-kept-when-kwargs-can-capture-the-name); a call that passed a positional-only name as a keyword and raised TypeError is outside "runnable programs"'),
]


def task_composition():
    """Lemma (no code): observable behaviour is preserved by the pipeline if every enabled stage is adequate.  `equiv` is an uninterpreted
    equivalence on programs; the stage contracts give equiv(p_i, p_{i+1}); z3 derives equiv(p_0, p_n) for every subset of enabled stages."""
    import z3
    Prog = z3.DeclareSort('Prog')
    equiv = z3.Function('equiv', Prog, Prog, z3.BoolSort())
    x, y, w = z3.Consts('x y w', Prog)
    axioms = [z3.ForAll([x], equiv(x, x)), z3.ForAll([x, y, w], z3.Implies(z3.And(equiv(x, y), equiv(y, w)), equiv(x, w)))]
    n = len(ADEQUACY)
    ps = [z3.Const('p%d' % i, Prog) for i in range(n + 1)]
    enabled = [z3.Bool('enabled_%s' % ADEQUACY[i][0].replace('/', '_')) for i in range(n)]
    adequate = [z3.Bool('adequate_%s' % ADEQUACY[i][0].replace('/', '_')) for i in range(n)]
    steps = []
    for i in range(n):
        steps.append(z3.Implies(z3.And(enabled[i], adequate[i]), equiv(ps[i], ps[i + 1])))     # contract of stage i
        steps.append(z3.Implies(z3.Not(enabled[i]), ps[i] == ps[i + 1]))                       # a stage that is off does nothing (C05 gating)
    goal = z3.Implies(z3.And([z3.Implies(enabled[i], adequate[i]) for i in range(n)]), equiv(ps[0], ps[n]))
    s = z3.Solver()
    s.set('timeout', 20000)
    s.add(axioms + steps)
    s.add(z3.Not(goal))
    import time
    t0 = time.time()
    r = s.check()
    obs = [{'name': 'C01/lemma/enabled-adequate-stages-compose-to-behavioural-equivalence', 'status': 'proved' if r == z3.unsat else ('refuted' if r == z3.sat else 'undecided'),
            'detail': 'transitivity of the uninterpreted equivalence over %d stages, every subset of enabled stages' % n, 'model': {}, 'time_s': time.time() - t0,
            'backend': 'z3', 'path': None, 'kind': 'lemma', 'goal': 'forall subsets of enabled stages: (enabled_i => adequate_i) => equiv(p0, pn)'}]
    # vacuity twin: without the stage contracts the goal must fail
    s2 = z3.Solver()
    s2.add(axioms)
    s2.add(z3.Not(goal))
    s2.add(enabled[0])
    obs.append({'name': 'C01/lemma/cover-goal-is-not-trivial', 'status': 'proved' if s2.check() == z3.sat else 'refuted', 'detail': 'the goal is refutable without the stage contracts',
                'model': {}, 'time_s': 0, 'backend': 'z3', 'path': None, 'kind': 'cover', 'goal': None})
    return result(obs, [source.describe(PM + ':minify')], ASSUMPTIONS + ['adequacy axiom (trusted): %s -- %s' % a for a in ADEQUACY])


def task_defaults():
    """The default value of every switch of minify() is the documented one (C01 quantifies over "the defaults", C05 says docstrings/asserts/debug
    only on request).  Read from the real signature and from docs/source/transforms/*.rst on every run; remove_annotations defaults to the
    options object whose own defaults are documented on its page (variables, arguments and returns: yes; class attributes: no)."""
    import ast as pyast
    from spec import cli_docs
    fi, node = source.find_def(PM + ':minify')
    args = node.args
    names = [a.arg for a in args.args]
    defs = dict(zip(names[len(names) - len(args.defaults):], args.defaults))
    documented = cli_docs.defaults_from_docs(source.REPO)
    obs = []
    for opt, want in sorted(documented.items()):
        d = defs.get(opt)
        ok = isinstance(d, pyast.Constant) and d.value is want
        obs.append({'name': 'C05/minify/default-of-%s-is-the-documented-one' % opt, 'status': 'proved' if ok else 'refuted',
                    'detail': 'documented: %s by default; signature default: %s' % ('enabled' if want else 'disabled', pyast.unparse(d) if d is not None else 'missing'),
                    'model': {opt: (pyast.unparse(d) if d is not None else None)}, 'time_s': 0, 'backend': 'eval', 'path': None, 'kind': 'post', 'goal': None})
    # rename_globals: "disabled by default" is spread over a line break in its page; stated in the README/usage as off
    d = defs.get('rename_globals')
    obs.append({'name': 'C05/minify/default-of-rename_globals-is-off', 'status': 'proved' if isinstance(d, pyast.Constant) and d.value is False else 'refuted',
                'detail': 'rename_globals changes the module interface (C04): never on unless requested', 'model': {}, 'time_s': 0, 'backend': 'eval', 'path': None,
                'kind': 'post', 'goal': None})
    # RemoveAnnotationsOptions defaults
    fi2, init = source.find_def(PM + '.transforms.remove_annotations_options:RemoveAnnotationsOptions.__init__')
    a2 = init.args
    n2 = [a.arg for a in a2.args]
    d2 = dict(zip(n2[len(n2) - len(a2.defaults):], a2.defaults))
    want2 = {'remove_variable_annotations': True, 'remove_return_annotations': True, 'remove_argument_annotations': True, 'remove_class_attribute_annotations': False}
    for opt, want in sorted(want2.items()):
        d = d2.get(opt)
        ok = isinstance(d, pyast.Constant) and d.value is want
        obs.append({'name': 'C05/RemoveAnnotationsOptions/default-of-%s-is-the-documented-one' % opt, 'status': 'proved' if ok else 'refuted',
                    'detail': 'documented: "By default annotations are removed from variables, function arguments and function return, but not from class attributes"',
                    'model': {}, 'time_s': 0, 'backend': 'eval', 'path': None, 'kind': 'post', 'goal': None})
    d = defs.get('remove_annotations')
    ok = isinstance(d, pyast.Call) and isinstance(d.func, pyast.Name) and d.func.id == 'RemoveAnnotationsOptions' and not d.args and not d.keywords
    obs.append({'name': 'C05/minify/default-of-remove_annotations-is-the-default-options-object', 'status': 'proved' if ok else 'refuted',
                'detail': pyast.unparse(d) if d is not None else 'missing', 'model': {}, 'time_s': 0, 'backend': 'eval', 'path': None, 'kind': 'post', 'goal': None})
    return result(obs, [source.describe(PM + ':minify'), source.describe(PM + '.transforms.remove_annotations_options:RemoveAnnotationsOptions.__init__')],
                  ['documentation pages docs/source/transforms/*.rst are the reference for defaults'], notes=['documented defaults: %r' % (documented,)])



def task_awslambda():
    """awslambda(source, filename, entrypoint): globals are renamed exactly when an entrypoint is named, and the entrypoint is the preserved global (C10, C04)."""
    pm = source.import_module(PM)
    name = 'C10/awslambda'

    def run(ctx):
        from pyvc.interp import Interp, Policy
        interp = Interp(ctx, policy=Policy())
        has_entry = ctx.branch(z3.Bool('entrypoint_given'))
        entry = z3.String('entrypoint') if has_entry else None
        src, fn = z3.String('source'), z3.String('filename')
        calls = []
        res = z3.String('minify_result')
        interp.hooks[PM + ':minify'] = lambda it, f, a, k: (calls.append((list(a), dict(k))), res)[1]
        r = interp.call(interp.wrap(pm.awslambda), [src, fn, entry], {})
        ctx.check(name + '/calls-minify-once-and-returns-its-result', len(calls) == 1 and r is res, kind='post')
        if len(calls) != 1:
            return
        a, k = calls[0]
        rg = k.get('rename_globals')
        rgz = rg if z3.is_expr(rg) else z3.BoolVal(bool(rg))
        ctx.check('C04/awslambda/globals-are-renamed-exactly-when-an-entrypoint-is-named', rgz == z3.BoolVal(has_entry), kind='post', detail='rename_globals=%r' % (rg,))
        pg = k.get('preserve_globals')
        items = ctx.data(pg).items if hasattr(pg, 'id') else None
        ctx.check(name + '/the-entrypoint-is-the-preserved-global', items is not None and len(items) == 1 and (items[0] is entry), kind='post', detail=repr(items))
        ctx.check(name + '/source-and-filename-are-passed-through', len(a) >= 2 and a[0] is src and a[1] is fn, kind='post')
    ex = Explorer()
    ex.explore(run)
    res = result([o.to_json() for o in ex.obligations], [source.describe(PM + ':awslambda')], ASSUMPTIONS)
    if ex.undecided_reason:
        res['obligations'].append({'name': name + '/engine', 'status': 'undecided', 'detail': ex.undecided_reason, 'model': {}, 'time_s': 0, 'backend': 'engine', 'path': None,
                                   'kind': 'engine', 'goal': None})
    return res
