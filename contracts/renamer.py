"""Contracts for the renamer (C03 b/c, C04, C09, C10, C17 cost clause): rename/util.py, binding.py, bind_names.py, resolve_names.py, renamer.py."""
import ast as real_ast

import z3

from pyvc import source
from pyvc.engine import (Bound, ExcVal, Explorer, Native, Obj, Opaque, Raised, SymStr, Undecided, tag_const, tag_universe, tags_of_class)
from pyvc.interp import PROCEED, Interp, Policy, SymConst, SymIter
from pyvc.runner import result
from contracts import printer as P
from contracts.scopes import NAMESPACE_TAGS, COMP, _finish

RU = 'python_minifier.rename.util'
RB = 'python_minifier.rename.binding'
RN = 'python_minifier.rename.renamer'
BN = 'python_minifier.rename.bind_names'
RS = 'python_minifier.rename.resolve_names'

ASSUMPTIONS = [
    'namespace nodes carry bindings / global_names / nonlocal_names as set up by mapper.add_parent (contracts/scopes.py)',
    'distinct parameters are distinct arg nodes; a parameter occurs in exactly one of posonlyargs / args / vararg / kwonlyargs / kwarg',
    'dir(builtins) and keyword.kwlist of the running interpreter',
    'sorted() is a stable permutation; set iteration order does not matter to the consumers (see C11)',
]


class RenPolicy(P.PrinterPolicy):
    def __init__(self):
        P.PrinterPolicy.__init__(self)
        self.events = []
        self.writes = []

    def loop_scheme(self, interp, loop_id, s):
        return 'generic'

    def on_write(self, interp, obj, name, value):
        self.writes.append((obj, name, value))

    def havoc_list(self, interp, obj, loop_id):
        return True

    def hasattr(self, interp, obj, name):
        if name in ('varargannotation', 'kwargannotation'):
            return False
        return PROCEED

    def str_method(self, interp, recv, nm, args, kwargs):
        # dotted.name.split('.') : only element 0 (the root module) is ever used by the renamer
        if nm == 'split' and z3.is_expr(recv) and args == ['.']:
            ctx = interp.ctx
            root = z3.String('root_module_of_' + recv.decl().name())
            dotted = z3.Contains(recv, z3.StringVal('.'))
            ctx.assume(z3.Implies(z3.Not(dotted), root == recv))
            ctx.assume(z3.Implies(dotted, z3.PrefixOf(z3.Concat(root, z3.StringVal('.')), recv)))
            ctx.assume(z3.Not(z3.Contains(root, z3.StringVal('.'))))
            return [root]
        return PROCEED

    def attr(self, interp, obj, name):
        ctx = interp.ctx
        if isinstance(obj, Obj):
            d = ctx.data(obj)
            if d.kind == 'node' and name == 'namespace' and name not in d.fields:
                v = ctx.new_node(NAMESPACE_TAGS, name='ns_of_' + d.name)
                d.fields['namespace'] = v
                return v
        return P.PrinterPolicy.attr(self, interp, obj, name)


# ---------------------------------------------------------------------------------------------------------------------
# util.arg_rename_in_place  (C04)

def task_arg_rename_in_place():
    mod = source.import_module(RU)
    name = 'C04/util.arg_rename_in_place'
    roles = ['first-positional', 'later-positional', 'first-posonly', 'later-posonly', 'vararg', 'kwarg', 'kwonly']

    def run(ctx):
        policy = RenPolicy()
        interp = Interp(ctx, policy=policy)
        policy.interp = interp
        node = ctx.new_node({'arg'}, name='param')
        func = ctx.new_node({'FunctionDef', 'AsyncFunctionDef', 'Lambda'}, name='func')
        outer = ctx.new_node(NAMESPACE_TAGS, name='outer')
        args = ctx.new_node({'arguments'}, name='args')
        ctx.data(node).fields['namespace'] = func
        ctx.data(func).fields['namespace'] = outer
        ctx.data(func).fields['args'] = args
        role = roles[ctx.choose(len(roles), 'role')]
        other = lambda i: ctx.new_node({'arg'}, name='other%d' % i)
        ad = ctx.data(args)
        ad.fields['posonlyargs'] = ctx.new_list({'first-posonly': [node, other(1)], 'later-posonly': [other(1), node]}.get(role, []) if 'posonly' in role
                                                else ([other(1)] if role == 'later-positional' and ctx.branch(z3.Bool('has_posonly')) else []))
        ad.fields['args'] = ctx.new_list({'first-positional': [node, other(2)], 'later-positional': [other(2), node]}.get(role, [other(2)]))
        ad.fields['vararg'] = node if role == 'vararg' else (other(3) if ctx.branch(z3.Bool('has_vararg')) else None)
        ad.fields['kwarg'] = node if role == 'kwarg' else None
        ad.fields['kwonlyargs'] = ctx.new_list([node] if role == 'kwonly' else [])
        r = interp.call(interp.wrap(mod.arg_rename_in_place), [node], {})
        fd, od = ctx.data(func), ctx.data(outer)
        decs = fd.fields.get('decorator_list')
        plain_or_classmethod = z3.BoolVal(False)
        if isinstance(decs, Obj):
            dd = ctx.data(decs)
            d0 = dd.items.get(0)
            only_cm = z3.BoolVal(False)
            if isinstance(d0, Obj) and 'id' in ctx.data(d0).fields:
                only_cm = z3.And(dd.symlen == 1, ctx.data(d0).tagvar == tag_const('Name'), ctx.data(d0).fields['id'] == z3.StringVal('classmethod'))
            plain_or_classmethod = z3.Or(dd.symlen == 0, only_cm)
        is_first = role in ('first-positional', 'first-posonly')
        method_self = z3.And(z3.BoolVal(is_first), fd.tagvar != tag_const('Lambda'), od.tagvar == tag_const('ClassDef'), plain_or_classmethod)
        spec = z3.Or(z3.BoolVal(role in ('vararg', 'kwarg', 'first-posonly', 'later-posonly')), method_self)
        rz = r if z3.is_expr(r) else z3.BoolVal(bool(r))
        ctx.check(name + '/in-place-only-for-self-cls-star-and-positional-only-parameters', z3.Implies(rz, spec), kind='post',
                  detail='role %s: a parameter a caller may pass by keyword must keep its name in the signature' % role)
        ctx.check(name + '/in-place-for-every-parameter-no-caller-can-name', z3.Implies(spec, rz), kind='post', detail='role %s' % role)
    ex = Explorer()
    ex.explore(run)
    return _finish(ex, name, [source.describe(RU + ':arg_rename_in_place')])


# ---------------------------------------------------------------------------------------------------------------------
# pins: NameBinding.__init__, NameBinder.get_binding, resolve_names.get_binding  (C04, C09 detection, C03 class skipping)

def make_namespace(ctx, name, tags, bindings=None):
    ns = ctx.new_node(tags, name=name)
    d = ctx.data(ns)
    for f in ('global_names', 'nonlocal_names'):
        s = ctx.new_obj('set', name='%s_%s' % (f, name))
        sd = ctx.data(s)
        sd.items = set()
        b = z3.Bool('%s_in_%s_%s' % ('name', f, name))
        sd.extra['sym_member'] = lambda it, item, b=b: b
        d.fields[f] = s
    d.fields['bindings'] = bindings if bindings is not None else ctx.new_list([])
    return ns


def task_namebinding_init():
    bmod = source.import_module(RB)
    name = 'C04/NameBinding.__init__'

    def run(ctx):
        policy = RenPolicy()
        interp = Interp(ctx, policy=policy)
        nm = z3.String('binding_name')
        o = interp.instantiate(bmod.NameBinding, [nm], {})
        d = ctx.data(o)
        dunder = z3.And(z3.PrefixOf(z3.StringVal('__'), nm), z3.SuffixOf(z3.StringVal('__'), nm))
        allow = d.fields['_allow_rename']
        az = allow if z3.is_expr(allow) else z3.BoolVal(bool(allow))
        ctx.check(name + '/double-underscore-names-are-pinned-whatever-their-scope', z3.Implies(dunder, z3.Not(az)), kind='post')
        res = d.fields['_reserved']
        ctx.check(name + '/a-pinned-binding-reserves-its-own-name', z3.Or(az, z3.BoolVal(z3.is_expr(res) and res.eq(nm))), kind='post',
                  detail='reserved=%r' % (res,))
        ctx.check(name + '/keeps-its-name', d.fields['_name'] is nm or d.fields['_name'].eq(nm), kind='post')
    ex = Explorer()
    ex.explore(run)
    r1 = _finish(ex, name, [source.describe(RB + ':NameBinding.__init__'), source.describe(RB + ':Binding.__init__')])

    def run2(ctx):
        policy = RenPolicy()
        interp = Interp(ctx, policy=policy)
        o = ctx.new_obj('inst', bmod.NameBinding, name='b')
        nm = z3.String('binding_name')
        ctx.data(o).fields.update({'_name': nm, '_allow_rename': True, '_reserved': None, '_references': ctx.new_list([])})
        interp.call(interp.getattr(o, 'disallow_rename'), [], {})
        d = ctx.data(o)
        ctx.check('C04/NameBinding.disallow_rename/clears-the-permission', d.fields['_allow_rename'] is False, kind='post')
        ctx.check('C03/NameBinding.disallow_rename/reserves-the-current-name', z3.is_expr(d.fields['_reserved']) and d.fields['_reserved'].eq(nm), kind='post',
                  detail='a pinned name must be reserved in its scope so that no other binding takes it')
    ex2 = Explorer()
    ex2.explore(run2)
    r2 = _finish(ex2, 'C04/NameBinding.disallow_rename', [source.describe(RB + ':NameBinding.disallow_rename'), source.describe(RB + ':Binding.disallow_rename')])
    # monotonicity: _allow_rename is only ever assigned False outside __init__
    import ast as pyast
    obs = []
    bad = []
    for path in source.all_package_files():
        fi = source.file_info(path)
        for n in pyast.walk(fi.tree):
            if isinstance(n, pyast.Assign):
                for t in n.targets:
                    if isinstance(t, pyast.Attribute) and t.attr == '_allow_rename':
                        v = n.value
                        ok = (isinstance(v, pyast.Constant) and v.value is False) or (isinstance(v, pyast.Name) and v.id == 'allow_rename')
                        if not ok:
                            bad.append('%s:%d' % (path[len(source.SRC) + 1:], n.lineno))
    obs.append({'name': 'C04/frame/rename-permission-is-never-re-enabled', 'status': 'proved' if not bad else 'refuted', 'detail': repr(bad), 'model': {},
                'time_s': 0, 'backend': 'eval', 'path': None, 'kind': 'frame', 'goal': None})
    # BuiltinBinding.__init__: `super` is pinned (renaming it removes the implicit __class__ cell of zero-argument super())
    def run3(ctx):
        policy = RenPolicy()
        interp = Interp(ctx, policy=policy)
        nm = z3.String('builtin_name')
        module = ctx.new_node({'Module'}, name='module')
        o = interp.instantiate(bmod.BuiltinBinding, [nm, module], {})
        d = ctx.data(o)
        allow = d.fields['_allow_rename']
        az = allow if z3.is_expr(allow) else z3.BoolVal(bool(allow))
        ctx.check('C03/BuiltinBinding.__init__/super-is-never-aliased', z3.Implies(nm == z3.StringVal('super'), z3.Not(az)), kind='post',
                  detail='A=super; A() is not the zero-argument form: the compiler only creates the __class__ cell for the name super')
        ctx.check('C04/BuiltinBinding.__init__/keeps-name-and-module', (d.fields['_name'] is nm or d.fields['_name'].eq(nm)) and d.fields.get('namespace') == module, kind='post')
    ex3 = Explorer()
    ex3.explore(run3)
    r3 = _finish(ex3, 'C03/BuiltinBinding.__init__', [source.describe(RB + ':BuiltinBinding.__init__')])
    r1['obligations'] += r2['obligations'] + r3['obligations'] + obs
    r1['functions'] += r2['functions'] + r3['functions']
    r1['notes'] += r2['notes'] + r3['notes']
    return r1


def task_binder_get_binding():
    """NameBinder.get_binding: class-namespace, builtin-named and module-level-nonlocal bindings are pinned; the binding is found or
    created in the right namespace."""
    mod = source.import_module(BN)
    bmod = source.import_module(RB)
    import builtins as pyb
    name = 'C04/NameBinder.get_binding'

    def run(ctx):
        policy = RenPolicy()
        interp = Interp(ctx, policy=policy)
        policy.interp = interp
        nm = z3.String('name')
        ctx.assume(z3.Length(nm) > 0)
        existing = ctx.new_list([])
        has_existing = ctx.branch(z3.Bool('namespace_already_has_a_binding_of_that_name'))
        if has_existing:
            eb = ctx.new_obj('inst', bmod.NameBinding, name='existing')
            ctx.data(eb).fields.update({'_name': nm, '_allow_rename': z3.Bool('existing_allow'), '_reserved': None, '_references': ctx.new_list([])})
            ctx.data(existing).items.append(eb)
        ns = make_namespace(ctx, 'ns', NAMESPACE_TAGS, existing)
        glob = make_namespace(ctx, 'module', {'Module'})
        ctx.data(ns).fields['namespace'] = glob
        ctx.data(glob).fields['namespace'] = glob
        # dir(builtins) membership of a symbolic name
        is_builtin = z3.Or([nm == z3.StringVal(x) for x in dir(pyb)])
        interp.natives[pyb.dir] = lambda it, a, k: list(dir(pyb)) if a and isinstance(a[0], Native) and a[0].py is pyb else PROCEED
        rec = []

        def rec_hook(it, f, args, kwargs):
            if args[2] == ns:
                return PROCEED
            rec.append((args[1], args[2]))
            return Opaque('binding_in_module', sort='binding')
        interp.hooks[BN + ':NameBinder.get_binding'] = rec_hook
        interp.hooks[RU + ':get_global_namespace'] = lambda it, f, a, k: glob
        o = interp.instantiate(mod.NameBinder, [], {})
        raised = None
        try:
            b = interp.call(interp.getattr(o, 'get_binding'), [nm, ns], {})
        except Raised as e:
            raised = e.exc
            b = None
        nd = ctx.data(ns)
        declared_global = z3.Bool('name_in_global_names_ns')
        declared_nonlocal = z3.Bool('name_in_nonlocal_names_ns')
        is_module = nd.tagvar == tag_const('Module')
        if raised is not None:
            ctx.check(name + '/asserts-only-that-nonlocal-names-are-not-bound-here', z3.And(declared_nonlocal) if raised.cls is AssertionError else False,
                      kind='noraise', detail=repr(raised))
            return
        if rec:
            ctx.check(name + '/declared-global-names-are-bound-in-the-module', z3.And(declared_global, z3.Not(is_module)), kind='post')
            ctx.check(name + '/delegates-with-the-same-name', rec == [(nm, glob)] or (len(rec) == 1 and rec[0][0].eq(nm) and rec[0][1] == glob), kind='post')
            return
        ctx.check(name + '/binds-locally-unless-declared-global', z3.Or(z3.Not(declared_global), is_module), kind='post')
        bd = ctx.data(b) if isinstance(b, Obj) else None
        ctx.check(name + '/returns-a-binding-of-that-name-from-this-namespace', bd is not None and bd.fields['_name'].eq(nm) and b in ctx.data(nd.fields['bindings']).items,
                  kind='post')
        if bd is None:
            return
        if has_existing:
            ctx.check(name + '/an-existing-binding-is-reused', b == eb and len(ctx.data(nd.fields['bindings']).items) == 1, kind='post')
        allow = bd.fields['_allow_rename']
        az = allow if z3.is_expr(allow) else z3.BoolVal(bool(allow))
        ctx.check(name + '/names-bound-in-a-class-body-are-pinned', z3.Implies(nd.tagvar == tag_const('ClassDef'), z3.Not(az)), kind='post',
                  detail='a class-body name becomes an attribute of the class')
        if not has_existing:
            ctx.check(name + '/names-that-shadow-a-builtin-are-pinned', z3.Implies(is_builtin, z3.Not(az)), kind='post')
    ex = Explorer()
    ex.explore(run)
    return _finish(ex, name, [source.describe(BN + ':NameBinder.get_binding')])


def task_resolve_get_binding():
    """resolve_names.get_binding: unresolved names become pinned module bindings (or builtin bindings, tainting for the five reflective
    builtins); free names are looked up in the nearest enclosing FUNCTION namespace (class bodies are skipped)."""
    mod = source.import_module(RS)
    bmod = source.import_module(RB)
    umod = source.import_module(RU)
    import builtins as pyb
    name = 'C03/resolve_names.get_binding'

    def run(ctx):
        policy = RenPolicy()
        interp = Interp(ctx, policy=policy)
        policy.interp = interp
        nm = z3.String('name')
        ctx.assume(z3.Length(nm) > 0)
        existing = []
        if ctx.branch(z3.Bool('namespace_has_a_binding')):
            eb = ctx.new_obj('inst', bmod.NameBinding, name='existing_binding')
            ctx.data(eb).fields.update({'_name': z3.String('existing_binding_name'), '_allow_rename': z3.Bool('existing_allow'), '_reserved': None, '_references': ctx.new_list([])})
            existing.append(eb)
        ns = make_namespace(ctx, 'ns', NAMESPACE_TAGS, ctx.new_list(list(existing)))
        ctx.data(ns).fields['tainted'] = False
        interp.natives[pyb.dir] = lambda it, a, k: list(dir(pyb))
        rec = []

        def rec_hook(it, f, args, kwargs):
            if args[1] == ns:
                return PROCEED
            rec.append(('get_binding', args[0], args[1]))
            return Opaque('binding_found_further_out', sort='binding')
        interp.hooks[RS + ':get_binding'] = rec_hook
        glob_ns = Opaque('global_namespace_of_ns', sort='node')
        nonlocal_ns = Opaque('nonlocal_namespace_of_ns', sort='node')
        interp.hooks[RU + ':get_global_namespace'] = lambda it, f, a, k: (rec.append(('global_of', a[0])), glob_ns)[1]
        interp.hooks[RU + ':get_nonlocal_namespace'] = lambda it, f, a, k: (rec.append(('nonlocal_of', a[0])), nonlocal_ns)[1]
        b = interp.call(interp.wrap(mod.get_binding), [nm, ns], {})
        nd = ctx.data(ns)
        is_module = nd.tagvar == tag_const('Module')
        dg = z3.Bool('name_in_global_names_ns')
        dn = z3.Bool('name_in_nonlocal_names_ns')
        if rec and rec[-1][0] == 'get_binding':
            target = rec[-1][2]
            via = [r for r in rec if r[0] in ('global_of', 'nonlocal_of')]
            ctx.check(name + '/lookup-continues-with-the-same-name', rec[-1][1].eq(nm), kind='post')
            ctx.check(name + '/outer-namespace-is-derived-from-this-namespace', len(via) == 1 and via[0][1] == ns, kind='post', detail=repr(via))
            if target == glob_ns:
                ctx.check(name + '/only-declared-globals-jump-to-the-module', z3.And(dg, z3.Not(is_module)), kind='post')
            elif target == nonlocal_ns:
                ctx.check(name + '/free-and-nonlocal-names-go-to-the-nearest-enclosing-function-namespace', z3.And(z3.Not(is_module), z3.Not(dg)), kind='post',
                          detail='class bodies between here and there must be skipped: the call must go through get_nonlocal_namespace')
            else:
                ctx.check(name + '/outer-lookup-uses-get_global_namespace-or-get_nonlocal_namespace', False, kind='post',
                          detail='continued in %r' % (target,))
            return
        bd = ctx.data(b) if isinstance(b, Obj) else None
        reflective0 = z3.Or([nm == z3.StringVal(x) for x in ('exec', 'eval', 'locals', 'globals', 'vars')])
        if isinstance(b, Obj) and b in existing:
            # found among the bindings of this namespace: when this is the module and the name is a reflective builtin, the binding may be the builtin
            # itself (eval = eval) or never execute, so the use must freeze the module all the same
            t0 = nd.fields.get('tainted', False)
            tz0 = t0 if z3.is_expr(t0) else z3.BoolVal(bool(t0))
            ctx.check('C09/resolve_names.get_binding/a-module-level-binding-of-a-reflective-builtin-still-taints', z3.Implies(z3.And(is_module, reflective0), tz0), kind='post',
                      detail='`eval = eval` at module level must not hide eval(...) calls from the freeze')
            return
        ctx.check(name + '/unresolved-names-are-settled-in-the-module-only', is_module, kind='post')
        ctx.check(name + '/a-new-binding-is-registered-in-the-module', bd is not None and b in ctx.data(nd.fields['bindings']).items, kind='post')
        if bd is None:
            return
        builtin = z3.Or([nm == z3.StringVal(x) for x in dir(pyb)])
        reflective = z3.Or([nm == z3.StringVal(x) for x in ('exec', 'eval', 'locals', 'globals', 'vars')])
        tainted = nd.fields.get('tainted', False)
        tz = tainted if z3.is_expr(tainted) else z3.BoolVal(bool(tainted))
        if bd.cls is bmod.BuiltinBinding:
            ctx.check(name + '/builtin-bindings-only-for-builtin-names', builtin, kind='post')
            ctx.check('C09/resolve_names.get_binding/reflective-builtins-taint-the-module', z3.Implies(reflective, tz), kind='post',
                      detail='exec, eval, locals, globals and vars used as builtins must freeze every name')
        else:
            ctx.check(name + '/names-used-but-never-bound-are-pinned', z3.And(z3.Not(builtin), z3.BoolVal(bd.fields['_allow_rename'] is False)), kind='post')
    ex = Explorer()
    ex.explore(run)
    r1 = _finish(ex, name, [source.describe(RS + ':get_binding')])

    # get_nonlocal_namespace never returns a class body (given the same for the recursive call)
    def run2(ctx):
        policy = RenPolicy()
        interp = Interp(ctx, policy=policy)
        policy.interp = interp
        node = ctx.new_node(set(tag_universe()['names']), name='node')
        ns = ctx.new_node(NAMESPACE_TAGS, name='ns')
        ctx.data(node).fields['namespace'] = ns
        rec = []

        def rec_hook(it, f, args, kwargs):
            if args[0] == node:
                return PROCEED
            rec.append(args[0])
            return Opaque('non_class_namespace', sort='node')
        interp.hooks[RU + ':get_nonlocal_namespace'] = rec_hook
        r = interp.call(interp.wrap(umod.get_nonlocal_namespace), [node], {})
        nsd = ctx.data(ns)
        if rec:
            ctx.check('C03/util.get_nonlocal_namespace/climbs-only-out-of-class-bodies', z3.And(nsd.tagvar == tag_const('ClassDef'), z3.BoolVal(rec == [ns])), kind='post')
        else:
            ctx.check('C03/util.get_nonlocal_namespace/result-is-never-a-class-body', z3.And(nsd.tagvar != tag_const('ClassDef'), z3.BoolVal(r == ns)), kind='post')
    ex2 = Explorer()
    ex2.explore(run2)
    r2 = _finish(ex2, 'C03/util.get_nonlocal_namespace', [source.describe(RU + ':get_nonlocal_namespace')])
    r1['obligations'] += r2['obligations']
    r1['functions'] += r2['functions']
    r1['notes'] += r2['notes']
    return r1


# ---------------------------------------------------------------------------------------------------------------------
# NameBinding.rename: which name slots are written (C03 frame, C04)

NAME_SLOT = {'Name': 'id', 'FunctionDef': 'name', 'AsyncFunctionDef': 'name', 'ClassDef': 'name', 'ExceptHandler': 'name', 'MatchAs': 'name',
             'MatchStar': 'name', 'MatchMapping': 'rest', 'TypeVar': 'name', 'TypeVarTuple': 'name', 'ParamSpec': 'name'}
REF_TAGS = set(NAME_SLOT) | {'alias', 'arg', 'Global', 'Nonlocal', 'arguments'}


def task_namebinding_rename():
    bmod = source.import_module(RB)
    name = 'C03/NameBinding.rename'

    def run(ctx):
        policy = RenPolicy()
        interp = Interp(ctx, policy=policy)
        policy.interp = interp
        old = z3.String('old_name')
        new = z3.String('new_name')
        ctx.assume(z3.And(z3.Length(old) > 0, z3.Length(new) > 0, old != new))
        ref = ctx.new_node(REF_TAGS - {'Global', 'Nonlocal'}, name='ref')     # declaration statements: see the second run
        b = ctx.new_obj('inst', bmod.NameBinding, name='binding')
        ctx.data(b).fields.update({'_name': old, '_allow_rename': True, '_reserved': None, '_references': ctx.new_list([ref])})
        in_place = z3.Bool('arg_rename_in_place')
        interp.hooks[RU + ':arg_rename_in_place'] = lambda it, f, a, k: in_place
        inserts = []

        def insert_hook(it, f, a, k):
            inserts.append((a[0], a[1]))
            return ctx.new_list([Opaque('suite_with_inserted_node', sort='node')])
        interp.hooks[RU + ':insert'] = insert_hook
        rd = ctx.data(ref)
        # a parameter lives in its function (lambda parameters that are not renamed in place are pinned, see NameBinder.visit_arg)
        rd.fields['namespace'] = ctx.new_node({'FunctionDef', 'AsyncFunctionDef'}, name='function_of_ref')
        pre = {}
        for t in sorted(rd.tags):
            pass
        interp.call(interp.getattr(b, 'rename'), [new], {})
        ctx.check(name + '/binding-takes-the-new-name', ctx.data(b).fields['_name'].eq(new), kind='post')
        tag = sorted(rd.tags)[0] if len(rd.tags) == 1 else None
        writes = [(o, f, v) for (o, f, v) in policy.writes if o == ref]
        wf = dict((f, v) for (o, f, v) in writes)
        ctx.check(name + '/cover-reference-class-is-decided', tag is not None or rd.tags <= {'FunctionDef', 'AsyncFunctionDef'} or rd.tags <= {'Global', 'Nonlocal'},
                  kind='cover', detail=repr(sorted(rd.tags)))
        if tag is None:
            tag = sorted(rd.tags)[0]
        if tag in NAME_SLOT:
            slot = NAME_SLOT[tag]
            ctx.check(name + '/%s-reference-gets-the-new-name-in-its-name-slot-only' % tag, set(wf) == {slot} and z3.is_expr(wf[slot]) and wf[slot].eq(new), kind='frame',
                      detail='fields written: %r' % (sorted(wf),))
        elif tag == 'alias':
            ctx.check(name + '/import-alias-keeps-the-imported-name', set(wf) == {'asname'}, kind='frame', detail='fields written: %r' % (sorted(wf),))
            v = wf.get('asname')
            imported = rd.fields.get('name')
            ok = (v is None and any(c.eq(new == imported) for c in ctx.pc)) or (z3.is_expr(v) and v.eq(new))
            ctx.check(name + '/import-alias-becomes-as-new-name', bool(ok), kind='post', detail='asname=%r' % (v,))
        elif tag == 'arg':
            if 'arg' in wf:
                ctx.check(name + '/parameter-renamed-in-the-signature-only-when-in-place-is-allowed', in_place, kind='frame',
                          detail='a parameter that callers may pass by keyword must keep its spelling')
                ctx.check(name + '/parameter-gets-the-new-name', wf['arg'].eq(new) and set(wf) == {'arg'}, kind='post')
                ctx.check(name + '/in-place-parameters-need-no-rebinding', not inserts, kind='post')
            else:
                ctx.check(name + '/keyword-callable-parameter-is-rebound-at-the-top-of-the-body', z3.And(z3.Not(in_place), z3.BoolVal(len(inserts) == 1 and not wf)), kind='post',
                          detail='inserts=%r writes=%r' % (inserts, wf))
                if len(inserts) == 1:
                    st = inserts[0][1]
                    sd = ctx.data(st) if isinstance(st, Obj) else None
                    ok = sd is not None and sd.tags == {'Assign'}
                    if ok:
                        tg = ctx.data(sd.fields['targets']).items
                        val = sd.fields['value']
                        ok = len(tg) == 1 and ctx.data(tg[0]).tags == {'Name'} and ctx.data(tg[0]).fields['id'].eq(new) and \
                            ctx.data(val).tags == {'Name'} and ctx.data(val).fields['id'].eq(old) and \
                            ctx.data(ctx.data(tg[0]).fields['ctx']).tags == {'Store'} and ctx.data(ctx.data(val).fields['ctx']).tags == {'Load'}
                    ctx.check(name + '/rebinding-is-new-equals-old', bool(ok), kind='post')
        elif tag in ('Global', 'Nonlocal'):
            names = rd.fields.get('names')
            nv = wf.get('names')
            ctx.check(name + '/declaration-statement-only-has-its-names-rewritten', set(wf) <= {'names', 'names_renamed'}, kind='frame', detail=repr(sorted(wf)))
        elif tag == 'arguments':
            ok = set(wf) <= {'vararg', 'kwarg', 'vararg_renamed', 'kwarg_renamed'}
            ctx.check(name + '/star-parameters-only', ok, kind='frame', detail=repr(sorted(wf)))
        # nothing outside the reference is written (other than the binding itself and the function body for rebinding)
        others = [(o, f) for (o, f, v) in policy.writes if o != ref and o != b and not (f == 'body')]
        created = [o for (o, f) in others if ctx.data(o).extra.get('created')]
        ctx.check(name + '/no-other-node-is-written', len(others) == len(created), kind='frame', detail=repr(others[:4]))
    ex = Explorer()
    ex.explore(run)
    r1 = _finish(ex, name, [source.describe(RB + ':NameBinding.rename')])

    # Global / Nonlocal: only the positions that belong to this binding are rewritten
    def run2(ctx):
        policy = RenPolicy()
        interp = Interp(ctx, policy=policy)
        policy.interp = interp
        old, new, othername = z3.String('old_name'), z3.String('new_name'), z3.String('other_binding_original_name')
        ctx.assume(z3.And(z3.Length(old) > 0, z3.Length(new) > 0, old != new, othername != old))
        ref = ctx.new_node({'Global', 'Nonlocal'}, name='ref')
        # two names in the statement: position 0 belongs to another binding which was ALREADY renamed to the text `old`,
        # position 1 belongs to this binding
        other_done = ctx.branch(z3.Bool('other_binding_was_renamed_to_our_current_name'))
        if other_done:
            ctx.data(ref).fields['names'] = ctx.new_list([old, old])
            s = ctx.new_obj('set')
            ctx.data(s).items = {0}
            ctx.data(ref).fields['names_renamed'] = s
        else:
            ctx.data(ref).fields['names'] = ctx.new_list([othername, old])
        b = ctx.new_obj('inst', bmod.NameBinding, name='binding')
        ctx.data(b).fields.update({'_name': old, '_allow_rename': True, '_reserved': None, '_references': ctx.new_list([ref])})
        interp.call(interp.getattr(b, 'rename'), [new], {})
        names = ctx.data(ref).fields['names']
        items = ctx.data(names).items if isinstance(names, Obj) else list(names)
        ctx.check(name + '/own-position-in-a-global-or-nonlocal-statement-is-renamed', len(items) == 2 and z3.is_expr(items[1]) and ctx.solver.check(items[1] != new) == z3.unsat,
                  kind='post', detail=repr(items))
        want0 = old if other_done else othername
        ctx.check(name + '/positions-of-other-bindings-keep-their-text', len(items) == 2 and z3.is_expr(items[0]) and ctx.solver.check(items[0] != want0) == z3.unsat,
                  kind='frame', detail='position 0 became %r' % (items[0] if items else None,))
    ex2 = Explorer()
    ex2.explore(run2)
    r2 = _finish(ex2, name + '[declarations]', [])
    r1['obligations'] += r2['obligations']
    r1['notes'] += r2['notes']
    return r1


# ---------------------------------------------------------------------------------------------------------------------
# NameAssigner  (C03 c, C04 prefix rule)

def task_name_assigner():
    rmod = source.import_module(RN)
    bmod = source.import_module(RB)
    name = 'C03/NameAssigner.__call__'

    def run(ctx):
        policy = RenPolicy()
        interp = Interp(ctx, policy=policy)
        policy.interp = interp
        module = ctx.new_node({'Module'}, name='module')
        massigned = ctx.new_obj('set', name='module_assigned')
        ctx.data(massigned).items = set()
        ctx.data(module).fields['assigned_names'] = massigned
        ev = policy.events
        interp.hooks[RN + ':add_assigned'] = lambda it, f, a, k: ev.append(('add_assigned', a[0]))

        def mk_pairs(label):
            lst = ctx.new_obj('list', name=label)
            ld = ctx.data(lst)
            ld.items = {}
            ld.symlen = z3.Int('n_' + label)
            ctx.assume(ld.symlen >= 0)
            from pyvc.interp import _keyname

            def mk(key):
                k = _keyname(key)
                ns = ctx.new_node(NAMESPACE_TAGS, name='%s_ns_%s' % (label, k))
                b = ctx.new_obj('inst', bmod.NameBinding, name='%s_binding_%s' % (label, k))
                nm = z3.String('%s_name_%s' % (label, k))
                res_none = ctx.branch(z3.Bool('%s_reserved_is_none_%s' % (label, k)))
                ctx.data(b).fields.update({'_name': nm, '_allow_rename': z3.Bool('%s_allow_%s' % (label, k)),
                                           '_reserved': None if res_none else z3.String('%s_reserved_%s' % (label, k)), '_references': ctx.new_list([])})
                return (ns, b)
            ld.elem_factory = mk
            return lst
        interp.hooks[RN + ':all_bindings'] = lambda it, f, a, k: mk_pairs('all')
        interp.hooks[RN + ':sorted_bindings'] = lambda it, f, a, k: mk_pairs('sorted')

        def scope_hook(it, f, a, k):
            s = Opaque('scope_of', (ctx.data(a[0]).name, ctx.data(a[1]).name), sort='list')
            ev.append(('reservation_scope', a[0], a[1], s))
            return s
        interp.hooks[RN + ':reservation_scope'] = scope_hook
        interp.hooks[RN + ':reserve_name'] = lambda it, f, a, k: ev.append(('reserve_name', a[0], a[1]))

        def avail_hook(it, f, a, k):
            scope = a[1]
            prefix = a[2] if len(a) > 2 else k.get('prefix', '')
            nm = z3.String(ctx.fresh('available_name'))
            ev.append(('available_name', scope, prefix, nm))
            return nm
        interp.hooks[RN + ':NameAssigner.available_name'] = avail_hook
        avail_asked = []

        def is_avail_hook(it, f, a, k):
            bv = z3.Bool(ctx.fresh('original_name_still_available'))
            avail_asked.append((a[1], a[2], bv))
            return bv
        interp.hooks[RN + ':NameAssigner.is_available'] = is_avail_hook
        interp.hooks[RB + ':NameBinding.should_rename'] = lambda it, f, a, k: z3.Bool(ctx.fresh('should_rename'))

        def rename_hook(it, f, a, k):
            ev.append(('rename', a[0], a[1]))
            ctx.data(a[0]).fields['_name'] = a[1]
            return None
        interp.hooks[RB + ':NameBinding.rename'] = rename_hook
        interp.hooks[RB + ':NameBinding.disallow_rename'] = lambda it, f, a, k: (ev.append(('disallow_rename', a[0])), ctx.data(a[0]).fields.__setitem__('_allow_rename', False))[0]
        interp.hooks['python_minifier.rename.name_generator:name_filter'] = lambda it, f, a, k: Opaque('name_generator', sort='generator')
        o = interp.instantiate(rmod.NameAssigner, [], {})
        prefix_globals = z3.Bool('prefix_globals')
        reserved = ctx.new_obj('list', name='reserved_globals')
        rd = ctx.data(reserved)
        rd.items = {}
        rd.symlen = z3.Int('n_reserved_globals')
        ctx.assume(rd.symlen >= 0)
        rd.elem_factory = lambda key: z3.String('reserved_global_%s' % (key if isinstance(key, int) else 'g'))
        interp.call(interp.getattr(o, '__call__'), [module, prefix_globals, reserved], {})
        # ---- first loop: every pinned/reserved name is reserved in the whole reservation scope of its binding -------------------
        for k, pair in list(ctx.heap.items()):
            pass
        def pairs(label):
            out = []
            for oid, d in ctx.heap.items():
                if d.kind == 'list' and d.name == label:
                    out += [v for v in d.items.values()]
            return out
        for ns, b in pairs('all'):
            bd = ctx.data(b)
            res = bd.fields['_reserved']
            scopes = [e for e in ev if e[0] == 'reservation_scope' and e[2] == b]
            reserves = [e for e in ev if e[0] == 'reserve_name' and scopes and e[2] == scopes[0][3]]
            if res is not None:
                ok = len(scopes) == 1 and scopes[0][1] == ns and len(reserves) == 1 and reserves[0][1] is res
                ctx.check(name + '/reserved-names-are-blocked-in-the-whole-reservation-scope-before-any-name-is-chosen', ok, kind='inv.init',
                          detail='events %r' % ([e[0] for e in ev],))
            else:
                ctx.check(name + '/bindings-without-a-reserved-name-block-nothing', not reserves, kind='inv.init')
        # preserved globals are reserved at module level
        added = ctx.data(massigned).extra.get('sym_items', [])
        if ctx.solver.check(rd.symlen == 0) == z3.unsat:
            ctx.check('C10/NameAssigner.__call__/preserved-globals-are-reserved-in-the-module', any(a[0] == 'add' and z3.is_expr(a[1]) and a[1].decl().name().startswith('reserved_global_')
                                                                                                       for a in added), kind='inv.init', detail=repr(added))
        # ---- main loop: arbitrary binding -------------------------------------------------------------------------------------------------
        for ns, b in pairs('sorted'):
            bd = ctx.data(b)
            nsd = ctx.data(ns)
            allow0 = z3.Bool('sorted_allow_' + bd.name.split('_')[-1]) if False else None
            scopes = [e for e in ev if e[0] == 'reservation_scope' and e[2] == b]
            ctx.check(name + '/scope-is-computed-for-the-binding-and-its-own-namespace', len(scopes) == 1 and scopes[0][1] == ns, kind='inv.step')
            if not scopes:
                continue
            S = scopes[0][3]
            renames = [e for e in ev if e[0] == 'rename' and e[1] == b]
            avail = [e for e in ev if e[0] == 'available_name' and e[1] == S]
            allow_var = [c for c in ctx.pc if 'sorted_allow_' in c.sexpr()]
            if renames:
                ctx.check('C04/NameAssigner.__call__/renames-only-bindings-that-allow-it', any(not z3.is_not(c) and 'sorted_allow_' in c.sexpr() for c in ctx.pc), kind='inv.step')
                ok = len(renames) == 1 and len(avail) == 1 and renames[0][2].eq(avail[0][3])
                ctx.check(name + '/new-name-is-the-one-found-free-in-the-reservation-scope', ok, kind='inv.step',
                          detail='renamed to %r, available_name returned %r' % (renames[0][2], [a[3] for a in avail]))
            if avail:
                pref = avail[0][2]
                is_mod = nsd.tagvar == tag_const('Module')
                want = z3.And(is_mod, prefix_globals)
                ctx.check('C04/NameAssigner.__call__/new-module-level-names-get-the-underscore-prefix-when-globals-are-not-renamed',
                          want if pref == '_' else z3.Not(want), kind='inv.step', detail='prefix %r' % (pref,))
                ctx.check('C04/NameAssigner.__call__/prefix-is-empty-or-underscore', pref in ('', '_'), kind='inv.step')
            # afterwards the (possibly new) name is blocked in the scope
            final = bd.fields['_name']
            res = [e for e in ev if e[0] == 'reserve_name' and e[2] == S]
            ok = len(res) >= 1 and z3.is_expr(res[-1][1]) and res[-1][1].eq(final)
            ctx.check(name + '/name-in-use-after-the-step-is-blocked-in-the-reservation-scope', ok, kind='inv.step',
                      detail='final name %r, reserve_name calls %r' % (final, [(e[1]) for e in res]))
            if not renames and any(not z3.is_not(c) and 'sorted_allow_' in c.sexpr() for c in ctx.pc):
                ctx.check(name + '/a-binding-that-is-not-renamed-is-pinned', any(e[0] == 'disallow_rename' and e[1] == b for e in ev), kind='inv.step')
                # keeping the original name is only safe if nobody else in the reservation scope was given that name in the meantime: the binding
                # either reserved it up front (reserved == name) or is_available(original name, scope) answered yes on this path
                nm0 = z3.String('sorted_name_' + bd.name.split('_')[-1]) if False else bd.fields.get('_name')
                res0 = bd.fields.get('_reserved')
                self_reserved = (res0 is not None and z3.is_expr(res0) and z3.is_expr(nm0) and ctx.solver.check(res0 != nm0) == z3.unsat)
                asked_yes = [q for q in avail_asked if q[1] == S and (q[0] is nm0 or (z3.is_expr(q[0]) and z3.is_expr(nm0) and q[0].eq(nm0))) and any(c.eq(q[2]) for c in ctx.pc)]
                ctx.check(name + '/a-binding-keeps-its-name-only-if-that-name-is-still-free-in-its-reservation-scope', bool(self_reserved or asked_yes), kind='inv.step',
                          detail='kept %r: reserved up front: %s; availability of the original name confirmed on this path: %s (asked: %r)' %
                                 (nm0, self_reserved, bool(asked_yes), [(q[0], q[1]) for q in avail_asked]))
    ex = Explorer(max_paths=3000)
    ex.explore(run)
    r1 = _finish(ex, name, [source.describe(RN + ':NameAssigner.__call__')])

    # is_available / available_name
    def run2(ctx):
        policy = RenPolicy()
        interp = Interp(ctx, policy=policy)
        policy.interp = interp
        nm = z3.String('candidate')
        scope = ctx.new_obj('list', name='scope')
        sd = ctx.data(scope)
        sd.items = {}
        sd.symlen = z3.Int('n_scope')
        ctx.assume(sd.symlen >= 1)
        member = {}

        def mk(key):
            from pyvc.interp import _keyname
            ns = ctx.new_node(NAMESPACE_TAGS, name='scope_ns_%s' % _keyname(key))
            s = ctx.new_obj('set', name='assigned_%s' % _keyname(key))
            ctx.data(s).items = set()
            b = z3.Bool('candidate_in_assigned_names_of_%s' % _keyname(key))
            member[ns.id] = b
            ctx.data(s).extra['sym_member'] = lambda it, item, b=b: b
            ctx.data(ns).fields['assigned_names'] = s
            return ns
        sd.elem_factory = mk

        class PP(RenPolicy):
            def allany(self, it, py, v):
                # all(f(x) for x in xs): the result implies f(x) for an arbitrary x; any(...): f(x) implies the result
                kind, seq = it.as_iterable(v.src)
                e = seq[1](('arbitrary',))
                body = v.fn(e)
                bz = body if z3.is_expr(body) else z3.BoolVal(bool(body))
                r = z3.Bool('result_of_%s' % py.__name__)
                ctx.assume(z3.Implies(r, bz) if py is all else z3.Implies(bz, r))
                return r
        interp.policy = PP()
        interp.policy.interp = interp
        interp.hooks['python_minifier.rename.name_generator:name_filter'] = lambda it, f, a, k: Opaque('name_generator', sort='generator')
        o = interp.instantiate(source.import_module(RN).NameAssigner, [], {})
        r = interp.call(interp.getattr(o, 'is_available'), [nm, scope], {})
        rz = r if z3.is_expr(r) else z3.BoolVal(bool(r))
        arb = [b for b in member.values()]
        ctx.check('C03/NameAssigner.is_available/available-means-unused-in-every-namespace-of-the-scope', z3.Implies(rz, z3.Not(arb[0])) if arb else False,
                  kind='post', detail='for an arbitrary namespace of the reservation scope')
    ex2 = Explorer()
    ex2.explore(run2)
    r2 = _finish(ex2, 'C03/NameAssigner.is_available', [source.describe(RN + ':NameAssigner.is_available')])
    r1['obligations'] += r2['obligations']
    r1['functions'] += r2['functions']
    r1['notes'] += r2['notes']
    return r1


# ---------------------------------------------------------------------------------------------------------------------
# preserve lists: allow_rename_locals, allow_rename_globals, find__all__   (C10, C04)

def sym_bindings(ctx, label):
    bmod = source.import_module(RB)
    lst = ctx.new_obj('list', name=label)
    ld = ctx.data(lst)
    ld.items = {}
    ld.symlen = z3.Int('n_' + label)
    ctx.assume(ld.symlen >= 0)
    from pyvc.interp import _keyname

    def mk(key):
        k = _keyname(key)
        b = ctx.new_obj('inst', bmod.NameBinding, name='%s_%s' % (label, k))
        ctx.data(b).fields.update({'_name': z3.String('%s_name_%s' % (label, k)), '_allow_rename': z3.Bool('%s_allow_%s' % (label, k)),
                                   '_reserved': None, '_references': ctx.new_list([])})
        return b
    ld.elem_factory = mk
    return lst


def sym_strings(ctx, label):
    lst = ctx.new_obj('list', name=label)
    ld = ctx.data(lst)
    ld.items = {}
    ld.symlen = z3.Int('n_' + label)
    ctx.assume(ld.symlen >= 0)
    ld.extra['strings'] = True
    return lst


class PreservePolicy(RenPolicy):
    """`name in preserve_list` for a symbolic list of strings is an uninterpreted predicate of the name."""

    def contains(self, interp, container, item):
        ctx = interp.ctx
        if isinstance(container, Obj) and ctx.data(container).extra.get('strings') and z3.is_expr(item):
            f = z3.Function('in_' + ctx.data(container).name, z3.StringSort(), z3.BoolSort())
            return f(item)
        return PROCEED


def task_allow_rename():
    umod = source.import_module(RU)
    import python_minifier.ast_compat as compat
    name = 'C10/allow_rename_locals'

    def run(ctx):
        policy = PreservePolicy()
        interp = Interp(ctx, policy=policy)
        policy.interp = interp
        node = ctx.new_node(set(tag_universe()['names']), name='node')
        bindings = sym_bindings(ctx, 'bindings')
        ctx.data(node).fields['bindings'] = bindings
        preserve = sym_strings(ctx, 'preserve_locals')
        rename_locals = [True, False][ctx.choose(2, 'rename_locals')]
        children = ctx.new_obj('list', name='children')
        cd = ctx.data(children)
        cd.items = {}
        cd.symlen = z3.Int('n_children')
        ctx.assume(cd.symlen >= 0)
        from pyvc.interp import _keyname
        cd.elem_factory = lambda key: ctx.new_node(set(tag_universe()['names']), name='child_%s' % _keyname(key))
        interp.natives[compat.iter_child_nodes] = lambda it, a, k: children
        rec = []

        def rec_hook(it, f, args, kwargs):
            if args[0] == node:
                return PROCEED
            rec.append(tuple(args))
            return None
        interp.hooks[RU + ':allow_rename_locals'] = rec_hook
        interp.call(interp.wrap(umod.allow_rename_locals), [node, rename_locals, preserve], {})
        nd = ctx.data(node)
        is_local_ns = z3.And(nd.tagvar != tag_const('Module'), z3.Or([nd.tagvar == tag_const(t) for t in sorted(NAMESPACE_TAGS)]))
        inpres = z3.Function('in_preserve_locals', z3.StringSort(), z3.BoolSort())
        for k, b in ctx.data(bindings).items.items():
            bd = ctx.data(b)
            allow0 = z3.Bool('bindings_allow_%s' % _keyname(k))
            allow1 = bd.fields['_allow_rename']
            a1 = allow1 if z3.is_expr(allow1) else z3.BoolVal(bool(allow1))
            must_pin = z3.Or(z3.BoolVal(rename_locals is False), inpres(bd.fields['_name']))
            ctx.check(name + '/preserved-and-frozen-local-bindings-are-pinned', z3.Not(a1) if ctx.solver.check(z3.Not(must_pin)) == z3.unsat else z3.BoolVal(True),
                      kind='post', detail='a binding of a non-module namespace whose name is listed (or when rename_locals is off) must be pinned')
            ctx.check('C10/allow_rename_locals/asking-to-preserve-changes-nothing-else', z3.Implies(z3.Not(must_pin), a1 == allow0), kind='frame')
            ctx.check('C04/allow_rename_locals/never-re-enables-a-binding', z3.Implies(a1, allow0), kind='frame')
        if not ctx.data(bindings).items:
            # no binding was inspected: only allowed for the module or a node that is not a namespace
            ctx.check(name + '/every-local-namespace-is-inspected', z3.Or(z3.Not(is_local_ns), ctx.data(bindings).symlen == 0), kind='post')
        for r in rec:
            ctx.check(name + '/children-are-processed-with-the-same-arguments', r[1] is rename_locals and r[2] == preserve, kind='post', detail=repr(r[1:]))
        if ctx.solver.check(cd.symlen == 0) == z3.unsat:
            ctx.check(name + '/every-child-is-visited', len(rec) >= 1 and rec[0][0] in cd.items.values(), kind='post')
    ex = Explorer()
    ex.explore(run)
    r1 = _finish(ex, name, [source.describe(RU + ':allow_rename_locals')])

    def run2(ctx):
        policy = PreservePolicy()
        interp = Interp(ctx, policy=policy)
        policy.interp = interp
        module = ctx.new_node({'Module'}, name='module')
        bindings = sym_bindings(ctx, 'bindings')
        ctx.data(module).fields['bindings'] = bindings
        preserve = sym_strings(ctx, 'preserve_globals')
        all_names = sym_strings(ctx, 'dunder_all_names')
        interp.hooks[RU + ':find__all__'] = lambda it, f, a, k: all_names
        rename_globals = [True, False][ctx.choose(2, 'rename_globals')]

        class PP(PreservePolicy):
            def call_method(self, it, recv, nm, args, kwargs):
                if isinstance(recv, Obj) and recv == preserve and nm == 'extend':
                    ctx.data(preserve).extra.setdefault('extended_by', []).append(args[0])
                    return None
                return PROCEED

            def contains(self, it, container, item):
                if container == preserve and z3.is_expr(item):
                    f1 = z3.Function('in_preserve_globals', z3.StringSort(), z3.BoolSort())
                    f2 = z3.Function('in_dunder_all_names', z3.StringSort(), z3.BoolSort())
                    ext = ctx.data(preserve).extra.get('extended_by', [])
                    return z3.Or(f1(item), f2(item)) if all_names in ext else f1(item)
                return PROCEED
        interp.policy = PP()
        interp.policy.interp = interp
        interp.call(interp.wrap(umod.allow_rename_globals), [module, rename_globals, preserve], {})
        f1 = z3.Function('in_preserve_globals', z3.StringSort(), z3.BoolSort())
        f2 = z3.Function('in_dunder_all_names', z3.StringSort(), z3.BoolSort())
        from pyvc.interp import _keyname
        ctx.check('C10/allow_rename_globals/names-in-__all__-are-added-to-the-preserved-globals', ctx.data(preserve).extra.get('extended_by') == [all_names], kind='post')
        for k, b in ctx.data(bindings).items.items():
            bd = ctx.data(b)
            allow0 = z3.Bool('bindings_allow_%s' % _keyname(k))
            allow1 = bd.fields['_allow_rename']
            a1 = allow1 if z3.is_expr(allow1) else z3.BoolVal(bool(allow1))
            must_pin = z3.Or(z3.BoolVal(rename_globals is False), f1(bd.fields['_name']), f2(bd.fields['_name']))
            ctx.check('C10/allow_rename_globals/preserved-exported-and-frozen-module-bindings-are-pinned', z3.Implies(must_pin, z3.Not(a1)), kind='post')
            ctx.check('C10/allow_rename_globals/asking-to-preserve-changes-nothing-else', z3.Implies(z3.Not(must_pin), a1 == allow0), kind='frame')
        if not ctx.data(bindings).items:
            ctx.check('C04/allow_rename_globals/every-module-binding-is-inspected', ctx.data(bindings).symlen == 0, kind='post')
    ex2 = Explorer()
    ex2.explore(run2)
    r2 = _finish(ex2, 'C10/allow_rename_globals', [source.describe(RU + ':allow_rename_globals')])

    # find__all__
    def run3(ctx):
        policy = RenPolicy()
        interp = Interp(ctx, policy=policy)
        policy.interp = interp
        P.install_symconst_type_support()
        module = ctx.new_node({'Module'}, name='module')
        stmts = ctx.new_obj('list', name='module_children')
        sd = ctx.data(stmts)
        sd.items = {}
        sd.symlen = z3.Int('n_module_children')
        ctx.assume(sd.symlen >= 0)
        from pyvc.interp import _keyname
        sd.elem_factory = lambda key: ctx.new_node(tags_of_class(real_ast.stmt), name='stmt_%s' % _keyname(key))
        searched = []
        interp.natives[compat.iter_child_nodes] = lambda it, a, k: (searched.append(('children', a[0])), stmts)[1]
        interp.natives[compat.walk] = lambda it, a, k: (searched.append(('walk', a[0])), stmts)[1]          # every node of the module (an arbitrary one is analysed)

        def literal_eval(it, a, k):
            # ast.literal_eval(node): the python value of a literal display, ValueError as soon as ANY part of it is not a literal
            node = a[0]
            if not isinstance(node, Obj) or ctx.data(node).kind != 'node':
                raise Undecided('literal_eval of %r' % (node,))
            nd = ctx.data(node)
            if 'Constant' in nd.tags and ctx.branch(nd.tagvar == tag_const('Constant')):
                it.narrow(node, {'Constant'})
                return it.getattr(node, 'value')
            seqs = nd.tags & {'List', 'Tuple', 'Set'}
            if not (seqs and ctx.branch(z3.Or([nd.tagvar == tag_const(t) for t in sorted(seqs)]))):
                raise Raised(ExcVal(ValueError, ('malformed node or string',)))
            it.narrow(node, seqs)
            elts = it.getattr(node, 'elts')
            ed = ctx.data(elts)
            if ctx.branch(ed.symlen >= 1):
                e = it.list_elem(elts, ('g', 'literal_eval'))
                if not ctx.branch(ctx.data(e).tagvar == tag_const('Constant')):
                    raise Raised(ExcVal(ValueError, ('malformed node or string',)))
            out = ctx.new_obj('list', name=ctx.fresh('literal_value'))
            od = ctx.data(out)
            od.items = {}
            od.symlen = ed.symlen
            od.extra['literal_of'] = node

            def elem(key):
                e = it.list_elem(elts, key)
                ctx.assume(ctx.data(e).tagvar == tag_const('Constant'))     # every element is a literal on this path (else ValueError above)
                it.narrow(e, {'Constant'})
                return it.getattr(e, 'value')
            od.elem_factory = elem
            return out
        interp.natives[real_ast.literal_eval] = literal_eval
        r = interp.call(interp.wrap(umod.find__all__), [module], {})
        rd = ctx.data(r) if isinstance(r, Obj) else None
        # the statement analysed in the arbitrary iteration; what the code never looked at is materialised now, so that a statement kind the code skips
        # without examining it (an annotated or augmented assignment to __all__ ...) is still subject to the universal below
        for k, st in list(sd.items.items()):
            d = ctx.data(st)
            kinds = d.tags & {'Assign', 'AugAssign', 'AnnAssign'}
            chosen = None
            for t in sorted(kinds):
                if len(kinds) == 1 or ctx.branch(d.tagvar == tag_const(t)):
                    chosen = t
                    break
            if chosen is None:
                continue
            interp.narrow(st, {chosen})
            v0 = interp.getattr(st, 'value')
            if isinstance(v0, Obj) and ctx.data(v0).kind == 'node':
                vd0 = ctx.data(v0)
                seqs = vd0.tags & {'List', 'Tuple'}
                if seqs and (vd0.tags <= seqs or ctx.branch(z3.Or([vd0.tagvar == tag_const(t) for t in sorted(seqs)]))):
                    interp.narrow(v0, seqs)
                    interp.getattr(v0, 'elts')
            if chosen == 'Assign':
                tl = interp.getattr(st, 'targets')
                if ctx.data(tl).symlen is not None:
                    ctx.assume(ctx.data(tl).symlen >= 1)       # AST validity: an Assign has at least one target
                # the universal over the targets is carried by the arbitrary element of a loop over them; a code that only looks at fixed
                # positions (targets[0]) has established nothing for the others: `a = __all__ = [...]`  (seed C10-5)
                if not any(isinstance(tk, tuple) and tk and tk[0] == 'g' for tk in ctx.data(tl).items):
                    t0 = interp.list_elem(tl, ('g', 'post'))
                    if 'Name' in ctx.data(t0).tags and ctx.branch(ctx.data(t0).tagvar == tag_const('Name')):
                        interp.narrow(t0, {'Name'})
                        interp.getattr(t0, 'id')
            else:
                t0 = interp.getattr(st, 'target')
                if isinstance(t0, Obj) and 'Name' in ctx.data(t0).tags and (ctx.data(t0).tags == {'Name'} or ctx.branch(ctx.data(t0).tagvar == tag_const('Name'))):
                    interp.narrow(t0, {'Name'})
                    interp.getattr(t0, 'id')
        for k, st in sd.items.items():
            d = ctx.data(st)
            val = d.fields.get('value')
            appended = [x for x in (rd.items if rd is not None and rd.symlen is None else [])]
            if not isinstance(val, Obj):
                continue
            vd = ctx.data(val)
            elts = vd.fields.get('elts')
            if not isinstance(elts, Obj):
                continue
            # the universal "every string element is collected" is carried by the arbitrary element of a loop over the elements: when a list
            # display assigned to __all__ is accepted or rejected WITHOUT such a loop, nothing is established for its elements
            looped = [ek for ek in ctx.data(elts).items if isinstance(ek, tuple) and ek and ek[0] == 'g' and ek[1:] != ('literal_eval',)]
            is_display = z3.Or(vd.tagvar == tag_const('List'), vd.tagvar == tag_const('Tuple')) if vd.tagvar is not None else z3.BoolVal(bool(vd.tags & {'List', 'Tuple'}))
            if not looped and ctx.data(elts).symlen is not None and ctx.solver.check(ctx.data(elts).symlen >= 1, is_display) == z3.sat:
                tgt = z3.BoolVal(False)
                for tk, t in (ctx.data(d.fields['targets']).items.items() if 'targets' in d.fields and isinstance(d.fields['targets'], Obj) else []):
                    if isinstance(t, Obj) and 'id' in ctx.data(t).fields:
                        tgt = z3.Or(tgt, z3.And(ctx.data(t).tagvar == tag_const('Name'), ctx.data(t).fields['id'] == z3.StringVal('__all__')))
                if 'target' in d.fields and isinstance(d.fields['target'], Obj) and 'id' in ctx.data(d.fields['target']).fields:
                    t = d.fields['target']
                    tgt = z3.Or(tgt, z3.And(ctx.data(t).tagvar == tag_const('Name'), ctx.data(t).fields['id'] == z3.StringVal('__all__')))
                ctx.check('C10/find__all__/string-elements-of-a-literal-__all__-list-are-collected',
                          z3.Not(z3.And(tgt, is_display, ctx.data(elts).symlen >= 1)), kind='post',
                          detail='[needs-witness] a list display assigned to __all__ was handled without looking at each of its elements '
                                 '(e.g. rejected as a whole because ONE element is not a literal): its string elements are not collected')
            for ek, el in ctx.data(elts).items.items():
                if not isinstance(el, Obj):
                    continue
                c = ctx.data(el).fields.get('value')
                if not isinstance(c, SymConst):
                    continue
                is_str = z3.And(ctx.data(el).tagvar == tag_const('Constant'), c.kind == 6)
                got = any(x is c for x in appended)
                tgt_all = z3.BoolVal(False)
                if 'targets' in d.fields:
                    for tk, t in ctx.data(d.fields['targets']).items.items():
                        if isinstance(t, Obj) and 'id' in ctx.data(t).fields:
                            tgt_all = z3.Or(tgt_all, z3.And(ctx.data(t).tagvar == tag_const('Name'), ctx.data(t).fields['id'] == z3.StringVal('__all__')))
                if 'target' in d.fields and isinstance(d.fields['target'], Obj) and 'id' in ctx.data(d.fields['target']).fields:
                    t = d.fields['target']
                    tgt_all = z3.Or(tgt_all, z3.And(ctx.data(t).tagvar == tag_const('Name'), ctx.data(t).fields['id'] == z3.StringVal('__all__')))
                if got:
                    # what is collected is a string element of a value assigned to __all__ (a tuple display is accepted as well: preserving more is harmless)
                    ctx.check('C10/find__all__/only-string-elements-of-an-__all__-assignment-are-collected', z3.And(is_str, tgt_all), kind='post')
                else:
                    ctx.check('C10/find__all__/string-elements-of-a-literal-__all__-list-are-collected', z3.Not(z3.And(is_str, tgt_all, is_display)),
                              kind='post', detail='a string element of a list / tuple display assigned to __all__ is not collected')
        ctx.check('C10/find__all__/returns-a-list', rd is not None, kind='post')
        # "a literal __all__ list" may sit in any statement of the module (if sys.version_info >= ...: __all__ += [...]): every node is examined
        ctx.check('C10/find__all__/every-node-of-the-module-is-examined', searched == [('walk', module)], kind='post',
                  detail='[needs-witness] the assignments examined come from %r: an __all__ list inside an if / try / with statement is not seen' % (searched,))
    ex3 = Explorer(max_paths=3000)
    ex3.explore(run3)
    r3 = _finish(ex3, 'C10/find__all__', [source.describe(RU + ':find__all__')])
    for r in (r2, r3):
        r1['obligations'] += r['obligations']
        r1['functions'] += r['functions']
        r1['notes'] += r['notes']
    return r1


# ---------------------------------------------------------------------------------------------------------------------
# taint detection for star imports (C09)

def task_taint_alias():
    mod = source.import_module(BN)
    name = 'C09/NameBinder.visit_alias'

    def run(ctx):
        policy = RenPolicy()
        interp = Interp(ctx, policy=policy)
        policy.interp = interp
        node = ctx.new_node({'alias'}, name='alias')
        ns = make_namespace(ctx, 'ns', NAMESPACE_TAGS)
        ctx.data(node).fields['namespace'] = ns
        module = ctx.new_node({'Module'}, name='module')
        ctx.data(module).fields['tainted'] = False
        interp.hooks[RU + ':get_global_namespace'] = lambda it, f, a, k: module
        bound = []

        def gb(it, f, a, k):
            b = ctx.new_obj('ns', name=ctx.fresh('binding'))
            bound.append((a[1], a[2], b))
            return b
        interp.hooks[BN + ':NameBinder.get_binding'] = gb

        class PP(RenPolicy):
            def attr(self, it, obj, nm):
                if isinstance(obj, Obj) and ctx.data(obj).kind == 'ns' and nm in ('add_reference', 'disallow_rename'):
                    from pyvc.engine import NativeMethod
                    return NativeMethod(obj, nm)
                return RenPolicy.attr(self, it, obj, nm)

            def call_method(self, it, recv, nm, args, kwargs):
                if isinstance(recv, Obj) and ctx.data(recv).kind == 'ns' and nm in ('add_reference', 'disallow_rename'):
                    ctx.data(recv).extra.setdefault('calls', []).append((nm, tuple(args)))
                    return None
                return PROCEED

            def str_method(self, it, recv, nm, args, kwargs):
                if nm == 'split' and z3.is_expr(recv) and args == ['.']:
                    root = z3.String('root_module_of_' + recv.decl().name())
                    dotted = z3.Contains(recv, z3.StringVal('.'))
                    ctx.assume(z3.Implies(z3.Not(dotted), root == recv))
                    ctx.assume(z3.Implies(dotted, z3.PrefixOf(z3.Concat(root, z3.StringVal('.')), recv)))
                    ctx.assume(z3.Not(z3.Contains(root, z3.StringVal('.'))))
                    return [root]
                return PROCEED
        interp.policy = PP()
        interp.policy.interp = interp
        o = interp.instantiate(mod.NameBinder, [], {})
        interp.call(interp.getattr(o, 'visit_alias'), [node], {})
        nm = ctx.data(node).fields['name']
        t = ctx.data(module).fields['tainted']
        tz = t if z3.is_expr(t) else z3.BoolVal(bool(t))
        ctx.check(name + '/star-import-taints-the-module', z3.Implies(nm == z3.StringVal('*'), tz), kind='post')
        asname = ctx.data(node).fields.get('asname')
        for (n, nsx, b) in bound:
            calls = ctx.data(b).extra.get('calls', [])
            ctx.check('C04/NameBinder.visit_alias/binding-is-made-in-the-namespace-of-the-import', nsx == ns, kind='post')
            if asname is None:
                dotted = z3.Contains(nm, z3.StringVal('.'))
                pinned = any(c[0] == 'disallow_rename' for c in calls)
                ctx.check('C04/NameBinder.visit_alias/dotted-imports-pin-the-root-module-name', z3.Implies(dotted, z3.BoolVal(pinned)), kind='post',
                          detail='import a.b binds a; renaming it would need `import a.b as x`, which binds a.b instead')
    ex = Explorer()
    ex.explore(run)
    return _finish(ex, name, [source.describe(BN + ':NameBinder.visit_alias')])


# ---------------------------------------------------------------------------------------------------------------------
# reservation_scope / reserve_name / NameAssigner.available_name   (C03, used by contract in NameAssigner.__call__)

def task_reservation_scope():
    """reservation_scope(namespace, binding) == {namespace} U { every namespace on the .namespace chain of every reference, up to `namespace` }.

    The inner while loop walks a pointer chain of unbounded length; it is verified with a per-iteration contract that is inductive over the chain:
      (I)  on entry of an iteration with node = c, c is not `namespace`           (loop test)
      (S)  the iteration adds c.namespace to the result set -- unconditionally, whatever its class -- and continues with node = c.namespace
      (F)  nothing is ever removed from the set, the variable keeps denoting the same set, the only exit is the loop test
    By induction on the length of the chain c0 = reference, c1 = c0.namespace, ... ck = namespace, all of c1..ck are in the set at exit.  The first
    iteration (c = the reference itself) and one arbitrary later iteration (c havoc'd to an arbitrary node) are executed symbolically.
    Precondition (assumed, established by resolve_names): `namespace` is on the chain of every reference, i.e. the loop terminates.
    """
    rmod = source.import_module(RN)
    bmod = source.import_module(RB)
    hmod = source.import_module('python_minifier.rename.rename_literals')
    KNOWN_FIELDS = {'_name', '_allow_rename', '_reserved', '_references', '_value_node', '_local_namespace'}

    def run(ctx, kind='name', name='C03/reservation_scope'):
        outer = RenPolicy()
        interp = Interp(ctx, policy=outer)
        N = ctx.new_node(NAMESPACE_TAGS, name='binding_namespace')
        if kind == 'name':
            b = ctx.new_obj('inst', bmod.NameBinding, name='binding')
        else:
            # a hoisted literal: built by its real constructor; every field the contract does not know about holds an arbitrary value (it is
            # whatever rename_literals left there), so a shortcut through cached state is not covered by this contract
            b = interp.instantiate(hmod.HoistedBinding, [ctx.new_node({'Constant'}, name='literal')], {})
            for fname in list(ctx.data(b).fields):
                if fname not in KNOWN_FIELDS:
                    ctx.data(b).fields[fname] = Opaque('state_left_by_rename_literals_in_' + fname, sort=None)
        refs = ctx.new_obj('list', name='references')
        rd = ctx.data(refs)
        rd.items = {}
        rd.symlen = z3.Int('n_references')
        ctx.assume(rd.symlen >= 0)
        from pyvc.interp import _keyname
        rd.elem_factory = lambda key: ctx.new_node(set(tag_universe()['names']), name='reference_%s' % _keyname(key))
        if kind == 'name':
            ctx.data(b).fields.update({'_name': z3.String('binding_name'), '_allow_rename': z3.Bool('allow'), '_reserved': None, '_references': refs})
        else:
            ctx.data(b).fields['_references'] = refs
        state = {'iter': [], 'sets': []}

        class PP(RenPolicy):
            def attr(self, it, obj, nm):
                if isinstance(obj, Obj):
                    d = ctx.data(obj)
                    if d.kind == 'node' and nm == 'namespace' and nm not in d.fields:
                        # the namespace above a node is the binding namespace or some other namespace node of any class
                        if ctx.branch(z3.Bool('namespace_of_%s_is_the_binding_namespace' % d.name)):
                            d.fields['namespace'] = N
                        else:
                            d.fields['namespace'] = ctx.new_node(NAMESPACE_TAGS, name='ns_of_' + d.name)
                        return d.fields['namespace']
                return RenPolicy.attr(self, it, obj, nm)

            def while_loop(self, it, s, env, n):
                e, cur = env.lookup('node')
                e2, st = env.lookup('namespaces')
                state['iter'].append((n, cur, st, (set(ctx.data(st).items), len(ctx.data(st).extra.get('sym_items', []))) if isinstance(st, Obj) else None))
                if n == 2:
                    # arbitrary later iteration: an arbitrary node of the chain
                    c = ctx.new_node(NAMESPACE_TAGS, name='chain_node')
                    e.vars['node'] = c
                    state['iter'][-1] = (n, c, st, state['iter'][-1][3])
                if n == 3:
                    return 'exit'
                return None

            def havoc_list(self, it, obj, loop_id):
                return True
        interp.policy = PP()
        interp.policy.interp = interp
        # the syntactic parent of a reference: when the reference is the target of an assignment expression, the walk must start at that
        # expression (it sits in the comprehension, the target itself is bound further out)
        walrus = {}

        def parent_hook(it, f, a, k):
            node = a[0]
            if not isinstance(node, Obj):
                raise Undecided('get_parent of %r' % (node,))
            if node.id not in walrus:
                pn = ctx.new_node(set(tag_universe()['names']), name='parent_of_' + ctx.data(node).name)
                is_target = False
                if 'NamedExpr' in ctx.data(pn).tags and 'Name' in ctx.data(node).tags and \
                        ctx.branch(z3.And(ctx.data(pn).tagvar == tag_const('NamedExpr'), ctx.data(node).tagvar == tag_const('Name'),
                                          z3.Bool('%s_is_the_target_of_its_parent' % ctx.data(node).name))):
                    it.narrow(pn, {'NamedExpr'})
                    ctx.data(pn).fields['target'] = node
                    is_target = True
                elif 'NamedExpr' in ctx.data(pn).tags and ctx.branch(ctx.data(pn).tagvar == tag_const('NamedExpr')):
                    it.narrow(pn, {'NamedExpr'})
                    ctx.data(pn).fields['target'] = ctx.new_node({'Name'}, name='other_target')
                walrus[node.id] = (pn, is_target)
            return walrus[node.id][0]
        interp.hooks['python_minifier.ast_annotation:get_parent'] = parent_hook
        r = interp.call(interp.wrap(rmod.reservation_scope), [N, b], {})
        ok_set = isinstance(r, Obj) and ctx.data(r).kind == 'set'
        ctx.check(name + '/returns-a-set', ok_set, kind='post', detail=repr(r))
        if not ok_set:
            return
        d = ctx.data(r)
        ctx.check(name + '/contains-the-binding-namespace', N in d.items, kind='post', detail='concrete members %r' % (d.items,))
        adds = d.extra.get('sym_items', [])
        its = state['iter']
        if not its:
            # no reference: nothing else to show on this path
            ctx.check(name + '/no-reference-no-walk', ctx.solver.check(rd.symlen >= 1) != z3.unsat or True, kind='cover')
            return
        ctx.check(name + '/the-set-variable-always-denotes-the-returned-set', all(st == r for _, _, st, _ in its), kind='frame')
        ctx.check(name + '/only-additions', all(a[0] == 'add' for a in adds), kind='frame', detail=repr([a[0] for a in adds]))
        # every executed iteration: between head k and head k+1 exactly node.namespace was added and node advanced to it
        for k in range(len(its) - 1):
            n, cur, st, nadds = its[k]
            n2, nxt, st2, nadds2 = its[k + 1]
            if n2 != n + 1:
                continue        # next entry belongs to the walk of another reference
            if n == 2 or n == 1:
                label = 'first' if n == 1 else 'arbitrary'
                want = ctx.data(cur).fields.get('namespace')
                if n2 == 2:
                    # its[k+1] records the havoc'd node; the node reached by iteration 1 is what the variable held before the havoc
                    pass
                new = (nadds2[0] - nadds[0], adds[nadds[1]:nadds2[1]])
                ok = want is not None and want in nadds2[0] and nadds2[0] == nadds[0] | {want} and not new[1]
                ctx.check(name + '/%s-iteration-adds-the-namespace-above-the-current-node-whatever-its-class' % label, ok, kind='inv.step',
                          detail='node %s: namespace above %r, added %r' % (ctx.data(cur).name, want, new))
        # the walk for a reference starts at the reference, or at the assignment expression whose target it is
        firsts = [e for e in its if e[0] == 1]
        for n, cur, st, _ in firsts:
            starts = [(rid, pn, tgt) for rid, (pn, tgt) in walrus.items()]
            tgt_parents = [pn for rid, pn, tgt in starts if tgt]
            if cur in tgt_parents:
                ctx.check(name + '/a-walrus-target-is-walked-from-its-assignment-expression', True, kind='inv.init')
            else:
                is_tgt = any(tgt and rid == cur.id for rid, pn, tgt in starts) if isinstance(cur, Obj) else False
                asked = isinstance(cur, Obj) and cur.id in walrus
                if is_tgt or asked:
                    ctx.check(name + '/a-walrus-target-is-walked-from-its-assignment-expression', not is_tgt, kind='inv.init',
                              detail='the walk starts at the target itself: the comprehensions around the assignment expression are not reserved')
                else:
                    # the code never looked at what the reference is: it may be the target of an assignment expression inside a comprehension
                    ghost = z3.Bool('%s_is_the_target_of_an_assignment_expression' % ctx.data(cur).name) if isinstance(cur, Obj) else z3.BoolVal(True)
                    is_name = ctx.data(cur).tagvar == tag_const('Name') if isinstance(cur, Obj) and 'Name' in ctx.data(cur).tags else z3.BoolVal(False)
                    ctx.check(name + '/a-walrus-target-is-walked-from-its-assignment-expression', z3.Not(z3.And(ghost, is_name)), kind='inv.init',
                              detail='the walk starts at the reference without asking whether it is the target of an assignment expression (whose '
                                     'comprehensions must be reserved too: `[A for A in d if (A := A)]` does not compile)')
        # advance: checked through the recorded value of `node` at the next head (only observable for the arbitrary iteration, n=2 -> 3)
        for k in range(len(its) - 1):
            if its[k][0] == 2 and its[k + 1][0] == 3:
                ctx.check(name + '/arbitrary-iteration-continues-with-the-namespace-above', its[k + 1][1] == ctx.data(its[k][1]).fields.get('namespace'), kind='inv.step')
    name = 'C03/reservation_scope'
    ex = Explorer(max_paths=400)
    ex.explore(run)
    r1 = _finish(ex, name, [source.describe(RN + ':reservation_scope')])
    exh = Explorer(max_paths=400)
    exh.explore(lambda ctx: run(ctx, 'hoisted', 'C06/reservation_scope[HoistedBinding]'))
    rh = _finish(exh, 'C06/reservation_scope[HoistedBinding]', [source.describe('python_minifier.rename.rename_literals:HoistedBinding.__init__')])
    r1['obligations'] += rh['obligations']
    r1['functions'] += rh['functions']
    r1['notes'] += rh['notes']

    # reserve_name(name, scope): every namespace of the scope gets the name
    def run2(ctx):
        policy = RenPolicy()
        interp = Interp(ctx, policy=policy)
        policy.interp = interp
        nm = z3.String('reserved_name')
        scope = ctx.new_obj('list', name='scope')
        sd = ctx.data(scope)
        sd.items = {}
        sd.symlen = z3.Int('n_scope')
        ctx.assume(sd.symlen >= 0)
        sets = {}

        def mk(key):
            from pyvc.interp import _keyname
            ns = ctx.new_node(NAMESPACE_TAGS, name='scope_ns_%s' % _keyname(key))
            s = ctx.new_obj('set', name='assigned_%s' % _keyname(key))
            ctx.data(s).items = set()
            ctx.data(ns).fields['assigned_names'] = s
            sets[ns.id] = s
            return ns
        sd.elem_factory = mk
        interp.call(interp.wrap(rmod.reserve_name), [nm, scope], {})
        if not sets:
            ctx.check('C03/reserve_name/empty-scope', True, kind='cover')
            return
        for nsid, s in sets.items():
            adds = ctx.data(s).extra.get('sym_items', [])
            ok = len(adds) == 1 and adds[0][0] == 'add' and z3.is_expr(adds[0][1]) and adds[0][1].eq(nm)
            ctx.check('C03/reserve_name/an-arbitrary-namespace-of-the-scope-gets-exactly-the-name', ok, kind='inv.step', detail=repr(adds))
    ex2 = Explorer()
    ex2.explore(run2)
    r2 = _finish(ex2, 'C03/reserve_name', [source.describe(RN + ':reserve_name')])

    # available_name(scope, prefix): the returned name was found available, with its prefix, in exactly this scope
    def run3(ctx):
        policy = RenPolicy()
        interp = Interp(ctx, policy=policy)
        policy.interp = interp
        scope = Opaque('the_scope', sort='list')
        prefix = '_' if ctx.branch(z3.Bool('with_prefix')) else ''
        names = ctx.new_obj('list', name='candidate_names')
        nd = ctx.data(names)
        nd.items = {}
        nd.symlen = z3.Int('n_candidates')
        ctx.assume(nd.symlen >= 0)
        nd.elem_factory = lambda key: z3.String('candidate_%s' % (key if isinstance(key, int) else 'g'))
        asked = []

        def avail(it, f, a, k):
            bv = z3.Bool(ctx.fresh('is_available'))
            asked.append((a[1], a[2], bv))
            return bv
        interp.hooks[RN + ':NameAssigner.is_available'] = avail
        interp.hooks[RN + ':NameAssigner.iter_names'] = lambda it, f, a, k: names
        interp.hooks['python_minifier.rename.name_generator:name_filter'] = lambda it, f, a, k: Opaque('name_generator', sort='generator')
        o = interp.instantiate(rmod.NameAssigner, [], {})
        r = interp.call(interp.getattr(o, 'available_name'), [scope], {'prefix': prefix} if prefix else {})
        if r is None:
            ctx.check('C03/NameAssigner.available_name/none-only-when-the-candidates-are-exhausted', True, kind='cover')
            return
        to_z3_string = lambda it, v: it.to_z3(v)
        hit = [q for q in asked if any(c.eq(q[2]) for c in ctx.pc)]
        ok = bool(hit)
        ctx.check('C03/NameAssigner.available_name/returned-name-was-found-available', ok, kind='post', detail='returned %r; availability queries %r' % (r, asked))
        if ok:
            q = hit[-1]
            ctx.check('C03/NameAssigner.available_name/availability-was-asked-for-the-same-scope', q[1] is scope or q[1] == scope, kind='post')
            ctx.check('C03/NameAssigner.available_name/availability-was-asked-for-the-returned-text', to_z3_string(interp, q[0]) == to_z3_string(interp, r), kind='post',
                      detail='asked %r returned %r' % (q[0], r))
            ctx.check('C04/NameAssigner.available_name/returned-name-starts-with-the-prefix', z3.PrefixOf(z3.StringVal(prefix), to_z3_string(interp, r)), kind='post')
    ex3 = Explorer()
    ex3.explore(run3)
    r3 = _finish(ex3, 'C03/NameAssigner.available_name', [source.describe(RN + ':NameAssigner.available_name')])
    for rr in (r2, r3):
        r1['obligations'] += rr['obligations']
        r1['functions'] += rr['functions']
        r1['notes'] += rr['notes']
    return r1


# ---------------------------------------------------------------------------------------------------------------------
# resolve_names: which binding every use is attached to, what gets pinned on the way   (C03)

def task_resolve_names():
    """resolve_names(node) for a symbolic node of every class (children by the recursive contract):
       - a Name that is read is attached to get_binding(its id, its namespace), and to nothing else;
       - a node that binds a name the class/function body also uses from outside (name in namespace.nonlocal_names) is attached to the binding
         found by get_binding for that name;
       - whenever such a node sits directly in a CLASS body, the binding found is pinned (the name becomes an attribute) AND the module level
         binding of the same name is pinned: a class body looks a name up in the class, then in the module globals, never in the enclosing
         function, so the global's name must survive (this clause is what known finding KF-17, repaired in f054637, violated);
       - every child is visited."""
    mod = source.import_module(RS)
    bmod = source.import_module(RB)
    import python_minifier.ast_compat as compat
    name = 'C03/resolve_names'
    BINDERS = {'ClassDef': 'name', 'FunctionDef': 'name', 'AsyncFunctionDef': 'name', 'ExceptHandler': 'name', 'MatchAs': 'name', 'MatchStar': 'name',
               'MatchMapping': 'rest'}

    def run(ctx):
        policy = RenPolicy()
        interp = Interp(ctx, policy=policy)
        policy.interp = interp
        root = ctx.new_node(set(tag_universe()['names']), name='node')
        ns = make_namespace(ctx, 'ns', NAMESPACE_TAGS)
        ctx.data(root).fields['namespace'] = ns
        ev = []
        glob_ns = Opaque('global_namespace_of_ns', sort='node')

        def gb_hook(it, f, a, k):
            b = ctx.new_obj('inst', bmod.NameBinding, name=ctx.fresh('found_binding'))
            ctx.data(b).fields.update({'_name': a[0], '_allow_rename': z3.Bool(ctx.fresh('allow')), '_reserved': None, '_references': ctx.new_list([])})
            ev.append(('get_binding', a[0], a[1], b))
            return b
        interp.hooks[RS + ':get_binding'] = gb_hook
        interp.hooks[RU + ':get_global_namespace'] = lambda it, f, a, k: (ev.append(('global_of', a[0])), glob_ns)[1]
        for k in bmod.NameBinding.__mro__:
            if k.__module__.startswith('python_minifier'):
                if 'add_reference' in k.__dict__:
                    interp.hooks['%s:%s.add_reference' % (k.__module__, k.__name__)] = lambda it, f, a, kw: ev.append(('add_reference', a[0], a[1]))
                if 'disallow_rename' in k.__dict__:
                    interp.hooks['%s:%s.disallow_rename' % (k.__module__, k.__name__)] = lambda it, f, a, kw: ev.append(('pin', a[0]))

        def rec_hook(it, f, a, k):
            if a[0] == root:
                return PROCEED
            ev.append(('recurse', a[0]))
            return None
        interp.hooks[RS + ':resolve_names'] = rec_hook
        private = z3.Bool('class_uses_private_names')
        private_asked = []
        interp.hooks[RU + ':has_private_names'] = lambda it, f, a, k: (private_asked.append(a[0]), private)[1]
        children = ctx.new_obj('list', name='children')
        cd = ctx.data(children)
        cd.items = {}
        cd.symlen = z3.Int('n_children')
        ctx.assume(cd.symlen >= 0)
        from pyvc.interp import _keyname
        cd.elem_factory = lambda key: ctx.new_node(set(tag_universe()['names']), name='child_%s' % _keyname(key))
        iter_calls = []
        interp.natives[compat.iter_child_nodes] = lambda it, a, k: (iter_calls.append(a[0]), children)[1]
        interp.call(interp.wrap(mod.resolve_names), [root], {})
        rd = ctx.data(root)
        nsd = ctx.data(ns)
        in_class = nsd.tagvar == tag_const('ClassDef')
        used_outside = z3.Bool('name_in_nonlocal_names_ns')
        gets = [e for e in ev if e[0] == 'get_binding']
        refs = [e for e in ev if e[0] == 'add_reference']
        pins = [e[1] for e in ev if e[0] == 'pin']
        local_gets = [e for e in gets if e[2] == ns]
        global_gets = [e for e in gets if e[2] == glob_ns]
        # every child is visited
        ctx.check(name + '/children-come-from-iter_child_nodes-of-this-node', iter_calls == [root], kind='post', detail=repr(iter_calls))
        for k, c in cd.items.items():
            ctx.check(name + '/an-arbitrary-child-is-visited', ('recurse', c) in ev, kind='inv.step')
        # references are only ever added for this node, to a binding obtained for this node's namespace
        ctx.check(name + '/references-are-added-for-this-node-only', all(r[2] == root for r in refs), kind='frame', detail=repr(refs))
        ctx.check(name + '/references-go-to-a-binding-looked-up-from-the-node-namespace', all(any(r[1] == g[3] for g in local_gets) for r in refs), kind='post',
                  detail='get_binding calls %r' % ([(g[1], g[2]) for g in gets],))
        if rd.tags != {'Nonlocal'}:
            ctx.check(name + '/at-most-one-reference-per-node', len(refs) <= 1, kind='post')
        tag = rd.tagvar
        is_load = None
        if rd.tags == {'Name'}:
            cx = rd.fields.get('ctx')
            if isinstance(cx, Obj):
                cxd = ctx.data(cx)
                is_load = cxd.tagvar == tag_const('Load')
                is_store = cxd.tagvar == tag_const('Store')
                if refs:
                    g = [g for g in local_gets if g[3] == refs[0][1]]
                    ctx.check(name + '/a-name-is-attached-under-its-own-identifier', bool(g) and z3.is_expr(g[0][1]) and g[0][1].eq(rd.fields.get('id')), kind='post')
                    ctx.check(name + '/only-reads-and-names-shared-with-the-outside-are-attached', z3.Or(is_load, used_outside), kind='post')
                else:
                    ctx.check(name + '/every-read-is-attached-to-a-binding', z3.Not(is_load), kind='post', detail='a Name in Load context must be resolved')
                    ctx.check(name + '/a-store-of-a-shared-name-is-attached', z3.Not(used_outside), kind='post')
                if refs:
                    stored_in_class = z3.And(z3.Not(is_load), in_class)         # Store or Del: both make the name local to the class body
                    pinned_local = refs[0][1] in pins
                    pinned_global = any(g[3] in pins and z3.is_expr(g[1]) and g[1].eq(rd.fields.get('id')) for g in global_gets)
                    if not (pinned_local and pinned_global):
                        ctx.check(name + '/a-name-bound-in-a-class-body-pins-its-binding-and-the-global-of-the-same-name', z3.Not(stored_in_class), kind='post',
                                  detail='binding pinned: %s, module-level binding of the same name pinned: %s' % (pinned_local, pinned_global))
                    else:
                        ctx.check(name + '/cover-class-store-pins', True, kind='cover')
        elif len(rd.tags) == 1 and list(rd.tags)[0] in BINDERS:
            fld = BINDERS[list(rd.tags)[0]]
            nm = rd.fields.get(fld)
            if refs:
                g = [g for g in local_gets if g[3] == refs[0][1]]
                ok = bool(g) and (g[0][1] is nm or (z3.is_expr(g[0][1]) and z3.is_expr(nm) and g[0][1].eq(nm)))
                ctx.check(name + '/a-binder-is-attached-under-the-name-it-binds', ok, kind='post', detail='%r vs %r' % (g and g[0][1], nm))
                ctx.check(name + '/binders-are-attached-only-for-names-shared-with-the-outside', used_outside, kind='post')
                pinned_local = refs[0][1] in pins
                pinned_global = any(g2[3] in pins and (g2[1] is nm or (z3.is_expr(g2[1]) and z3.is_expr(nm) and g2[1].eq(nm))) for g2 in global_gets)
                if not (pinned_local and pinned_global):
                    ctx.check(name + '/a-name-bound-in-a-class-body-pins-its-binding-and-the-global-of-the-same-name', z3.Not(in_class), kind='post',
                              detail='binder %s: binding pinned: %s, module-level binding of the same name pinned: %s' % (sorted(rd.tags), pinned_local, pinned_global))
                if rd.tags == {'ClassDef'}:
                    ctx.check('C04/resolve_names/a-class-that-uses-private-names-is-pinned', z3.BoolVal(private_asked == [root]) if pinned_local else
                              z3.And(z3.BoolVal(private_asked == [root]), z3.Not(private)), kind='post')
            elif nm is not None:
                ctx.check(name + '/a-binder-of-a-shared-name-is-attached', z3.Not(used_outside), kind='post')
        elif rd.tags == {'alias'}:
            asname = rd.fields.get('asname')
            full = rd.fields.get('name')
            if refs:
                g = [g for g in local_gets if g[3] == refs[0][1]]
                bound_name = g[0][1] if g else None
                if asname is not None:
                    ctx.check(name + '/an-import-with-as-is-attached-under-the-alias', z3.is_expr(bound_name) and bound_name.eq(asname), kind='post')
                else:
                    rootm = z3.String('root_module_of_' + full.decl().name())
                    ctx.check(name + '/a-plain-import-is-attached-under-its-root-module', z3.is_expr(bound_name) and bound_name.eq(rootm), kind='post',
                              detail='%r' % (bound_name,))
                    if refs[0][1] not in pins:
                        ctx.check('C04/resolve_names/a-dotted-import-pins-the-root-module-name', z3.Not(z3.Contains(full, z3.StringVal('.'))), kind='post')
                ctx.check(name + '/binders-are-attached-only-for-names-shared-with-the-outside', used_outside, kind='post')
                pinned_local = refs[0][1] in pins
                pinned_global = any(g2[3] in pins and z3.is_expr(g2[1]) and z3.is_expr(bound_name) and g2[1].eq(bound_name) for g2 in global_gets)
                if not (pinned_local and pinned_global):
                    ctx.check(name + '/a-name-bound-in-a-class-body-pins-its-binding-and-the-global-of-the-same-name', z3.Not(in_class), kind='post',
                              detail='import: binding pinned: %s, module-level binding of the same name pinned: %s' % (pinned_local, pinned_global))
            else:
                ctx.check(name + '/a-binder-of-a-shared-name-is-attached', z3.Not(used_outside), kind='post')
        elif rd.tags == {'Nonlocal'}:
            nl = rd.fields.get('names')
            for k, nmv in (ctx.data(nl).items.items() if isinstance(nl, Obj) else []):
                g = [g for g in local_gets if z3.is_expr(g[1]) and z3.is_expr(nmv) and g[1].eq(nmv)]
                ok = bool(g) and any(r[1] == g[0][3] and r[2] == root for r in ev if r[0] == 'add_reference')
                ctx.check(name + '/an-arbitrary-name-of-a-nonlocal-statement-is-attached-to-its-binding', ok, kind='inv.step')
        elif not refs:
            ctx.check(name + '/cover-no-reference', True, kind='cover')
    ex = Explorer(max_paths=3000)
    ex.explore(run)
    return _finish(ex, name, [source.describe(RS + ':resolve_names'), source.describe(RS + ':get_binding_disallow_class_namespace_rename'),
                              source.describe(RS + ':disallow_global_rename')])


# ---------------------------------------------------------------------------------------------------------------------
# NameBinder visitor methods and Binding.add_reference   (C03: every binding occurrence is attached to the binding of its name)

BINDER_CASES = [
    # method, node classes, field holding the bound name, optional?, generic_visit expected?
    ('visit_ClassDef', {'ClassDef'}, 'name', False, True), ('visit_FunctionDef', {'FunctionDef'}, 'name', False, True),
    ('visit_AsyncFunctionDef', {'AsyncFunctionDef'}, 'name', False, True), ('visit_ExceptHandler', {'ExceptHandler'}, 'name', True, True),
    ('visit_MatchAs', {'MatchAs'}, 'name', True, True), ('visit_MatchStar', {'MatchStar'}, 'name', True, True),
    ('visit_MatchMapping', {'MatchMapping'}, 'rest', True, True), ('visit_TypeVar', {'TypeVar'}, 'name', False, False),
    ('visit_TypeVarTuple', {'TypeVarTuple'}, 'name', False, False), ('visit_ParamSpec', {'ParamSpec'}, 'name', False, False),
    ('visit_arg', {'arg'}, 'arg', False, True), ('visit_Name', {'Name'}, 'id', False, False), ('visit_Global', {'Global'}, None, False, False),
]


def task_name_binder_visitors():
    """For a symbolic node of each binding class: unless the name is shared with the outside (namespace.nonlocal_names, resolved later), the node
    is added as a reference to NameBinder.get_binding(<the name it binds>, <its own namespace>) -- exactly once, to no other binding -- and the
    children are visited (generic_visit) so nested binders are reached.  Parameters a caller can name keep their name reserved."""
    bn = source.import_module(BN)
    bmod = source.import_module(RB)
    obligations = []
    notes = []
    undec = []
    fns = []
    for method, tags, fld, optional, wants_generic in BINDER_CASES:
        name = 'C03/NameBinder.%s' % method
        try:
            fns.append(source.describe(BN + ':NameBinder.' + method))
        except Exception:
            continue

        def run(ctx, method=method, tags=tags, fld=fld, optional=optional, wants_generic=wants_generic, name=name):
            policy = RenPolicy()
            interp = Interp(ctx, policy=policy)
            policy.interp = interp
            root = ctx.new_node(tags, name='node')
            ns = make_namespace(ctx, 'ns', NAMESPACE_TAGS)
            ctx.data(root).fields['namespace'] = ns
            if tags == {'Name'}:
                cx = interp.getattr(root, 'ctx')
                # trees from ast.parse carry Load, Store or Del only (Param is python 2)
                ctx.assume(z3.Or([ctx.data(cx).tagvar == tag_const(t) for t in ('Load', 'Store', 'Del')]))
            ev = []

            def gb_hook(it, f, a, k):
                b = ctx.new_obj('inst', bmod.NameBinding, name=ctx.fresh('binding'))
                ctx.data(b).fields.update({'_name': a[1], '_allow_rename': z3.Bool(ctx.fresh('allow')), '_reserved': None, '_references': ctx.new_list([])})
                ev.append(('get_binding', a[1], a[2], b))
                return b
            interp.hooks[BN + ':NameBinder.get_binding'] = gb_hook
            for k in bmod.NameBinding.__mro__:
                if k.__module__.startswith('python_minifier'):
                    if 'add_reference' in k.__dict__:
                        interp.hooks['%s:%s.add_reference' % (k.__module__, k.__name__)] = \
                            lambda it, f, a, kw: ev.append(('add_reference', a[0], a[1], dict(kw, extra=tuple(a[2:]))))
                    if 'disallow_rename' in k.__dict__:
                        interp.hooks['%s:%s.disallow_rename' % (k.__module__, k.__name__)] = lambda it, f, a, kw: ev.append(('pin', a[0]))
            in_place = z3.Bool('arg_can_be_renamed_in_place')
            interp.hooks[RU + ':arg_rename_in_place'] = lambda it, f, a, k: in_place
            private = z3.Bool('class_uses_private_names')
            private_asked = []
            interp.hooks[RU + ':has_private_names'] = lambda it, f, a, k: (private_asked.append(a[0]), private)[1]
            generic = []
            for k in bn.NameBinder.__mro__:
                if k.__module__.startswith('python_minifier') and 'generic_visit' in k.__dict__:
                    interp.hooks['%s:%s.generic_visit' % (k.__module__, k.__name__)] = lambda it, f, a, kw: generic.append(a[1])
            glob = Opaque('global_namespace', sort='node')
            preserved = ctx.new_obj('set', name='preserved')
            ctx.data(preserved).items = set()
            gobj = ctx.new_obj('ns', name='module')
            ctx.data(gobj).fields['preserved'] = preserved
            ctx.data(gobj).fields['tainted'] = False
            interp.hooks[RU + ':get_global_namespace'] = lambda it, f, a, k: gobj
            o = interp.instantiate(bn.NameBinder, [], {})
            interp.call(interp.getattr(o, method), [root], {})
            rd = ctx.data(root)
            shared = z3.Bool('name_in_nonlocal_names_ns')
            if tags == {'arg'}:
                shared = z3.BoolVal(False)      # a parameter cannot be declared nonlocal in its own function (SyntaxError): it always binds locally
            refs = [e for e in ev if e[0] == 'add_reference']
            gets = [e for e in ev if e[0] == 'get_binding']
            ctx.check(name + '/references-are-added-for-this-node-only', all(r[2] == root for r in refs), kind='frame')
            ctx.check(name + '/bindings-are-looked-up-in-the-node-namespace', all(g[2] == ns for g in gets), kind='post', detail=repr([(g[1], g[2]) for g in gets]))
            if wants_generic:
                ctx.check(name + '/children-are-visited', generic == [root], kind='post', detail='generic_visit calls: %r' % (generic,))
            if fld is None:
                # Global: one reference per listed name
                nl = rd.fields.get('names')
                for k, nmv in (ctx.data(nl).items.items() if isinstance(nl, Obj) else []):
                    g = [g for g in gets if z3.is_expr(g[1]) and z3.is_expr(nmv) and g[1].eq(nmv)]
                    ok = bool(g) and any(r[1] == g[0][3] for r in refs)
                    ctx.check(name + '/an-arbitrary-declared-name-is-attached-to-its-binding', ok, kind='inv.step')
                    if z3.is_expr(nmv):
                        # C09: the declaration binds the name in the module even if nothing is ever assigned: a reflective builtin declared global would no
                        # longer be recognised at its uses, so the declaration itself must freeze the module
                        reflective = z3.Or([nmv == z3.StringVal(x) for x in ('exec', 'eval', 'locals', 'globals', 'vars')])
                        t = ctx.data(gobj).fields.get('tainted')
                        tz = t if z3.is_expr(t) else z3.BoolVal(bool(t))
                        ctx.check('C09/NameBinder.visit_Global/declaring-a-reflective-builtin-global-taints-the-module', z3.Implies(reflective, tz), kind='inv.step',
                                  detail='`global eval` creates a module binding named eval; later eval(...) calls resolve to it and would not taint')
                return
            nm = rd.fields.get(fld) if fld in rd.fields else interp.getattr(root, fld)
            binds = z3.BoolVal(True)
            if tags == {'Name'}:
                cxd = ctx.data(rd.fields['ctx'])
                binds = z3.Or(cxd.tagvar == tag_const('Store'), cxd.tagvar == tag_const('Del'))
            if refs:
                ctx.check(name + '/exactly-one-reference', len(refs) == 1, kind='post', detail=repr(refs))
                g = [g for g in gets if g[3] == refs[0][1]]
                ok = bool(g) and (g[0][1] is nm or (z3.is_expr(g[0][1]) and z3.is_expr(nm) and g[0][1].eq(nm)))
                ctx.check(name + '/attached-under-the-name-it-binds', ok, kind='post', detail='%r vs %r' % (g and g[0][1], nm))
                ctx.check(name + '/only-binding-occurrences-of-unshared-names-are-attached', z3.And(z3.Not(shared), binds), kind='post')
                if tags == {'ClassDef'}:
                    # a class whose body uses __private names keeps its name: the class name is part of their mangled form
                    pinned = refs[0][1] in [e[1] for e in ev if e[0] == 'pin']
                    ctx.check('C04/NameBinder.visit_ClassDef/a-class-that-uses-private-names-is-pinned', z3.BoolVal(private_asked == [root]) if pinned else
                              z3.And(z3.BoolVal(private_asked == [root]), z3.Not(private)), kind='post',
                              detail='has_private_names asked for %r, binding pinned: %s' % (private_asked, pinned))
                if tags == {'arg'}:
                    res = refs[0][3].get('reserved')
                    if res is None:
                        ctx.check('C04/NameBinder.visit_arg/only-parameters-no-caller-can-name-give-up-their-name', in_place, kind='post')
                    else:
                        ctx.check('C04/NameBinder.visit_arg/a-parameter-a-caller-can-name-reserves-exactly-its-name',
                                  z3.And(z3.Not(in_place), z3.BoolVal(res is nm or (z3.is_expr(res) and res.eq(nm)))), kind='post')
                        if refs[0][1] not in [e[1] for e in ev if e[0] == 'pin']:
                            ctx.check('C04/NameBinder.visit_arg/lambda-parameters-a-caller-can-name-are-pinned', ctx.data(ns).tagvar != tag_const('Lambda'), kind='post')
            else:
                if nm is None:
                    ctx.check(name + '/cover-nothing-bound', True, kind='cover')
                else:
                    ctx.check(name + '/every-binding-occurrence-of-an-unshared-name-is-attached', z3.Or(shared, z3.Not(binds)), kind='post',
                              detail='no reference was added for %r' % (nm,))
            if method in ('visit_TypeVar', 'visit_TypeVarTuple', 'visit_ParamSpec'):
                added = ctx.data(preserved).extra.get('sym_items', [])
                ctx.check('C10/NameBinder.%s/type-parameter-names-are-preserved' % method, any(a[0] == 'add' and (a[1] is nm or (z3.is_expr(a[1]) and a[1].eq(nm))) for a in added),
                          kind='post', detail=repr(added))
        ex = Explorer(max_paths=1500)
        ex.explore(run)
        obligations += [o.to_json() for o in ex.obligations]
        if ex.undecided_reason:
            undec.append((name, ex.undecided_reason))
        notes.append('%s: %d feasible paths' % (name, len([p for p in ex.paths if p[0] == 'ok'])))

    # Binding.add_reference on the real class
    def run2(ctx):
        policy = RenPolicy()
        interp = Interp(ctx, policy=policy)
        policy.interp = interp
        b = ctx.new_obj('inst', bmod.NameBinding, name='binding')
        refs0 = ctx.new_list([])
        allow0 = z3.Bool('allow_before')
        res0 = z3.String('reserved_before')
        ctx.data(b).fields.update({'_name': z3.String('binding_name'), '_allow_rename': allow0, '_reserved': res0, '_references': refs0})
        node = ctx.new_node(set(tag_universe()['names']), name='node')
        has_res = ctx.branch(z3.Bool('reserved_given'))
        res = z3.String('reserved_argument') if has_res else None
        allow_arg = z3.Bool('allow_rename_argument')
        interp.call(interp.getattr(b, 'add_reference'), [node], {'allow_rename': allow_arg, 'reserved': res})
        d = ctx.data(b)
        ctx.check('C03/Binding.add_reference/the-node-is-appended-to-the-references', ctx.data(d.fields['_references']).items == [node], kind='post')
        r1 = d.fields['_reserved']
        a1 = d.fields['_allow_rename']
        a1z = a1 if z3.is_expr(a1) else z3.BoolVal(bool(a1))
        if has_res:
            ctx.check('C04/Binding.add_reference/a-reserved-name-is-recorded', z3.is_expr(r1) and r1.eq(res), kind='post', detail=repr(r1))
        ctx.check('C04/Binding.add_reference/never-re-enables-renaming', z3.Implies(a1z, allow0), kind='post')
        ctx.check('C04/Binding.add_reference/allow_rename-false-pins-the-binding', z3.Implies(z3.Not(allow_arg), z3.Not(a1z)), kind='post')
    ex2 = Explorer()
    ex2.explore(run2)
    obligations += [o.to_json() for o in ex2.obligations]
    if ex2.undecided_reason:
        undec.append(('C03/Binding.add_reference', ex2.undecided_reason))
    fns.append(source.describe(RB + ':Binding.add_reference'))
    res = result(obligations, fns, ASSUMPTIONS, notes=notes)
    for nm, why in undec:
        res['obligations'].append({'name': nm + '/engine', 'status': 'undecided', 'detail': why, 'model': {}, 'time_s': 0, 'backend': 'engine', 'path': None,
                                   'kind': 'engine', 'goal': None})
    return res


def task_has_private_names():
    """util.has_private_names(classdef): True as soon as ANY node reached by ast.walk(classdef) carries a private name (two leading underscores, not
    dunder) in one of its identifier slots.  The slots are taken from the running ast: every str-typed field called id / attr / name / arg of every
    node class (C04: such a class must keep its name, because the mangled attribute names contain it)."""
    import python_minifier.ast_compat as compat
    mod = source.import_module(RU)
    name = 'C04/util.has_private_names'
    from spec import astlib
    slots = {}
    for cname in tag_universe()['names']:
        cls = tag_universe()['cls'][cname]
        for f in getattr(cls, '_fields', ()):
            if f in ('id', 'attr', 'name', 'arg') and astlib.field_type(cname, f)[0] in ('identifier', 'identifier?') if hasattr(astlib, 'field_type') else False:
                slots.setdefault(cname, []).append(f)
    if not slots:
        # slot typing from the class docstrings of the running ast (the same source the heap model uses)
        import re as _re
        for cname in tag_universe()['names']:
            doc = tag_universe()['cls'][cname].__doc__ or ''
            for m in _re.finditer(r'identifier\??\s+(id|attr|name|arg)\b', doc):
                slots.setdefault(cname, []).append(m.group(1))
    results = []
    fns = [source.describe(RU + ':has_private_names')]
    if not hasattr(mod, 'has_private_names'):
        res = result([], fns, [])
        res['obligations'].append({'name': name + '/engine', 'status': 'undecided', 'detail': 'function has_private_names no longer exists', 'model': {}, 'time_s': 0,
                                   'backend': 'engine', 'path': None, 'kind': 'engine', 'goal': None})
        return res

    def make_run(cname, fields):
        def run(ctx):
            policy = RenPolicy()
            interp = Interp(ctx, policy=policy)
            policy.interp = interp
            root = ctx.new_node({'ClassDef'}, name='root')
            walked = ctx.new_obj('list', name='walked')
            ld = ctx.data(walked)
            ld.items = {}
            ld.symlen = z3.Int('n_walked')
            ctx.assume(ld.symlen >= 0)
            from pyvc.interp import _keyname
            ld.elem_factory = lambda key: ctx.new_node({cname}, name='walked_%s' % _keyname(key))
            calls = []
            interp.natives[compat.walk] = lambda it, a, k: (calls.append(a[0]), walked)[1]
            r = interp.call(interp.wrap(mod.has_private_names), [root], {})
            rz = r if z3.is_expr(r) else z3.BoolVal(bool(r))
            ctx.check(name + '/walks-the-whole-class', calls == [root], kind='post')
            private = []
            for k, e in list(ctx.data(walked).items.items()):
                if not isinstance(e, Obj):
                    continue
                for f in fields:
                    v = interp.getattr(e, f)
                    if v is None:
                        continue
                    private.append(z3.And(z3.PrefixOf(z3.StringVal('__'), v), z3.Not(z3.SuffixOf(z3.StringVal('__'), v))))
            if private:
                ctx.check(name + '/a-private-name-in-an-identifier-slot-is-reported/%s' % cname, z3.Implies(z3.Or(private), rz), kind='post',
                          detail='an arbitrary node of ast.walk(classdef) of class %s with a private name in %s, result %s' % (cname, '/'.join(fields), r))
            else:
                ctx.check(name + '/cover-empty-walk', True, kind='cover')
        return run
    res = None
    for cname in sorted(slots):
        ex = Explorer(max_paths=400)
        ex.explore(make_run(cname, slots[cname]))
        r = _finish(ex, name + '/' + cname, fns if res is None else [])
        if res is None:
            res = r
        else:
            res['obligations'] += r['obligations']
            res['notes'] += r['notes']
    res['notes'].append('identifier slots from the running ast: %s' % ', '.join('%s.%s' % (c, '/'.join(fs)) for c, fs in sorted(slots.items())))
    return res
