"""Contracts for the structural transforms (C05; the rewrite-schema side conditions of C01).

One task per transformer method.  The postcondition is the sentence of the property; the frame is "everything else is the same object".
Statement lists are symbolic (any length): a result of the form [visit(s) for s in L if keep(s)] is compared with the specification by
evaluating both on one arbitrary element (Map/Filter normal form, pointwise obligations discharged by z3 over the element's class).
"""
import ast as real_ast

import z3

from pyvc import source
from pyvc.engine import (Bound, ExcVal, Explorer, Native, Obj, Opaque, Raised, SymStr, Undecided, tag_const, tag_universe, tags_of_class)
from pyvc.interp import PROCEED, Interp, Policy, SymConst, SymIter
from pyvc.runner import result
from contracts import printer as P

T = 'python_minifier.transforms.'
ST = T + 'suite_transformer'
STMT_TAGS = tags_of_class(real_ast.stmt)

ASSUMPTIONS = [
    'trees come from ast.parse: statement lists are lists of stmt nodes, distinct positions are distinct objects',
    'recursive self.visit(child) is a contract call: it returns the transformed child (any node, a list to splice, or None) and touches '
    'only the subtree of the child',
    'get_parent(node) returns the syntactic parent set by add_parent (typestate `parented`, established in minify before any transform)',
    'ast.walk / ast.iter_child_nodes / ast.iter_fields enumerate exactly the nodes / children / fields of the tree (external)',
    '"equals what -O would run" and "compile to bisimilar code" are replaced by tree-level contracts (see DESIGN C05, not decided)',
]


class TransformPolicy(P.PrinterPolicy):
    def __init__(self):
        P.PrinterPolicy.__init__(self)
        self.events = []
        self.parents = {}
        self.child_of = {}

    def attr(self, interp, obj, name):
        if isinstance(obj, Obj):
            d = interp.ctx.data(obj)
            if d.kind == 'node' and name == 'namespace':
                return Opaque('namespace_of', (d.name,), sort='node')
            # a node obtained through get_parent(child) holds that child in one of its fields
            child = self.child_of.get(obj.id)
            if child is not None and d.kind == 'node' and name not in d.fields and name in ('exc', 'cause', 'value', 'func', 'test', 'body'):
                from pyvc.interp import field_type
                if any(field_type(t, name) is not None and field_type(t, name)[1] != '*' for t in d.tags):
                    if interp.ctx.branch(z3.Bool('%s_is_%s_of_%s' % (interp.ctx.data(child).name, name, d.name))):
                        return child
        return P.PrinterPolicy.attr(self, interp, obj, name)

    def loop_scheme(self, interp, loop_id, s):
        return 'generic'

    def recursion_limit(self, interp, spec):
        return 1

    def str_method(self, interp, recv, nm, args, kwargs):
        # dotted.name.split('.') : only element 0 (the root module) is used
        if nm == 'split' and z3.is_expr(recv) and args == ['.']:
            ctx = interp.ctx
            root = z3.String('root_module_of_' + recv.decl().name())
            dotted = z3.Contains(recv, z3.StringVal('.'))
            ctx.assume(z3.Implies(z3.Not(dotted), root == recv))
            ctx.assume(z3.Implies(dotted, z3.PrefixOf(z3.Concat(root, z3.StringVal('.')), recv)))
            ctx.assume(z3.Not(z3.Contains(root, z3.StringVal('.'))))
            return [root]
        return P.PrinterPolicy.str_method(self, interp, recv, nm, args, kwargs)

    def on_write(self, interp, obj, name, value):
        if not hasattr(self, 'writes'):
            self.writes = []
        self.writes.append((obj, name))

    keep_fields = ()

    def havoc(self, interp, v, base, loop_id, obj, field):
        if field in self.keep_fields:
            return v       # justified by an obligation of the task (the write is immediately followed by a return)
        return PROCEED

    def child_classes(self, interp, parent, field, index, classes):
        return P.PrinterPolicy.child_classes(self, interp, parent, field, index, classes)


def install_common(interp, policy, ctx, transformer_cls, root=None):
    policy.interp = interp
    policy.root = root

    def visit_hook(it, f, args, kwargs):
        node = args[1]
        if node is None:
            raise Raised(ExcVal(AttributeError, ('NoneType', '__class__')))
        if isinstance(node, Obj) and node == policy.root:
            return PROCEED
        policy.events.append(('visit', node))
        return Opaque('visited', (ctx.data(node).name if isinstance(node, Obj) else repr(node),), sort='node')
    for k in transformer_cls.__mro__:
        if k.__module__.startswith('python_minifier') and 'visit' in k.__dict__:
            interp.hooks['%s:%s.visit' % (k.__module__, k.__name__)] = visit_hook

    def add_child_hook(it, f, args, kwargs):
        a = list(args[1:])
        child = a[0]
        parent = a[1] if len(a) > 1 else kwargs.get('parent')
        ns = a[2] if len(a) > 2 else kwargs.get('namespace')
        policy.events.append(('add_child', child, parent, ns))
        return child
    interp.hooks[ST + ':SuiteTransformer.add_child'] = add_child_hook

    def get_parent_hook(it, f, args, kwargs):
        node = args[0]
        key = node.id if isinstance(node, Obj) else repr(node)
        if key not in policy.parents:
            nm = ctx.data(node).name if isinstance(node, Obj) else 'x'
            policy.parents[key] = ctx.new_node(set(tag_universe()['names']), name='parent_of_' + nm)
            if isinstance(node, Obj):
                policy.child_of[policy.parents[key].id] = node
        return policy.parents[key]
    interp.hooks['python_minifier.ast_annotation:get_parent'] = get_parent_hook


def is_zero_expr(ctx, v):
    """[Expr(value=Constant(0))]"""
    if not (isinstance(v, Obj) and ctx.data(v).kind == 'list' and ctx.data(v).symlen is None and len(ctx.data(v).items) == 1):
        return False
    e = ctx.data(v).items[0]
    if not (isinstance(e, Obj) and ctx.data(e).tags == {'Expr'}):
        return False
    c = ctx.data(e).fields.get('value')
    return isinstance(c, Obj) and ctx.data(c).tags == {'Constant'} and ctx.data(c).fields.get('value') == 0 and \
        type(ctx.data(c).fields.get('value')) is int


def finish(ex, name, fns, pruned=()):
    res = result([_j(o) for o in ex.obligations], fns, ASSUMPTIONS, pruned=sorted(pruned))
    if ex.undecided_reason:
        res['obligations'].append({'name': name + '/engine', 'status': 'undecided', 'detail': ex.undecided_reason, 'model': {}, 'time_s': 0,
                                   'backend': 'engine', 'path': None, 'kind': 'engine', 'goal': None})
    ok = len([p for p in ex.paths if p[0] == 'ok'])
    res['notes'].append('%s: %d feasible paths' % (name, ok))
    if ok == 0 and not ex.undecided_reason:
        res['obligations'].append({'name': name + '/cover', 'status': 'undecided', 'detail': 'vacuous', 'model': {}, 'time_s': 0,
                                   'backend': 'engine', 'path': None, 'kind': 'cover', 'goal': None})
    return res


def _j(o):
    j = o.to_json()
    if getattr(o, 'replay', None):
        j['replay'] = o.replay
    return j


# ---------------------------------------------------------------------------------------------------------------------
# suite() of the four "drop statements" transformers

def spec_removed(kind, interp, ctx, e):
    """z3 Bool: the documented condition under which statement `e` is dropped by transformer `kind`."""
    d = ctx.data(e)
    if kind == 'RemovePass':
        return d.tagvar == tag_const('Pass')
    if kind == 'RemoveAsserts':
        return d.tagvar == tag_const('Assert')
    if kind == 'RemoveLiteralStatements':
        if 'Expr' not in d.tags:
            return z3.BoolVal(False)
        v = d.fields.get('value')
        if not isinstance(v, Obj):
            return z3.BoolVal(False) if d.tagvar is None else z3.And(d.tagvar == tag_const('Expr'), z3.Bool('value_is_literal_unknown'))
        vd = ctx.data(v)
        c = vd.fields.get('value')
        lit = z3.BoolVal(False)
        if isinstance(c, SymConst):
            lit = z3.And(vd.tagvar == tag_const('Constant'), z3.Or([c.kind == k for k in (0, 1, 2, 3, 4, 5, 6, 7)]))
        return z3.And(d.tagvar == tag_const('Expr'), lit)
    raise KeyError(kind)


def task_suite_filter(kind, module):
    P.install_symconst_type_support()
    mod = source.import_module(T + module)
    cls = getattr(mod, kind)
    name = 'C05/%s.suite' % kind
    pruned = set()

    def run(ctx):
        policy = TransformPolicy()
        interp = Interp(ctx, policy=policy)
        install_common(interp, policy, ctx, cls)
        o = interp.instantiate(cls, [], {})
        lst = ctx.new_obj('list', name='stmts')
        ld = ctx.data(lst)
        ld.items = {}
        ld.symlen = z3.Int('n_stmts')
        ctx.assume(ld.symlen >= 1)
        from pyvc.interp import _keyname
        ld.elem_factory = lambda key: ctx.new_node(STMT_TAGS, name='stmt_%s' % _keyname(key))
        parent = ctx.new_node(set(tag_universe()['names']), name='parent')
        if kind == 'RemoveDebug':
            crs = []

            def can_remove_hook(it, f, args, kwargs):
                b = z3.Bool('can_remove_%s' % ctx.data(args[1]).name)
                crs.append((args[1], b))
                return b
            interp.hooks[T + 'remove_debug:RemoveDebug.can_remove'] = can_remove_hook
        guard_calls = []

        def guard_hook(it, f, args, kwargs):
            guard_calls.append(list(args[1:]))
            return args[2]
        interp.hooks[ST + ':SuiteTransformer.without_new_docstring'] = guard_hook
        r = interp.call(interp.getattr(o, 'suite'), [lst, parent], {})
        pruned.update(interp.pruned)
        pd = ctx.data(parent)
        if isinstance(r, SymIter) and kind != 'RemoveLiteralStatements':
            # C01/C05: dropping the statements in front of a string statement must not turn it into the docstring; the filtered list goes through
            # SuiteTransformer.without_new_docstring (contract: task_docstring_guard) together with the unfiltered list and the owner of the block
            ctx.check(name + '/filtered-list-goes-through-the-docstring-guard',
                      len(guard_calls) == 1 and guard_calls[0][0] == lst and guard_calls[0][1] is r and guard_calls[0][2] == parent, kind='post',
                      detail='[needs-witness] a string statement that follows a dropped statement becomes the first statement of the body, i.e. the docstring '
                             '(calls of the guard: %d)' % len(guard_calls))
        if isinstance(r, SymIter):
            ctx.check(name + '/result-filters-the-given-list', r.src == lst, kind='post')
            e = interp.list_elem(lst, ('spec',))
            n_events = len(policy.events)
            v = r.fn(e)
            kept = v is not SymIter.SKIP
            if kind == 'RemoveDebug':
                rem = [b for (n, b) in crs if n == e]
                removed = rem[-1] if rem else z3.BoolVal(False)
                ctx.check(name + '/drops-exactly-what-can_remove-accepts', bool(rem), kind='post')
            else:
                removed = spec_removed(kind, interp, ctx, e)
            ctx.check(name + '/drops-exactly-the-documented-statements', z3.Not(removed) if kept else removed, kind='post',
                      detail='an arbitrary statement is %s' % ('kept' if kept else 'dropped'))
            if kept:
                ctx.check(name + '/kept-statements-are-visited-in-place', v == Opaque('visited', (ctx.data(e).name,), sort='node'), kind='post',
                          detail='element becomes %r' % (v,))
            k = r.kept if getattr(r, 'kept', None) is not None else None
            ctx.check(name + '/returned-list-is-non-empty', k is not None and ctx.solver.check(k == 0) == z3.unsat, kind='post',
                      detail='the filtered list is returned only when at least one statement is kept')
            return
        # everything was dropped
        ctx.check(name + '/empty-result-only-when-nothing-is-kept', any(True for c in ctx.pc if 'kept' in c.sexpr()), kind='post')
        if isinstance(r, Obj) and ctx.data(r).kind == 'list' and ctx.data(r).symlen is None and len(ctx.data(r).items) == 0:
            ctx.check(name + '/empty-suite-only-for-the-module', pd.tagvar == tag_const('Module'), kind='post',
                      detail='an empty list is returned for a parent that is not the Module')
        else:
            ctx.check(name + '/emptied-block-gets-a-zero-expression', is_zero_expr(ctx, r), kind='post', detail='returned %r' % (r,))
            ctx.check(name + '/module-body-is-left-empty', pd.tagvar != tag_const('Module'), kind='post')
            adds = [ev for ev in policy.events if ev[0] == 'add_child']
            ctx.check(name + '/zero-expression-is-attached-to-the-block-owner', len(adds) == 1 and adds[0][2] == parent, kind='post', detail=repr(adds))
    ex = Explorer()
    ex.explore(run)
    return finish(ex, name, [source.describe('%s%s:%s.suite' % (T, module, kind))], pruned)


def task_docstring_guard():
    """SuiteTransformer.without_new_docstring(original, suite, parent): the result is `suite` itself unless the owner of the block can have a docstring
    (Module, FunctionDef, AsyncFunctionDef, ClassDef), the first remaining statement is a string statement and the first original statement was not:
    then a `0` expression statement attached to the owner is put in front.  In every case the first statement of the result is a string statement
    only if the first statement of the original block was one (no docstring is created)."""
    P.install_symconst_type_support()
    mod = source.import_module(ST)
    name = 'C05/SuiteTransformer.without_new_docstring'
    pruned = set()

    def run(ctx):
        policy = TransformPolicy()
        interp = Interp(ctx, policy=policy)
        install_common(interp, policy, ctx, mod.SuiteTransformer)
        o = interp.instantiate(mod.SuiteTransformer, [], {})
        from pyvc.interp import _keyname

        def symlist(nm):
            lst = ctx.new_obj('list', name=nm)
            ld = ctx.data(lst)
            ld.items = {}
            ld.symlen = z3.Int('n_' + nm)
            ctx.assume(ld.symlen >= 1)
            ld.elem_factory = lambda key: ctx.new_node(STMT_TAGS, name='%s_%s' % (nm, _keyname(key)))
            return lst
        original, suite = symlist('original'), symlist('suite')
        parent = ctx.new_node(set(tag_universe()['names']), name='parent')

        def is_string_statement(st):
            """z3 Bool over the materialised fields (Expr whose value is a str Constant)"""
            d = ctx.data(st)
            if 'Expr' not in d.tags:
                return z3.BoolVal(False)
            v = d.fields.get('value')
            if not isinstance(v, Obj):
                # the code never looked at it: it decided on the class of the statement alone
                return z3.And(d.tagvar == tag_const('Expr'), z3.Bool('unread_value_is_string_%s' % d.name)) if d.tagvar is not None else z3.Bool('unread_value_is_string_%s' % d.name)
            vd = ctx.data(v)
            c = vd.fields.get('value')
            isstr = z3.BoolVal(False)
            if isinstance(c, SymConst):
                isstr = z3.And(vd.tagvar == tag_const('Constant') if vd.tagvar is not None else z3.BoolVal('Constant' in vd.tags), c.kind == 6)
            return z3.And(d.tagvar == tag_const('Expr') if d.tagvar is not None else z3.BoolVal(True), isstr)
        r = interp.call(interp.getattr(o, 'without_new_docstring'), [original, suite, parent], {})
        pruned.update(interp.pruned)
        pd = ctx.data(parent)
        s0 = interp.list_elem(suite, 0)
        o0 = interp.list_elem(original, 0)
        owner = z3.Or([pd.tagvar == tag_const(t) for t in ('Module', 'FunctionDef', 'AsyncFunctionDef', 'ClassDef')])
        would_create = z3.And(owner, is_string_statement(s0), z3.Not(is_string_statement(o0)))
        if r == suite:
            ctx.check(name + '/unchanged-only-when-no-docstring-is-created', z3.Not(would_create), kind='post',
                      detail='the remaining statements are returned as they are although the first one is a string statement that was not first before')
            return
        cat = ctx.data(r).extra.get('concat') if isinstance(r, Obj) and ctx.data(r).kind == 'list' else None
        ok_shape = cat is not None and cat[1] == suite and is_zero_expr(ctx, cat[0])
        ctx.check(name + '/result-is-a-zero-expression-followed-by-the-remaining-statements', ok_shape, kind='post', detail='returned %r' % (r,))
        ctx.check(name + '/placeholder-only-where-a-docstring-would-be-created', would_create, kind='post',
                  detail='a `0` statement is added although no string statement would become the docstring (an option performs only its documented rewrite)')
        adds = [ev for ev in policy.events if ev[0] == 'add_child']
        ctx.check(name + '/placeholder-is-attached-to-the-block-owner', len(adds) == 1 and adds[0][2] == parent, kind='post', detail=repr(adds))
    ex = Explorer()
    ex.explore(run)
    return finish(ex, name, [source.describe(ST + ':SuiteTransformer.without_new_docstring')], pruned)


# ---------------------------------------------------------------------------------------------------------------------
# RemoveDebug.can_remove

def task_can_remove():
    P.install_symconst_type_support()
    mod = source.import_module(T + 'remove_debug')
    name = 'C05/RemoveDebug.can_remove'
    pruned = set()

    def run(ctx):
        policy = TransformPolicy()
        interp = Interp(ctx, policy=policy)
        install_common(interp, policy, ctx, mod.RemoveDebug)
        o = interp.instantiate(mod.RemoveDebug, [], {})
        node = ctx.new_node(STMT_TAGS, name='stmt')
        r = interp.call(interp.getattr(o, 'can_remove'), [node], {})
        pruned.update(interp.pruned)
        if r is False:
            ctx.check(name + '/cover-false', True, kind='cover')
            return
        rz = r if z3.is_expr(r) else z3.BoolVal(bool(r))
        d = ctx.data(node)
        # specification: an If without else whose test is __debug__, __debug__ is True, __debug__ is not False or __debug__ == True
        ctx.check(name + '/only-if-statements', z3.Implies(rz, d.tagvar == tag_const('If')), kind='post')
        orelse = d.fields.get('orelse')
        no_else = z3.BoolVal(False)
        if isinstance(orelse, Obj):
            od = ctx.data(orelse)
            no_else = (od.symlen == 0) if od.symlen is not None else z3.BoolVal(len(od.items) == 0)
        ctx.check(name + '/never-with-an-else-branch', z3.Implies(rz, no_else), kind='post',
                  detail='python -O would run the else branch, so the statement cannot simply be dropped')
        test = d.fields.get('test')
        ok = z3.BoolVal(False)
        if isinstance(test, Obj):
            td = ctx.data(test)

            def is_debug_name(n):
                if not isinstance(n, Obj):
                    return z3.BoolVal(False)
                nd = ctx.data(n)
                i = nd.fields.get('id')
                if 'Name' not in nd.tags or i is None:
                    return z3.BoolVal(False)
                return z3.And(nd.tagvar == tag_const('Name'), i == z3.StringVal('__debug__'))
            plain = is_debug_name(test)
            cmp_ok = z3.BoolVal(False)
            if 'Compare' in td.tags and isinstance(td.fields.get('ops'), Obj) and isinstance(td.fields.get('comparators'), Obj):
                ops, comps = td.fields['ops'], td.fields['comparators']
                opd, cd = ctx.data(ops), ctx.data(comps)
                one = opd.symlen == 1
                op0 = opd.items.get(0)
                c0 = cd.items.get(0)
                if isinstance(op0, Obj) and isinstance(c0, Obj):
                    o0 = ctx.data(op0).tagvar
                    cv = ctx.data(c0).fields.get('value')
                    if isinstance(cv, SymConst):
                        is_true = z3.And(ctx.data(c0).tagvar == tag_const('Constant'), cv.kind == 1)
                        is_false = z3.And(ctx.data(c0).tagvar == tag_const('Constant'), cv.kind == 2)
                        shape = z3.Or(z3.And(o0 == tag_const('Is'), is_true), z3.And(o0 == tag_const('IsNot'), is_false),
                                      z3.And(o0 == tag_const('Eq'), is_true))
                        cmp_ok = z3.And(td.tagvar == tag_const('Compare'), one, is_debug_name(td.fields.get('left')), shape)
            ok = z3.Or(plain, cmp_ok)
        ctx.check(name + '/only-tests-of-__debug__-itself', z3.Implies(rz, ok), kind='post',
                  detail='the test must be __debug__, __debug__ is True, __debug__ is not False or __debug__ == True')
    ex = Explorer()
    ex.explore(run)
    return finish(ex, name, [source.describe(T + 'remove_debug:RemoveDebug.can_remove'), source.describe(T + 'remove_debug:RemoveDebug.constant_value')],
                  pruned)


# ---------------------------------------------------------------------------------------------------------------------
# RemoveObject.visit_ClassDef, remove_posargs, RemoveExplicitReturnNone.visit_Return

def task_remove_object():
    mod = source.import_module(T + 'remove_object_base')
    name = 'C05/RemoveObject.visit_ClassDef'
    pruned = set()

    def run(ctx):
        policy = TransformPolicy()
        interp = Interp(ctx, policy=policy)
        root = ctx.new_node({'ClassDef'}, name='root')
        install_common(interp, policy, ctx, mod.RemoveObject, root)
        o = interp.instantiate(mod.RemoveObject, [], {})
        builtin = z3.Bool('object_is_the_builtin_in_this_module')
        ctx.data(o).fields['object_is_builtin'] = builtin
        rd = ctx.data(root)
        before = dict((f, interp.getattr(root, f)) for f in ('name', 'bases', 'keywords', 'body', 'decorator_list', 'type_params'))
        r = interp.call(interp.getattr(o, 'visit_ClassDef'), [root], {})
        pruned.update(interp.pruned)
        ctx.check(name + '/returns-the-class', r == root, kind='post')
        nb = rd.fields['bases']
        if nb is before['bases'] or nb == before['bases']:
            # nothing removed: only allowed to be forced when the name object may be rebound (C01: class C(object) == class C only for the builtin)
            ctx.check(name + '/bases-untouched-only-when-object-may-be-rebound', z3.Not(builtin), kind='post')
        else:
            ctx.check(name + '/bases-filtered-only-when-object-is-the-builtin', builtin, kind='post',
                      detail='class C(object) is class C only if object is the builtin (C01 adequacy side condition)')
            ctx.check(name + '/bases-is-a-filter-of-the-original-bases', isinstance(nb, SymIter) and nb.src == before['bases'], kind='post', detail=repr(nb))
        if isinstance(nb, SymIter):
            e = interp.list_elem(before['bases'], ('spec',))
            v = nb.fn(e)
            kept = v is not SymIter.SKIP
            ed = ctx.data(e)
            i = ed.fields.get('id')
            is_object = z3.And(ed.tagvar == tag_const('Name'), i == z3.StringVal('object')) if i is not None else z3.BoolVal(False)
            ctx.check(name + '/drops-exactly-the-name-object', z3.Not(is_object) if kept else is_object, kind='post')
            if kept:
                ctx.check(name + '/kept-bases-are-the-same-objects', v == e, kind='post')
        for f in ('name', 'keywords', 'decorator_list'):
            ctx.check(name + '/leaves-%s-alone' % f, rd.fields.get(f) is before[f] or rd.fields.get(f) == before[f], kind='frame')
        body = rd.fields['body']
        okb = isinstance(body, Obj) and ctx.data(body).extra.get('map_of') == before['body'] and \
            ctx.data(body).elem_factory(('probe',)) == Opaque('visited', (ctx.data(interp.list_elem(before['body'], ('probe',))).name,), sort='node')
        ctx.check(name + '/body-statements-are-visited-in-order', okb, kind='post', detail=repr(body))
    ex = Explorer()
    ex.explore(run)
    res = finish(ex, name, [source.describe(T + 'remove_object_base:RemoveObject.visit_ClassDef')], pruned)

    # __call__: the flag is the negation of rebinds_object(module); rebinds_object: True as soon as ANY node of the module binds the name object
    import python_minifier.ast_compat as compat

    def run_call(ctx):
        policy = TransformPolicy()
        interp = Interp(ctx, policy=policy)
        root = ctx.new_node({'Module'}, name='root')
        install_common(interp, policy, ctx, mod.RemoveObject, root)
        rb = z3.Bool('some_node_rebinds_object')
        asked = []
        interp.hooks[T + 'remove_object_base:rebinds_object'] = lambda it, f, a, k: (asked.append(a[0]), rb)[1]
        visited = []
        for k in mod.RemoveObject.__mro__:
            if k.__module__.startswith('python_minifier') and 'visit' in k.__dict__:
                interp.hooks['%s:%s.visit' % (k.__module__, k.__name__)] = lambda it, f, a, kw: (visited.append(a[1]), a[1])[1]
        o = interp.instantiate(mod.RemoveObject, [], {})
        interp.call(interp.getattr(o, '__call__'), [root], {})
        flag = ctx.data(o).fields.get('object_is_builtin')
        fz = flag if z3.is_expr(flag) else z3.BoolVal(bool(flag))
        ctx.check('C05/RemoveObject.__call__/object-counts-as-builtin-exactly-when-nothing-in-the-module-rebinds-it', z3.And(z3.BoolVal(asked == [root]), fz == z3.Not(rb)),
                  kind='post', detail='rebinds_object asked for %r' % (asked,))
        ctx.check('C05/RemoveObject.__call__/the-module-is-visited', visited == [root], kind='post')
    ex2 = Explorer()
    ex2.explore(run_call)
    r2 = finish(ex2, 'C05/RemoveObject.__call__', [source.describe(T + 'remove_object_base:RemoveObject.__call__')], set())

    def run_rebinds(ctx):
        policy = TransformPolicy()
        interp = Interp(ctx, policy=policy)
        policy.interp = interp
        root = ctx.new_node({'Module'}, name='root')
        walked = sym_node_list(ctx, 'walked', set(tag_universe()['names']))
        calls = []
        interp.natives[compat.walk] = lambda it, a, k: (calls.append(a[0]), walked)[1]
        f = getattr(mod, 'rebinds_object')
        r = interp.call(interp.wrap(f), [root], {})
        rz = r if z3.is_expr(r) else z3.BoolVal(bool(r))
        ctx.check('C05/rebinds_object/walks-the-whole-module', calls == [root], kind='post')
        OBJ = z3.StringVal('object')
        binds = []
        for k, e in list(ctx.data(walked).items.items()):
            if not isinstance(e, Obj):
                continue
            ed = ctx.data(e)

            def fld(n):
                return interp.getattr(e, n)
            for tags, cond in (
                    ({'Name'}, lambda: z3.And(fld('id') == OBJ, ctx.data(fld('ctx')).tagvar != tag_const('Load'))),
                    ({'FunctionDef', 'AsyncFunctionDef', 'ClassDef'}, lambda: fld('name') == OBJ),
                    ({'arg'}, lambda: fld('arg') == OBJ),
                    ({'ExceptHandler'}, lambda: (fld('name') == OBJ) if fld('name') is not None else z3.BoolVal(False)),
                    ({'MatchAs', 'MatchStar'}, lambda: (fld('name') == OBJ) if fld('name') is not None else z3.BoolVal(False)),
                    ({'MatchMapping'}, lambda: (fld('rest') == OBJ) if fld('rest') is not None else z3.BoolVal(False)),
                    ({'alias'}, lambda: z3.Or(fld('name') == z3.StringVal('*'), fld('name') == OBJ, z3.PrefixOf(z3.StringVal('object.'), fld('name')),
                                              (fld('asname') == OBJ) if fld('asname') is not None else z3.BoolVal(False))),
                    ({'TypeVar', 'TypeVarTuple', 'ParamSpec'}, lambda: fld('name') == OBJ),
                    ({'Global', 'Nonlocal'}, lambda: z3.Bool('contains_%s_object' % ctx.data(fld('names')).name))):
                if ed.tags & tags and ctx.branch(z3.Or([ed.tagvar == tag_const(t) for t in sorted(ed.tags & tags)])):
                    interp.narrow(e, ed.tags & tags)
                    if cond is not None:
                        binds.append(cond())
                    break
        if binds:
            ctx.check('C05/rebinds_object/a-node-that-binds-the-name-object-is-reported', z3.Implies(z3.Or(binds), rz), kind='post',
                      detail='arbitrary node of ast.walk(module): store/del of object, def/class object, parameter, except/match capture, import (also star import), global/nonlocal declaration')
        else:
            ctx.check('C05/rebinds_object/cover-other-node-classes', True, kind='cover')
    if not hasattr(mod, 'rebinds_object'):
        res['obligations'].append({'name': 'C05/rebinds_object/engine', 'status': 'undecided', 'detail': 'function rebinds_object no longer exists', 'model': {}, 'time_s': 0,
                                   'backend': 'engine', 'path': None, 'kind': 'engine', 'goal': None})
        res['obligations'] += r2['obligations']
        return res
    ex3 = Explorer(max_paths=3000)
    ex3.explore(run_rebinds)
    r3 = finish(ex3, 'C05/rebinds_object', [source.describe(T + 'remove_object_base:rebinds_object')], set())
    for rr in (r2, r3):
        res['obligations'] += rr['obligations']
        res['functions'] += rr['functions']
        res['notes'] += rr['notes']
    return res


def task_posargs():
    mod = source.import_module(T + 'remove_posargs')
    name = 'C05/remove_posargs'
    pruned = set()

    def run(ctx):
        policy = TransformPolicy()
        interp = Interp(ctx, policy=policy)
        policy.interp = interp
        node = ctx.new_node(set(tag_universe()['names']), name='node')
        calls = []
        f = interp.wrap(mod.remove_posargs)

        def rec_hook(it, ff, args, kwargs):
            if args[0] == node:
                return PROCEED
            calls.append(args[0])
            return args[0]
        interp.hooks[T + 'remove_posargs:remove_posargs'] = rec_hook
        import ast as ra

        def iter_children(it, args, kwargs):
            lst = ctx.new_obj('list', name='children')
            ld = ctx.data(lst)
            ld.items = {}
            ld.symlen = z3.Int('n_children')
            ctx.assume(ld.symlen >= 0)
            from pyvc.interp import _keyname
            ld.elem_factory = lambda key: ctx.new_node(set(tag_universe()['names']), name='child_%s' % _keyname(key))
            return lst
        import python_minifier.ast_compat as compat
        interp.natives[compat.iter_child_nodes] = iter_children
        d = ctx.data(node)
        is_args = interp.isinstance(node, Native(ra.arguments))
        before = None
        snap = {}
        if is_args:
            for fld in ('posonlyargs', 'args', 'vararg', 'kwonlyargs', 'kw_defaults', 'kwarg', 'defaults'):
                snap[fld] = interp.getattr(node, fld)
            before = (snap['posonlyargs'], snap['args'])
        r = interp.call(f, [node], {})
        pruned.update(interp.pruned)
        ctx.check(name + '/returns-its-argument', r == node, kind='post')
        same = lambda fld: d.fields.get(fld) is snap[fld] or d.fields.get(fld) == snap[fld]
        if is_args:
            na, npo = d.fields['args'], d.fields['posonlyargs']
            if snap['kwarg'] is None:
                cat = isinstance(na, Obj) and ctx.data(na).extra.get('concat') == before
                ctx.check(name + '/args-become-posonlyargs-followed-by-args', bool(cat), kind='post', detail='args=%r' % (ctx.data(na).extra if isinstance(na, Obj) else na,))
                ctx.check(name + '/posonlyargs-emptied', isinstance(npo, Obj) and ctx.data(npo).symlen is None and len(ctx.data(npo).items) == 0, kind='post')
            else:
                # C01: with a **kwargs parameter a positional-only name can also be passed as a keyword, the marker carries behaviour
                ctx.check(name + '/marker-kept-when-kwargs-can-capture-the-name', same('args') and same('posonlyargs'), kind='post',
                          detail='def f(a, /, **kw) accepts f(1, a=2); def f(a, **kw) does not')
            for fld in ('vararg', 'kwonlyargs', 'kw_defaults', 'kwarg', 'defaults'):
                ctx.check(name + '/leaves-%s-alone' % fld, same(fld), kind='frame')
        else:
            written = [nm for o, nm in getattr(policy, 'writes', []) if o == node]
            ctx.check(name + '/other-nodes-are-not-written', not written, kind='frame', detail=repr(written))
    ex = Explorer()
    ex.explore(run)
    return finish(ex, name, [source.describe(T + 'remove_posargs:remove_posargs')], pruned)


def task_return_none():
    P.install_symconst_type_support()
    mod = source.import_module(T + 'remove_explicit_return_none')
    name = 'C05/RemoveExplicitReturnNone.visit_Return'
    pruned = set()

    def run(ctx):
        policy = TransformPolicy()
        interp = Interp(ctx, policy=policy)
        root = ctx.new_node({'Return'}, name='root')
        install_common(interp, policy, ctx, mod.RemoveExplicitReturnNone, root)
        o = interp.instantiate(mod.RemoveExplicitReturnNone, [], {})
        before = interp.getattr(root, 'value')
        r = interp.call(interp.getattr(o, 'visit_Return'), [root], {})
        pruned.update(interp.pruned)
        ctx.check(name + '/returns-the-statement', r == root, kind='post')
        after = ctx.data(root).fields['value']
        if before is None:
            ctx.check(name + '/bare-return-unchanged', after is None, kind='post')
            return
        bd = ctx.data(before)
        c = bd.fields.get('value')
        is_none = z3.And(bd.tagvar == tag_const('Constant'), c.kind == 0) if isinstance(c, SymConst) else z3.BoolVal(False)
        if after is None:
            ctx.check(name + '/only-the-constant-None-is-dropped', is_none, kind='post')
        else:
            ctx.check(name + '/other-values-are-kept', after == before, kind='post')
            ctx.check(name + '/return-None-becomes-bare-return', z3.Not(is_none), kind='post')
    ex = Explorer()
    ex.explore(run)
    return finish(ex, name, [source.describe(T + 'remove_explicit_return_none:RemoveExplicitReturnNone.visit_Return')], pruned)


# ---------------------------------------------------------------------------------------------------------------------
# RemoveLiteralStatements: module docstring is kept when __doc__ is used

def sym_node_list(ctx, name, classes):
    lst = ctx.new_obj('list', name=name)
    ld = ctx.data(lst)
    ld.items = {}
    ld.symlen = z3.Int('n_' + name)
    ctx.assume(ld.symlen >= 0)
    from pyvc.interp import _keyname
    ld.elem_factory = lambda key: ctx.new_node(classes, name='%s_%s' % (name, _keyname(key)))
    return lst


def task_rls_module():
    P.install_symconst_type_support()
    mod = source.import_module(T + 'remove_literal_statements')
    import python_minifier.ast_compat as compat
    name = 'C05/RemoveLiteralStatements'
    pruned = set()

    def run(ctx):
        policy = TransformPolicy()
        policy.keep_fields = ('body',)
        interp = Interp(ctx, policy=policy)
        root = ctx.new_node({'Module'}, name='root')
        install_common(interp, policy, ctx, mod.RemoveLiteralStatements, root)
        o = interp.instantiate(mod.RemoveLiteralStatements, [], {})
        rd = ctx.data(root)
        body0 = interp.getattr(root, 'body')
        # loop-head state keeps node.body: every assignment to node.body inside a loop of visit_Module is directly followed by `return`
        import ast as pyast
        fi, fnode = source.find_def(T + 'remove_literal_statements:RemoveLiteralStatements.visit_Module')
        ok_ret = True
        for loop in [n for n in pyast.walk(fnode) if isinstance(n, pyast.For)]:
            for blk in [n for n in pyast.walk(loop) if isinstance(n, (pyast.If, pyast.For))]:
                for stmts in (blk.body, blk.orelse):
                    for i, st in enumerate(stmts):
                        if isinstance(st, pyast.Assign) and any(isinstance(t, pyast.Attribute) and t.attr == 'body' for t in st.targets):
                            if not (i + 1 < len(stmts) and isinstance(stmts[i + 1], pyast.Return)):
                                ok_ret = False
        ctx.check(name + '.visit_Module/body-is-only-written-on-the-way-out-of-a-loop', ok_ret, kind='inv.step')
        walked = sym_node_list(ctx, 'walked', set(tag_universe()['names']))
        walk_calls = []

        def walk_native(it, a, k):
            walk_calls.append(a[0])
            return walked
        interp.natives[compat.walk] = walk_native
        bindings = ctx.new_obj('list', name='bindings')
        bd = ctx.data(bindings)
        bd.items = {}
        bd.symlen = z3.Int('n_bindings')
        ctx.assume(bd.symlen >= 0)

        def mk_binding(key):
            from pyvc.interp import _keyname
            b = ctx.new_obj('ns', name='binding_%s' % _keyname(key))
            ctx.data(b).fields['name'] = z3.String('binding_name_%s' % _keyname(key))
            return b
        bd.elem_factory = mk_binding
        rd.fields['bindings'] = bindings
        suites = []

        def suite_hook(it, f, args, kwargs):
            suites.append((args[1], args[2] if len(args) > 2 else kwargs.get('parent')))
            return Opaque('suite_result', sort='list')
        interp.hooks[T + 'remove_literal_statements:RemoveLiteralStatements.suite'] = suite_hook
        r = interp.call(interp.getattr(o, 'visit_Module'), [root], {})
        pruned.update(interp.pruned)
        ctx.check(name + '.visit_Module/returns-the-module', r == root, kind='post')
        body1 = rd.fields['body']
        # was a use of the name __doc__ seen on this path?
        uses = []
        for k, e in list(ctx.data(walked).items.items()):
            if isinstance(e, Obj) and 'Name' in ctx.data(e).tags and ctx.branch(ctx.data(e).tagvar == tag_const('Name')):
                interp.narrow(e, {'Name'})
                uses.append(interp.getattr(e, 'id') == z3.StringVal('__doc__'))
        seen_doc = z3.Or(uses) if uses else z3.BoolVal(False)
        examined = walk_calls == [root]
        if suites:
            # universal statement over ast.walk(module): it holds for the arbitrary element of the (generic) walk loop; without such an
            # element on the path nothing was examined and the statement is not established
            ctx.check(name + '.visit_Module/literals-removed-only-when-no-use-of-__doc__-was-found', z3.Not(seen_doc) if examined else False, kind='post',
                      detail='the module body was filtered although a Name __doc__ occurs in the module' if examined else
                      '[needs-witness] the module body was filtered without examining the nodes of the module for a Name __doc__ (names are not bound yet when this '
                      'transform runs, so node.bindings is empty)')
            ctx.check(name + '.visit_Module/module-body-goes-through-suite', suites == [(body0, root)] and body1 == Opaque('suite_result', sort='list'),
                      kind='post', detail=repr(suites))
        else:
            kept = isinstance(body1, Obj) and ctx.data(body1).extra.get('map_of') == body0
            ctx.check(name + '.visit_Module/with-__doc__-in-use-every-module-level-statement-is-kept', bool(kept), kind='post', detail=repr(body1))
    ex = Explorer()
    ex.explore(run)
    res1 = finish(ex, name + '.visit_Module', [source.describe(T + 'remove_literal_statements:RemoveLiteralStatements.visit_Module')], pruned)

    # find_doc: raises exactly for an attribute access .__doc__ (at this node; children by the recursive contract)
    def run2(ctx):
        policy = TransformPolicy()
        interp = Interp(ctx, policy=policy)
        policy.interp = interp
        node = ctx.new_node(set(tag_universe()['names']), name='node')
        children = sym_node_list(ctx, 'children', set(tag_universe()['names']))
        interp.natives[compat.iter_child_nodes] = lambda it, a, k: children
        rec = []

        def rec_hook(it, f, args, kwargs):
            if args[0] == node:
                return PROCEED
            rec.append(args[0])
            if ctx.branch(z3.Bool(ctx.fresh('child_has_doc'))):
                raise Raised(ExcVal(ValueError, ('__doc__ found!',)))
            return None
        interp.hooks[T + 'remove_literal_statements:find_doc'] = rec_hook
        raised = None
        try:
            interp.call(interp.wrap(mod.find_doc), [node], {})
        except Raised as e:
            raised = e.exc
        d = ctx.data(node)
        attr = d.fields.get('attr')
        is_doc = z3.And(d.tagvar == tag_const('Attribute'), attr == z3.StringVal('__doc__')) if attr is not None and 'Attribute' in d.tags else z3.BoolVal(False)
        child_raised = any(True for c in ctx.pc if 'child_has_doc' in c.sexpr() and not z3.is_not(c))
        if raised is None:
            ctx.check(name + '.find_doc/silent-only-without-.__doc__', z3.Not(is_doc), kind='post')
            ctx.check(name + '.find_doc/visits-every-child', True, kind='post')
        else:
            ctx.check(name + '.find_doc/raises-only-for-.__doc__-here-or-below', z3.Or(is_doc, z3.BoolVal(child_raised)), kind='post', detail=repr(raised))
    ex2 = Explorer()
    ex2.explore(run2)
    res2 = finish(ex2, name + '.find_doc', [source.describe(T + 'remove_literal_statements:find_doc'),
                                            source.describe(T + 'remove_literal_statements:_doc_in_module')])

    # __call__: nothing is touched when _doc_in_module is true
    def run3(ctx):
        policy = TransformPolicy()
        interp = Interp(ctx, policy=policy)
        root = ctx.new_node({'Module'}, name='root')
        install_common(interp, policy, ctx, mod.RemoveLiteralStatements, None)
        o = interp.instantiate(mod.RemoveLiteralStatements, [], {})
        b = z3.Bool('doc_attribute_in_module')
        interp.hooks[T + 'remove_literal_statements:_doc_in_module'] = lambda it, f, a, k: b
        r = interp.call(interp.getattr(o, '__call__'), [root], {})
        visited = [e for e in policy.events if e[0] == 'visit']
        ctx.check(name + '.__call__/module-untouched-when-.__doc__-is-read', z3.Implies(b, z3.BoolVal(not visited and r == root)), kind='post')
        ctx.check(name + '.__call__/otherwise-the-module-is-visited', z3.Implies(z3.Not(b), z3.BoolVal(len(visited) == 1)), kind='post')
    ex3 = Explorer()
    ex3.explore(run3)
    res3 = finish(ex3, name + '.__call__', [source.describe(T + 'remove_literal_statements:RemoveLiteralStatements.__call__')])
    for r in (res2, res3):
        res1['obligations'] += r['obligations']
        res1['functions'] += r['functions']
        res1['notes'] += r['notes']
    return res1


# ---------------------------------------------------------------------------------------------------------------------
# RemoveExplicitReturnNone.visit_FunctionDef

def task_return_none_functiondef():
    P.install_symconst_type_support()
    mod = source.import_module(T + 'remove_explicit_return_none')
    name = 'C05/RemoveExplicitReturnNone.visit_FunctionDef'
    pruned = set()

    def run(ctx):
        policy = TransformPolicy()
        interp = Interp(ctx, policy=policy)
        root = ctx.new_node({'FunctionDef', 'AsyncFunctionDef'}, name='root')
        install_common(interp, policy, ctx, mod.RemoveExplicitReturnNone, root)
        visited = []

        def visit_hook(it, f, args, kwargs):
            # contract of visit for this transformer: returns its argument; a Return child has followed visit_Return (verified separately)
            node = args[1]
            if node == root:
                return PROCEED
            visited.append(node)
            d = ctx.data(node)
            if 'Return' in d.tags and ctx.branch(d.tagvar == tag_const('Return')):
                it.narrow(node, {'Return'})
                v = it.getattr(node, 'value')
                if v is not None:
                    vd = ctx.data(v)
                    c = it.getattr(v, 'value') if 'Constant' in vd.tags and ctx.branch(vd.tagvar == tag_const('Constant')) else None
                    if isinstance(c, SymConst) and ctx.branch(c.kind == 0):
                        d.fields['value'] = None
            return node
        for k in mod.RemoveExplicitReturnNone.__mro__:
            if k.__module__.startswith('python_minifier') and 'visit' in k.__dict__:
                interp.hooks['%s:%s.visit' % (k.__module__, k.__name__)] = visit_hook
        o = interp.instantiate(mod.RemoveExplicitReturnNone, [], {})
        rd = ctx.data(root)
        body0 = interp.getattr(root, 'body')
        n0 = ctx.data(body0).symlen
        before = dict((f, interp.getattr(root, f)) for f in ('name', 'args', 'decorator_list', 'returns'))
        rd.extra['input_root'] = True
        r = interp.call(interp.getattr(o, 'visit_FunctionDef'), [root], {})
        pruned.update(interp.pruned)
        ctx.check(name + '/returns-the-function', r == root, kind='post')
        # frame: statements nested in the function are rewritten only by their own visit (by contract); this method itself writes root.body and nothing else
        # of the input.  (A `return` at the end of a nested suite is not "the last statement in a function": leaving that suite may run an else clause.)
        stray = ctx.input_writes(allowed=[(root, 'body'), (root, 'parent'), (root, 'namespace')])
        ctx.check(name + '/writes-nothing-of-the-input-but-the-function-body', not stray, kind='frame', detail='writes to %r' % (stray[:6],))
        body1 = rd.fields['body']
        for f in before:
            ctx.check(name + '/leaves-%s-alone' % f, rd.fields.get(f) == before[f] or rd.fields.get(f) is before[f], kind='frame')
        if is_zero_expr(ctx, body1):
            # the body became empty: only possible when the (visited) body was a lone bare return, or empty
            ctx.check(name + '/zero-expression-only-for-an-emptied-body', z3.Or(n0 == 0, n0 == 1), kind='post')
            return
        bd = ctx.data(body1) if isinstance(body1, Obj) else None
        okmap = bd is not None and bd.extra.get('map_of') == body0
        ctx.check(name + '/body-is-the-visited-statements-in-order', bool(okmap), kind='post', detail=repr(body1))
        if not okmap:
            return
        popped = bd.extra.get('popped', 0)
        ctx.check(name + '/drops-at-most-one-statement', popped in (0, 1), kind='post')
        last = ctx.data(body0).items.get(('last',))
        if popped == 1:
            ld = ctx.data(last) if isinstance(last, Obj) else None
            ok = ld is not None and ld.fields.get('value', 'missing') is None
            ctx.check(name + '/only-a-trailing-bare-return-is-dropped', z3.And(ld.tagvar == tag_const('Return'), z3.BoolVal(ok)) if ld is not None else False,
                      kind='post', detail='dropped %r' % (last,))
        else:
            if isinstance(last, Obj):
                ld = ctx.data(last)
                bare = z3.And(ld.tagvar == tag_const('Return'), z3.BoolVal(ld.fields.get('value', 'missing') is None)) if 'Return' in ld.tags else z3.BoolVal(False)
                ctx.check(name + '/a-trailing-bare-return-is-always-dropped', z3.Not(bare), kind='post')
    ex = Explorer()
    ex.explore(run)
    return finish(ex, name, [source.describe(T + 'remove_explicit_return_none:RemoveExplicitReturnNone.visit_FunctionDef')], pruned)


# ---------------------------------------------------------------------------------------------------------------------
# CombineImports

class CombinePolicy(TransformPolicy):
    """Loop-head state for an arbitrary iteration, as given by the loop invariant: `alias` holds the names of the run of combinable import
    statements that immediately precede the current statement (possibly empty), everything before that run has been yielded."""

    def __init__(self):
        TransformPolicy.__init__(self)
        self.pending = None
        self.prev = None
        self.yields = []

    def havoc_list(self, interp, obj, loop_id):
        return True

    def havoc(self, interp, v, base, loop_id, obj, field):
        ctx = interp.ctx
        if base == 'loc_alias':
            lst = ctx.new_obj('list', name='pending')
            ld = ctx.data(lst)
            ld.items = {}
            ld.symlen = z3.Int('n_pending')
            ctx.assume(ld.symlen >= 0)
            from pyvc.interp import _keyname
            ld.elem_factory = lambda key: ctx.new_node({'alias'}, name='pending_%s' % _keyname(key))
            self.pending = lst
            return lst
        if base == 'loc_prev_import':
            if ctx.branch(z3.Bool('prev_import_is_none')):
                self.prev = None
                # invariant: names are pending only after a combinable statement was seen
                if self.pending is not None:
                    ctx.assume(ctx.data(self.pending).symlen == 0)
                return None
            self.prev = ctx.new_node({'ImportFrom'}, name='prev_import')
            return self.prev
        if base == 'loc_namespace':
            return Opaque('namespace_of_previous_statement', sort='node')
        return TransformPolicy.havoc(self, interp, v, base, loop_id, obj, field)

    def on_yield(self, interp, value):
        self.yields.append((value, len(interp.ctx.loop_stack)))


def task_combine_imports(which):
    mod = source.import_module(T + 'combine_imports')
    method = {'import': '_combine_import', 'from': '_combine_import_from'}[which]
    name = 'C05/CombineImports.%s' % method
    pruned = set()

    def run(ctx):
        policy = CombinePolicy()
        interp = Interp(ctx, policy=policy)
        install_common(interp, policy, ctx, mod.CombineImports)
        o = interp.instantiate(mod.CombineImports, [], {})
        stmts = sym_node_list(ctx, 'stmts', STMT_TAGS)
        parent = ctx.new_node(set(tag_universe()['names']), name='parent')
        interp.call(interp.getattr(o, method), [stmts, parent], {})
        pruned.update(interp.pruned)
        in_loop = [v for v, depth in policy.yields if depth > 0]
        after = [v for v, depth in policy.yields if depth == 0]
        st = ctx.data(stmts).items.get(('g', [k for k in ctx.data(stmts).items if isinstance(k, tuple) and k[0] == 'g'][0][1])) \
            if any(isinstance(k, tuple) and k[0] == 'g' for k in ctx.data(stmts).items) else None
        adds = [e for e in policy.events if e[0] == 'add_child']
        want_cls = 'Import' if which == 'import' else 'ImportFrom'

        def is_flush(node, names_obj):
            if not (isinstance(node, Obj) and ctx.data(node).tags == {want_cls}):
                return False
            nd = ctx.data(node)
            if nd.fields.get('names') != names_obj:
                return False
            if which == 'from':
                pv = policy.prev
                if pv is None:
                    return False
                return nd.fields.get('module') is ctx.data(pv).fields.get('module') or _same(nd.fields.get('module'), ctx.data(pv).fields.get('module')) \
                    and _same(nd.fields.get('level'), ctx.data(pv).fields.get('level'))
            return True

        def _same(a, b):
            if z3.is_expr(a) and z3.is_expr(b):
                return a.eq(b)
            return a is b or a == b
        if st is None:
            # no iteration: nothing to flush
            ctx.check(name + '/empty-input-yields-nothing', not policy.yields, kind='inv.init')
            return
        sd = ctx.data(st)
        pend = policy.pending
        pd = ctx.data(pend)
        pending_nonempty = ctx.solver.check(pd.symlen == 0) == z3.unsat
        pending_empty = ctx.solver.check(pd.symlen > 0) == z3.unsat
        # did this iteration combine the statement?
        cur_alias = None
        fr_alias = [e for e in ctx.heap.values() if e.kind == 'list' and e.extra.get('parts')]
        combined = 'parts' in pd.extra
        if combined:
            parts = pd.extra['parts']
            ok = len(parts) == 2 and parts[0][0] == 'self0' and parts[1] == ('list', sd.fields.get('names'))
            ctx.check(name + '/combined-names-are-appended-in-source-order', bool(ok), kind='inv.step', detail=repr(parts))
            ctx.check(name + '/combining-yields-nothing', not in_loop, kind='inv.step', detail=repr(in_loop))
            ctx.check(name + '/only-%s-statements-are-combined' % want_cls, sd.tagvar == tag_const(want_cls), kind='inv.step')
            if which == 'from':
                names = sd.fields['names']
                nd0 = ctx.data(names)
                first = nd0.items.get(0)
                star = z3.And(nd0.symlen == 1, ctx.data(first).fields['name'] == z3.StringVal('*')) if isinstance(first, Obj) and 'name' in ctx.data(first).fields \
                    else z3.BoolVal(False)
                ctx.check(name + '/star-imports-are-never-combined', z3.Not(star), kind='inv.step')
                if policy.prev is not None:
                    pv = ctx.data(policy.prev)
                    same = z3.BoolVal(True)
                    for fld in ('module', 'level'):
                        a, b = sd.fields.get(fld, 'missing'), pv.fields.get(fld, 'missing')
                        if a is None or b is None:
                            same = z3.And(same, z3.BoolVal(a is None and b is None))
                        elif z3.is_expr(a) and z3.is_expr(b):
                            same = z3.And(same, a == b)
                        else:
                            same = z3.And(same, z3.BoolVal(False))
                    ctx.check(name + '/combined-only-with-the-same-module-and-level', z3.Or(pd.symlen - ctx.data(names).symlen == 0, same) if False else
                              z3.Or(z3.Int('n_pending') == 0, same), kind='inv.step',
                              detail='names already pending come from prev_import: the new statement must import from the same module and level')
            # end of input right after this statement: the run is flushed once
            ctx.check(name + '/pending-run-is-flushed-at-the-end', len(after) == 1 and is_flush(after[0], pend) if which == 'import' else len(after) == 1,
                      kind='post', detail=repr(after))
        else:
            # the statement is not combined: the pending run (if any) is flushed first, then the statement itself, unchanged
            if pending_empty:
                ctx.check(name + '/other-statements-pass-through-unchanged', in_loop == [st], kind='inv.step', detail=repr(in_loop))
            elif pending_nonempty:
                ok = len(in_loop) == 2 and is_flush(in_loop[0], pend) and in_loop[1] == st
                ctx.check(name + '/pending-run-is-flushed-before-the-next-statement', bool(ok), kind='inv.step', detail=repr(in_loop))
                ctx.check(name + '/flushed-import-is-attached-to-the-suite-owner', len(adds) >= 1 and adds[0][2] == parent, kind='inv.step', detail=repr(adds))
            ctx.check(name + '/nothing-left-pending-after-a-flush', not after, kind='post', detail=repr(after))
    ex = Explorer()
    ex.explore(run)
    return finish(ex, name, [source.describe(T + 'combine_imports:CombineImports.%s' % method)], pruned)


def task_combine_suite():
    mod = source.import_module(T + 'combine_imports')
    name = 'C05/CombineImports.suite'

    def run(ctx):
        policy = TransformPolicy()
        interp = Interp(ctx, policy=policy)
        install_common(interp, policy, ctx, mod.CombineImports)
        o = interp.instantiate(mod.CombineImports, [], {})
        stmts = sym_node_list(ctx, 'stmts', STMT_TAGS)
        parent = ctx.new_node(set(tag_universe()['names']), name='parent')
        a = sym_node_list(ctx, 'after_import', STMT_TAGS)
        b = sym_node_list(ctx, 'after_from', STMT_TAGS)
        calls = []
        interp.hooks[T + 'combine_imports:CombineImports._combine_import'] = lambda it, f, ar, k: (calls.append(('import', ar[1], ar[2])), a)[1]
        interp.hooks[T + 'combine_imports:CombineImports._combine_import_from'] = lambda it, f, ar, k: (calls.append(('from', ar[1], ar[2])), b)[1]
        r = interp.call(interp.getattr(o, 'suite'), [stmts, parent], {})
        def orig(x):
            while isinstance(x, Obj) and ctx.data(x).extra.get('copy_of') is not None:
                x = ctx.data(x).extra['copy_of']
            return x
        okc = len(calls) == 2 and calls[0] == ('import', stmts, parent) and calls[1][0] == 'from' and orig(calls[1][1]) == a and calls[1][2] == parent
        ctx.check(name + '/pipes-import-then-from-import-combining', okc, kind='post', detail=repr(calls))
        ok = isinstance(r, Obj) and orig(ctx.data(r).extra.get('map_of')) == b
        ctx.check(name + '/result-is-the-combined-list-visited-in-order', bool(ok), kind='post', detail=repr(r))
    ex = Explorer()
    ex.explore(run)
    return finish(ex, name, [source.describe(T + 'combine_imports:CombineImports.suite')])


# ---------------------------------------------------------------------------------------------------------------------
# remove_exception_brackets

def task_exception_brackets():
    mod = source.import_module(T + 'remove_exception_brackets')
    bmod = source.import_module('python_minifier.rename.binding')
    name = 'C05/remove_exception_brackets'
    pruned = set()
    obs = []
    import builtins
    bad = [n for n in mod.builtin_exceptions if not (isinstance(getattr(builtins, n, None), type) and issubclass(getattr(builtins, n), BaseException))]
    obs.append({'name': name + '/whitelist-names-are-builtin-exception-classes', 'status': 'proved' if not bad else 'refuted',
                'detail': 'not exception classes of this interpreter: %r' % bad, 'model': {}, 'time_s': 0, 'backend': 'eval', 'path': None,
                'kind': 'post', 'goal': None})

    # _remove_empty_call: the Call is cut out only for `raise Name()` / `raise ... from Name()` without arguments
    def run(ctx):
        policy = TransformPolicy()
        interp = Interp(ctx, policy=policy)
        install_common(interp, policy, ctx, object)
        b = ctx.new_obj('inst', bmod.BuiltinBinding, name='binding')
        refs = sym_node_list(ctx, 'refs', {'Name'})
        ctx.data(b).fields['_references'] = refs
        ctx.data(b).fields['_name'] = z3.String('builtin_name')
        set_parents = []
        interp.hooks['python_minifier.ast_annotation:set_parent'] = lambda it, f, a, k: set_parents.append((a[0], a[1]))
        # every reference of a builtin is a Name in Load context (precondition established by is_redefined)
        orig_factory = ctx.data(refs).elem_factory

        def factory(key):
            n = orig_factory(key)
            ctxnode = ctx.new_node({'Load'}, name=ctx.data(n).name + '.ctx')
            ctx.data(n).fields['ctx'] = ctxnode
            return n
        ctx.data(refs).elem_factory = factory
        interp.call(interp.wrap(mod._remove_empty_call), [b], {})
        pruned.update(interp.pruned)
        # look at the arbitrary reference of the analysed iteration
        for k, ref in list(ctx.data(refs).items.items()):
            key = ref.id
            call = policy.parents.get(key)
            if call is None:
                continue
            cd = ctx.data(call)
            raise_node = policy.parents.get(call.id)
            written = []
            if raise_node is not None:
                rd = ctx.data(raise_node)
                for fld in ('exc', 'cause'):
                    if rd.fields.get(fld) == ref:
                        written.append(fld)
            if written:
                rd = ctx.data(raise_node)
                ctx.check(name + '._remove_empty_call/only-calls-are-unwrapped', cd.tagvar == tag_const('Call'), kind='post')
                ctx.check(name + '._remove_empty_call/only-directly-under-raise', rd.tagvar == tag_const('Raise'), kind='post')
                args, kws = cd.fields.get('args'), cd.fields.get('keywords')
                noargs = z3.And(ctx.data(args).symlen == 0, ctx.data(kws).symlen == 0) if isinstance(args, Obj) and isinstance(kws, Obj) else z3.BoolVal(False)
                ctx.check(name + '._remove_empty_call/only-calls-without-arguments', noargs, kind='post')
                ctx.check(name + '._remove_empty_call/name-is-reparented-to-the-raise', (ref, raise_node) in set_parents, kind='post')
            else:
                ctx.check(name + '._remove_empty_call/cover-unchanged', True, kind='cover')
    ex = Explorer()
    ex.explore(run)
    res = finish(ex, name + '._remove_empty_call', [source.describe(T + 'remove_exception_brackets:_remove_empty_call')], pruned)
    res['obligations'] += obs

    # remove_no_arg_exception_call: gating per binding
    def run2(ctx):
        policy = TransformPolicy()
        interp = Interp(ctx, policy=policy)
        policy.interp = interp
        module = ctx.new_node({'Module'}, name='module')
        kinds = {}

        def mk(key):
            from pyvc.interp import _keyname
            nm = _keyname(key)
            i = ctx.choose(2, 'binding_class')
            cls = (bmod.BuiltinBinding, bmod.NameBinding)[i]
            o = ctx.new_obj('inst', cls, name='binding_' + nm)
            ctx.data(o).fields['_name'] = z3.String('bname_' + nm)
            ctx.data(o).fields['_references'] = ctx.new_list([])
            return o
        bl = ctx.new_obj('list', name='bindings')
        ctx.data(bl).items = {}
        ctx.data(bl).symlen = z3.Int('n_bindings')
        ctx.assume(ctx.data(bl).symlen >= 0)
        ctx.data(bl).elem_factory = mk
        ctx.data(module).fields['bindings'] = bl
        redef = {}

        def is_redefined_hook(it, f, a, k):
            bname = ctx.data(a[0]).name
            redef[bname] = z3.Bool('is_redefined_' + bname)
            return redef[bname]
        interp.hooks['python_minifier.rename.binding:BuiltinBinding.is_redefined'] = is_redefined_hook
        removed = []
        interp.hooks[T + 'remove_exception_brackets:_remove_empty_call'] = lambda it, f, a, k: removed.append(a[0])
        r = interp.call(interp.wrap(mod.remove_no_arg_exception_call), [module], {})
        ctx.check(name + '/returns-the-module', r == module, kind='post')
        for b in removed:
            d = ctx.data(b)
            ctx.check(name + '/only-builtin-bindings', d.cls is bmod.BuiltinBinding, kind='post')
            ctx.check(name + '/never-for-a-redefined-builtin', z3.Not(redef[d.name]) if d.name in redef else False, kind='post',
                      detail='is_redefined must be consulted and be false')
            ctx.check(name + '/only-whitelisted-exception-names', z3.Or([d.fields['_name'] == z3.StringVal(n) for n in mod.builtin_exceptions]), kind='post')
    ex2 = Explorer()
    ex2.explore(run2)
    r2 = finish(ex2, name + '.remove_no_arg_exception_call', [source.describe(T + 'remove_exception_brackets:remove_no_arg_exception_call')])

    # BuiltinBinding.is_redefined: false only when every reference is a Name in Load context
    def run3(ctx):
        policy = TransformPolicy()
        interp = Interp(ctx, policy=policy)
        policy.interp = interp
        b = ctx.new_obj('inst', bmod.BuiltinBinding, name='binding')
        refs = sym_node_list(ctx, 'refs', set(tag_universe()['names']))
        ctx.data(b).fields['_references'] = refs
        r = interp.call(interp.getattr(b, 'is_redefined'), [], {})
        for k, ref in ctx.data(refs).items.items():
            d = ctx.data(ref)
            c = d.fields.get('ctx')
            load = z3.And(d.tagvar == tag_const('Name'), ctx.data(c).tagvar == tag_const('Load')) if isinstance(c, Obj) else z3.BoolVal(False)
            if r is True:
                ctx.check(name + '.is_redefined/true-when-a-reference-is-not-a-plain-load', z3.Not(load), kind='post')
            elif r is False:
                ctx.check(name + '.is_redefined/false-only-if-the-inspected-reference-is-a-name-load', load, kind='post')
    ex3 = Explorer()
    ex3.explore(run3)
    r3 = finish(ex3, name + '.is_redefined', [source.describe('python_minifier.rename.binding:BuiltinBinding.is_redefined')])
    for r in (r2, r3):
        res['obligations'] += r['obligations']
        res['functions'] += r['functions']
        res['notes'] += r['notes']
    return res


# ---------------------------------------------------------------------------------------------------------------------
# RemoveAnnotations

def task_annotations():
    P.install_symconst_type_support()
    mod = source.import_module(T + 'remove_annotations')
    omod = source.import_module(T + 'remove_annotations_options')
    name = 'C05/RemoveAnnotations'
    pruned = set()

    def mk(ctx, interp):
        opts = ctx.new_obj('inst', omod.RemoveAnnotationsOptions, name='options')
        flags = {}
        for f in ('remove_variable_annotations', 'remove_return_annotations', 'remove_argument_annotations', 'remove_class_attribute_annotations'):
            flags[f] = z3.Bool('opt_' + f)
            ctx.data(opts).fields[f] = flags[f]
        o = interp.instantiate(mod.RemoveAnnotations, [opts], {})      # the real constructor runs
        return o, flags

    def run_arg(ctx):
        policy = TransformPolicy()
        interp = Interp(ctx, policy=policy)
        root = ctx.new_node({'arg'}, name='root')
        install_common(interp, policy, ctx, mod.RemoveAnnotations, root)
        o, flags = mk(ctx, interp)
        before = interp.getattr(root, 'annotation')
        nm = interp.getattr(root, 'arg')
        r = interp.call(interp.getattr(o, 'visit_arg'), [root], {})
        after = ctx.data(root).fields['annotation']
        ctx.check(name + '.visit_arg/returns-the-argument', r == root and ctx.data(root).fields['arg'] is nm, kind='post')
        if after is None and before is not None:
            ctx.check(name + '.visit_arg/removes-only-when-argument-annotations-are-selected', flags['remove_argument_annotations'], kind='post')
        elif before is not None:
            ctx.check(name + '.visit_arg/keeps-the-annotation-when-not-selected', z3.And(z3.Not(flags['remove_argument_annotations']), z3.BoolVal(after == before)), kind='post')
    ex = Explorer()
    ex.explore(run_arg)
    res = finish(ex, name + '.visit_arg', [source.describe(T + 'remove_annotations:RemoveAnnotations.visit_arg')])

    def run_fn(ctx):
        policy = TransformPolicy()
        interp = Interp(ctx, policy=policy)
        root = ctx.new_node({'FunctionDef', 'AsyncFunctionDef'}, name='root')
        install_common(interp, policy, ctx, mod.RemoveAnnotations, root)
        o, flags = mk(ctx, interp)
        before = interp.getattr(root, 'returns')
        args0 = interp.getattr(root, 'args')
        nm = interp.getattr(root, 'name')
        interp.hooks[T + 'remove_annotations:RemoveAnnotations.visit_arguments'] = lambda it, f, a, k: a[1]
        interp.hooks[T + 'remove_annotations:RemoveAnnotations.suite'] = lambda it, f, a, k: Opaque('suite_result', sort='list')
        for k in mod.RemoveAnnotations.__mro__:
            if 'suite' in k.__dict__ and k.__module__.startswith('python_minifier'):
                interp.hooks['%s:%s.suite' % (k.__module__, k.__name__)] = lambda it, f, a, k2: Opaque('suite_result', sort='list')
        r = interp.call(interp.getattr(o, 'visit_FunctionDef'), [root], {})
        after = ctx.data(root).fields['returns']
        ctx.check(name + '.visit_FunctionDef/returns-the-function', r == root and ctx.data(root).fields['name'] is nm and ctx.data(root).fields['args'] == args0, kind='post')
        if before is not None:
            if after is None:
                ctx.check(name + '.visit_FunctionDef/return-annotation-removed-only-when-selected', flags['remove_return_annotations'], kind='post')
            else:
                ctx.check(name + '.visit_FunctionDef/return-annotation-kept-when-not-selected',
                          z3.And(z3.Not(flags['remove_return_annotations']), z3.BoolVal(after == before)), kind='post')
    ex2 = Explorer()
    ex2.explore(run_fn)
    r2 = finish(ex2, name + '.visit_FunctionDef', [source.describe(T + 'remove_annotations:RemoveAnnotations.visit_FunctionDef')])

    def run_ann(ctx):
        policy = TransformPolicy()
        interp = Interp(ctx, policy=policy)
        root = ctx.new_node({'AnnAssign'}, name='root')
        install_common(interp, policy, ctx, mod.RemoveAnnotations, root)
        o, flags = mk(ctx, interp)
        ann0 = interp.getattr(root, 'annotation')
        tgt0 = interp.getattr(root, 'target')
        val0 = interp.getattr(root, 'value')
        # "the class" of an annotated assignment is the namespace its statement belongs to (a field may be declared inside an if/try/with block of
        # the class body); the parent statement is a different node in general
        from contracts.scopes import NAMESPACE_TAGS
        klass = ctx.new_node(NAMESPACE_TAGS, name='namespace_of_root')
        ctx.data(root).fields['namespace'] = klass
        BLOCKS = {'If', 'For', 'AsyncFor', 'While', 'Try', 'TryStar', 'With', 'AsyncWith', 'match_case', 'ExceptHandler'}
        base_hook = interp.hooks['python_minifier.ast_annotation:get_parent']

        def parent_hook(it, f, args, kwargs):
            # AST shape: the parent of a statement is its namespace node itself, or a block statement nested in that namespace
            if args[0] == root and root.id not in policy.parents:
                if ctx.branch(z3.Bool('statement_is_directly_in_the_body_of_its_namespace')):
                    policy.parents[root.id] = klass
                else:
                    policy.parents[root.id] = ctx.new_node(BLOCKS, name='parent_of_root')
            return base_hook(it, f, args, kwargs)
        interp.hooks['python_minifier.ast_annotation:get_parent'] = parent_hook
        r = interp.call(interp.getattr(o, 'visit_AnnAssign'), [root], {})
        pruned.update(interp.pruned)
        stmt_parent = policy.parents.get(root.id)
        parent = klass
        pd = ctx.data(klass)
        in_class = pd.tagvar == tag_const('ClassDef')
        selected = z3.If(in_class, flags['remove_class_attribute_annotations'], flags['remove_variable_annotations'])
        rd = ctx.data(root)
        changed = not (r == root and rd.fields['annotation'] == ann0)
        # did this path see a protecting decorator / base?  (arbitrary element of the respective list)
        protect = []
        unexamined = []
        if pd is not None and changed and ctx.branch(in_class):
            interp.narrow(parent, {'ClassDef'})
            for fld, names, attr in (('decorator_list', ('dataclass',), True), ('bases', ('NamedTuple', 'TypedDict'), False)):
                lst = interp.getattr(parent, fld)
                ld = ctx.data(lst)
                if ld.symlen is not None and ctx.solver.check(ld.symlen > 0) == z3.unsat:
                    continue        # the list is empty on this path: nothing can protect
                # the universal statement "no element protects" is established for the arbitrary element of a loop over the list
                if not any(isinstance(k, tuple) and k and k[0] == 'g' for k in ld.items):
                    unexamined.append(fld)
                    continue

                def named(e, n):
                    ed = ctx.data(e)
                    if 'Name' in ed.tags and ctx.branch(ed.tagvar == tag_const('Name')):
                        interp.narrow(e, {'Name'})
                        v = interp.getattr(e, 'id')
                        return z3.Or([v == z3.StringVal(x) for x in n])
                    if 'Attribute' in ed.tags and ctx.branch(ed.tagvar == tag_const('Attribute')):
                        interp.narrow(e, {'Attribute'})
                        v = interp.getattr(e, 'attr')
                        return z3.Or([v == z3.StringVal(x) for x in n])
                    return None
                for k, e in list(ld.items.items()):
                    if not isinstance(e, Obj):
                        continue
                    c = named(e, names)
                    if c is not None:
                        protect.append(c)
                        continue
                    ed = ctx.data(e)
                    if attr and 'Call' in ed.tags and ctx.branch(ed.tagvar == tag_const('Call')):
                        interp.narrow(e, {'Call'})
                        c = named(interp.getattr(e, 'func'), names)
                        if c is not None:
                            protect.append(c)
        protected = z3.Or(protect) if protect else z3.BoolVal(False)
        if not changed:
            ctx.check(name + '.visit_AnnAssign/cover-unchanged', True, kind='cover')
            return
        ctx.check(name + '.visit_AnnAssign/rewrites-only-the-selected-kind-of-annotation', selected, kind='post',
                  detail='class attributes follow remove_class_attribute_annotations, other variables remove_variable_annotations')
        ctx.check(name + '.visit_AnnAssign/never-rewrites-a-dataclass-NamedTuple-or-TypedDict-field', z3.Not(protected) if not unexamined else False, kind='post',
                  detail=('[needs-witness] a class attribute annotation was rewritten without examining the %s of the class' % ' and '.join(unexamined)) if unexamined else
                  'an element of decorator_list / bases marks the class as dataclass / NamedTuple / TypedDict')
        if r != root:
            d = ctx.data(r) if isinstance(r, Obj) else None
            ok = d is not None and d.tags == {'Assign'} and isinstance(d.fields.get('targets'), Obj) and ctx.data(d.fields['targets']).items == [tgt0] \
                and d.fields.get('value') == val0 and val0 is not None
            ctx.check(name + '.visit_AnnAssign/annotated-assignment-with-value-becomes-plain-assignment', bool(ok), kind='post', detail=repr(r))
            adds = [e for e in policy.events if e[0] == 'add_child']
            ctx.check(name + '.visit_AnnAssign/replacement-keeps-parent-and-namespace', len(adds) == 1 and adds[0][2] == stmt_parent and
                      adds[0][3] == klass, kind='post', detail=repr(adds))
        else:
            a1 = rd.fields['annotation']
            ok = isinstance(a1, Obj) and ctx.data(a1).tags == {'Constant'} and ctx.data(a1).fields.get('value') == 0 and val0 is None \
                and rd.fields['target'] == tgt0
            ctx.check(name + '.visit_AnnAssign/valueless-annotation-becomes-zero-and-stays-an-annotated-assignment', bool(ok), kind='post', detail=repr(a1))
    ex3 = Explorer()
    ex3.explore(run_ann)
    r3 = finish(ex3, name + '.visit_AnnAssign', [source.describe(T + 'remove_annotations:RemoveAnnotations.visit_AnnAssign')], pruned)
    for r in (r2, r3):
        res['obligations'] += r['obligations']
        res['functions'] += r['functions']
        res['notes'] += r['notes']
    return res


# ---------------------------------------------------------------------------------------------------------------------
# SuiteTransformer base: every statement list of a compound statement is routed through suite(list, parent=node)

def task_base_routing():
    stm = source.import_module(ST)
    name = 'C05/SuiteTransformer'
    obs = []
    fns = []
    notes = []
    routed = {'ClassDef': ['body'], 'FunctionDef': ['body'], 'AsyncFunctionDef': ['body'], 'For': ['body', 'orelse'], 'AsyncFor': ['body', 'orelse'],
              'If': ['body', 'orelse'], 'Try': ['body', 'orelse', 'finalbody'], 'While': ['body', 'orelse'], 'With': ['body'], 'AsyncWith': ['body'],
              'Module': ['body']}
    for tag, lists in sorted(routed.items()):
        method = 'visit_' + tag

        def run(ctx, tag=tag, lists=lists, method=method):
            policy = TransformPolicy()
            interp = Interp(ctx, policy=policy)
            root = ctx.new_node({tag}, name='root')
            install_common(interp, policy, ctx, stm.SuiteTransformer, root)
            o = interp.instantiate(stm.SuiteTransformer, [], {})
            before = dict((f, interp.getattr(root, f)) for f in lists)
            suites = []

            def suite_hook(it, f, args, kwargs):
                lst = args[1]
                parent = args[2] if len(args) > 2 else kwargs.get('parent')
                suites.append((lst, parent))
                return Opaque('suite_of', (ctx.data(lst).name,), sort='list')
            interp.hooks[ST + ':SuiteTransformer.suite'] = suite_hook
            r = interp.call(interp.getattr(o, method), [root], {})
            ctx.check('%s.%s/returns-the-statement' % (name, method), r == root, kind='post')
            rd = ctx.data(root)
            for f in lists:
                new = rd.fields[f]
                was = before[f]
                routed_ok = new == Opaque('suite_of', (ctx.data(was).name,), sort='list') and (was, root) in suites
                if f == 'body':
                    ctx.check('%s.%s/%s-goes-through-suite-with-this-node-as-parent' % (name, method, f), routed_ok, kind='post', detail=repr(new))
                else:
                    empty = ctx.solver.check(ctx.data(was).symlen > 0) == z3.unsat
                    ctx.check('%s.%s/%s-goes-through-suite-unless-empty' % (name, method, f), routed_ok or (empty and new == was), kind='post', detail=repr(new))
        ex = Explorer()
        ex.explore(run)
        r = finish(ex, '%s.%s' % (name, method), [])
        obs += r['obligations']
        notes += r['notes']
    for m in ('visit_ClassDef', 'visit_FunctionDef', 'visit_For', 'visit_If', 'visit_Try', 'visit_While', 'visit_With', 'visit_Module', 'suite',
              'generic_visit', 'add_child'):
        fns.append(source.describe(ST + ':SuiteTransformer.' + m))
    return result(obs, fns, ASSUMPTIONS, notes=notes)
