"""Contract of python_minifier._find_shebang (C16, first-line clause).

The real body is executed on a symbolic source string; re.match is interpreted by translating the pattern text found in the real source
(literals, '.', negated/positive character classes, '*', '^') into a z3 regular expression with Python's greedy semantics for the
trailing star.  Postcondition: the result is exactly the first source line when it starts with '#!' (no line terminator inside, followed
by a terminator or the end of the source), otherwise None.
"""
import re

import z3

from pyvc import source
from pyvc.engine import (ExcVal, Explorer, Native, Obj, Opaque, Raised, SymStr, Undecided)
from pyvc.interp import PROCEED, Interp, Policy
from pyvc.runner import result

PM = 'python_minifier'

ASSUMPTIONS = [
    're.match semantics for the fragment literal / . / [..] / [^..] / * / ^ : the match is the longest prefix (the only repetition is a trailing '
    'greedy star over a character class); "." matches every character except \\n',
    'source line terminators are \\n, \\r\\n and \\r (language reference 2.1.2); bytes sources are ASCII-compatible in the shebang line (known '
    'finding KF-13 otherwise); decoding of the rest of a bytes source happens inside ast.parse (external)',
]


def translate(pattern):
    """-> (prefix literal, class predicate for the starred tail as a function z3 char-string -> Bool, description)"""
    p = pattern
    if isinstance(p, bytes):
        p = p.decode('latin-1')
    if p.startswith('^'):
        p = p[1:]
    # literal prefix
    i = 0
    lit = ''
    while i < len(p) and p[i] not in '.[*+?(\\':
        lit += p[i]
        i += 1
    rest = p[i:]
    RS = z3.ReSort(z3.StringSort())
    anychar = z3.AllChar(RS)
    if rest == '':
        return lit, None, 'literal'
    if rest == '.*':
        return lit, z3.Diff(anychar, z3.Re('\n')), 'any character but newline'
    m = re.fullmatch(r'\[(\^?)((?:\\.|[^\]])+)\]\*', rest)
    if not m:
        raise Undecided('pattern %r is outside the translated fragment' % (pattern,))
    neg, body = m.group(1) == '^', m.group(2)
    chars = []
    j = 0
    while j < len(body):
        if body[j] == '\\':
            chars.append({'r': '\r', 'n': '\n', 't': '\t', '\\': '\\'}.get(body[j + 1], body[j + 1]))
            j += 2
        else:
            chars.append(body[j])
            j += 1
    inside = z3.Union([z3.Re(x) for x in chars]) if len(chars) > 1 else z3.Re(chars[0])
    cls = z3.Diff(anychar, inside) if neg else inside
    return lit, cls, ('not one of %r' if neg else 'one of %r') % (chars,)


def task_find_shebang():
    pm = source.import_module(PM)
    name = 'C16/_find_shebang'
    notes = []

    def run(ctx):
        policy = Policy()
        interp = Interp(ctx, policy=policy)
        is_bytes = ctx.branch(z3.Bool('source_is_bytes'))
        s = z3.String('source_text')
        src = s
        if is_bytes:
            src = Opaque('source_bytes', sort='bytes')
        matches = []

        def re_match(it, args, kwargs):
            pat, subject = args[0], args[1]
            subjects.append(subject)
            lit, pred, desc = translate(pat)
            notes.append('pattern %r: literal %r then %s' % (pat, lit, desc))
            m = z3.String('matched_prefix')
            rest = z3.String('rest_of_source')
            starts = z3.PrefixOf(z3.StringVal(lit), s)
            if not ctx.branch(starts):
                matches.append(None)
                return None
            ctx.assume(s == z3.Concat(m, rest))
            ctx.assume(z3.PrefixOf(z3.StringVal(lit), m))
            # every character of the tail is in the class; the next character (if any) is not: greedy maximal match
            RS = z3.ReSort(z3.StringSort())
            ctx.assume(z3.InRe(m, z3.Concat(z3.Re(lit), z3.Star(pred))))
            ctx.assume(z3.Or(z3.Length(rest) == 0, z3.InRe(rest, z3.Concat(z3.Diff(z3.AllChar(RS), pred), z3.Full(RS)))))
            mo = ctx.new_obj('ns', name='match_object')
            ctx.data(mo).extra['type'] = 'match'
            ctx.data(mo).fields['group_value'] = m if isinstance(pat, str) else Opaque('matched_bytes', sort='bytes')
            matches.append((pat, m, rest))
            return mo
        interp.natives[re.match] = re_match

        has_bom = z3.Bool('bytes_start_with_utf8_bom')
        subjects = []

        class PP(Policy):
            def str_method(self, it, recv, nm, args, kwargs):
                # bytes source: `source_text` is the text of the bytes after an optional UTF-8 byte order mark (the BOM is not part of the program text)
                if isinstance(recv, Opaque) and recv.name == 'source_bytes' and nm == 'startswith' and args == [b'\xef\xbb\xbf']:
                    return has_bom
                return PROCEED

            def getitem(self, it, obj, key):
                if isinstance(obj, Opaque) and obj.name == 'source_bytes' and isinstance(key, slice) and (key.start, key.stop, key.step) == (3, None, None):
                    return Opaque('source_bytes_after_bom', sort='bytes')
                return PROCEED

            def attr(self, it, obj, nm):
                if isinstance(obj, Obj) and ctx.data(obj).extra.get('type') == 'match' and nm == 'group':
                    return Native(_group)
                if isinstance(obj, Opaque) and obj.name == 'matched_bytes' and nm == 'decode':
                    return Native(_decode)
                return PROCEED
        interp.policy = PP()
        interp.natives[_group] = lambda it, a, k: [d for d in ctx.heap.values() if d.extra.get('type') == 'match'][-1].fields['group_value']
        interp.natives[_decode] = lambda it, a, k: z3.String('matched_prefix')
        r = interp.call(interp.wrap(pm._find_shebang), [src], {})
        pat_ok = bool(matches) and (matches[0] is None or isinstance(matches[0][0], bytes) == is_bytes)
        ctx.check(name + '/pattern-type-follows-the-source-type', pat_ok, kind='post', detail=repr([m[0] if m else None for m in matches]))
        if is_bytes:
            # the first line of the program starts after a byte order mark: the pattern must be applied to the bytes behind it
            bom_now = ctx.solver.check(has_bom) == z3.sat and ctx.solver.check(z3.Not(has_bom)) == z3.unsat
            nobom_now = ctx.solver.check(z3.Not(has_bom)) == z3.sat and ctx.solver.check(has_bom) == z3.unsat
            want = 'source_bytes_after_bom' if bom_now else ('source_bytes' if nobom_now else None)
            ok = len(subjects) == 1 and isinstance(subjects[0], Opaque) and subjects[0].name == want
            ctx.check(name + '/bytes-are-matched-after-an-optional-byte-order-mark', ok, kind='post',
                      detail='re.match applied to %r (byte order mark present: %s)' % (subjects, 'yes' if bom_now else ('no' if nobom_now else 'not examined')))
        if r is None:
            ctx.check(name + '/none-only-when-the-source-does-not-start-with-a-shebang', z3.Not(z3.PrefixOf(z3.StringVal('#!'), s)), kind='post')
            return
        ok = z3.is_expr(r)
        ctx.check(name + '/returns-the-matched-text', ok, kind='post', detail=repr(r))
        if not ok:
            return
        m, rest = matches[0][1], matches[0][2]
        ctx.check(name + '/starts-with-the-shebang-marker', z3.PrefixOf(z3.StringVal('#!'), r), kind='post')
        RS = z3.ReSort(z3.StringSort())
        has_term = z3.InRe(r, z3.Concat(z3.Full(RS), z3.Union(z3.Re('\n'), z3.Re('\r')), z3.Full(RS)))
        ctx.check(name + '/contains-no-line-terminator', z3.Not(has_term), kind='post',
                  detail='the shebang is the first source line without its terminator')
        ctx.check(name + '/is-the-whole-first-line', z3.Or(z3.Length(rest) == 0, z3.InRe(rest, z3.Concat(z3.Union(z3.Re('\n'), z3.Re('\r')), z3.Full(RS)))), kind='post',
                  detail='what follows the returned text is a line terminator or the end of the source')
    ex = Explorer()
    ex.explore(run)
    res = result([o.to_json() for o in ex.obligations], [source.describe(PM + ':_find_shebang')], ASSUMPTIONS, notes=sorted(set(notes)))
    if ex.undecided_reason:
        res['obligations'].append({'name': name + '/engine', 'status': 'undecided', 'detail': ex.undecided_reason, 'model': {}, 'time_s': 0,
                                   'backend': 'engine', 'path': None, 'kind': 'engine', 'goal': None})
    res['notes'].append('%s: %d feasible paths' % (name, len([p for p in ex.paths if p[0] == 'ok'])))
    return res


def _group(*a):
    raise RuntimeError('model only')


def _decode(*a):
    raise RuntimeError('model only')
