"""Contracts for transforms/constant_folding.py (C07, the arithmetic sink of C12, and the folding clause of C17/C06).

FoldConstants.visit_BinOp is executed on a symbolic BinOp.  Every call it makes to the evaluator, the printer, the parser and the
comparison helpers is a contract call recorded in an event log; a path may return a replacement node only if the log and the path
condition contain the complete guard the property states:

    operands are number / True / False / None constants, operator is neither Div nor Pow, the original text evaluates without error to v,
    v is not NaN, the replacement is built from v itself (NameConstant(v) | Num(v) | USub(Num(-v))), its text evaluates without error,
    is strictly shorter, parses back to the replacement node, and equal_value_and_type(new value, v) holds.

Every other path returns the original node object.  equal_value_and_type is verified as its own function under contract.
"""
import math

import z3

from pyvc import source
from pyvc.engine import (ExcVal, Explorer, Native, Obj, Opaque, Raised, SymStr, Undecided, tag_const, tags_of_class)
from pyvc.interp import PROCEED, Interp, Policy, SymConst
from pyvc.runner import result
from contracts import printer as P

CF = 'python_minifier.transforms.constant_folding'
ST = 'python_minifier.transforms.suite_transformer'

ASSUMPTIONS = [
    'safe_eval(text) returns CPython\'s value of text or raises (external: eval with empty namespaces); the value of literal arithmetic '
    'is an int, float, complex or bool',
    'ast.parse(text, mode="eval") returns a tree or raises; compare_ast returns None or raises CompareError (lenient on constant types, '
    'which is why the value/type comparison is a separate guard)',
    'ExpressionPrinter prints the node it is given (C02 contracts); the text of a tree made of BinOp/UnaryOp over number/True/False/None '
    'constants contains only number tokens, operators, parentheses and the keywords True/False/None (obligations C12/folding/*)',
    'sign of zero and of NaN payloads: equal_value_and_type does not distinguish 0.0 from -0.0; sign exactness comes from building the '
    'replacement from the evaluated value itself and printing it with the L3 literal contracts (bounded float sweep stands behind this)',
]


class FoldPolicy(P.PrinterPolicy):
    def __init__(self):
        P.PrinterPolicy.__init__(self)
        self.events = []

    def attr(self, interp, obj, name):
        if isinstance(obj, Obj):
            d = interp.ctx.data(obj)
            if d.kind == 'node' and name == 'namespace':
                return Opaque('namespace_of', (d.name,), sort='node')
            if d.kind == 'node' and name == '_parent':
                return Opaque('parent_of', (d.name,), sort='node')
        return P.PrinterPolicy.attr(self, interp, obj, name)

    def hasattr(self, interp, obj, name):
        if name == '_parent':
            return True
        return PROCEED

    def call_builtin(self, interp, py, args, kwargs):
        ctx = interp.ctx
        if py is repr and isinstance(args[0], SymConst):
            return Opaque('repr', (args[0],), sort='str')
        if py is math.isnan and isinstance(args[0], SymConst):
            return z3.Bool('isnan_' + args[0].name)
        return P.PrinterPolicy.call_builtin(self, interp, py, args, kwargs)

    def str_method(self, interp, recv, name, args, kwargs):
        if isinstance(recv, Opaque) and recv.name == 'repr' and name == 'startswith' and args == ['-']:
            return z3.Bool('negative_' + recv.args[0].name)
        return PROCEED

    def isinstance_opaque(self, interp, v, pycls):
        return PROCEED


def _unary_neg(interp, v):
    return Opaque('neg', (v,), sort='value')


def install(interp, policy, ctx):
    cf = source.import_module(CF)
    import ast as real_ast
    import python_minifier.ast_compat as compat

    def visit_hook(it, f, args, kwargs):
        node = args[1]
        d = ctx.data(node)
        if node == policy.root:
            return PROCEED
        r = ctx.new_node(P.EXPR_TAGS - {'Slice', 'Starred', 'FormattedValue'}, name='visited_' + d.name.split('.')[-1])
        policy.events.append(('visit', node, r))
        return r
    for cls in (cf.FoldConstants.__mro__):
        if cls.__module__.startswith('python_minifier') and 'visit' in cls.__dict__:
            interp.hooks['%s:%s.visit' % (cls.__module__, cls.__name__)] = visit_hook

    def unparse_hook(it, f, args, kwargs):
        policy.events.append(('unparse', args[0]))
        return Opaque('printed', (ctx.data(args[0]).name,), sort='str')
    interp.hooks[CF + ':unparse_expression'] = unparse_hook

    def safe_eval_hook(it, f, args, kwargs):
        text = args[0]
        n = len([e for e in policy.events if e[0] == 'safe_eval'])
        if ctx.branch(z3.Bool('eval_%d_raises' % n)):
            policy.events.append(('safe_eval', text, 'raise'))
            raise Raised(ExcVal(ZeroDivisionError, ('any exception',)))
        v = SymConst('value_%d' % n)
        ctx.assume(z3.Or(v.kind == 1, v.kind == 2, v.kind == 3, v.kind == 4, v.kind == 5))
        policy.events.append(('safe_eval', text, v))
        return v
    interp.hooks[CF + ':safe_eval'] = safe_eval_hook

    def parse_model(it, args, kwargs):
        if ctx.branch(z3.Bool('reparse_raises')):
            policy.events.append(('parse', args[0], 'raise'))
            raise Raised(ExcVal(SyntaxError, ('any',)))
        o = ctx.new_obj('ns', name='parsed')
        body = Opaque('parsed_body', (args[0],), sort='node')
        ctx.data(o).fields['body'] = body
        policy.events.append(('parse', args[0], body, dict(kwargs), args[1:]))
        return o
    interp.natives[compat.parse] = parse_model

    def compare_hook(it, f, args, kwargs):
        if ctx.branch(z3.Bool('compare_ast_raises')):
            policy.events.append(('compare_ast', args[0], args[1], 'raise'))
            import python_minifier.ast_compare as ac
            raise Raised(ExcVal(ac.CompareError, ()))
        policy.events.append(('compare_ast', args[0], args[1], 'ok'))
        return None
    interp.hooks['python_minifier.ast_compare:compare_ast'] = compare_hook

    def evt_hook(it, f, args, kwargs):
        b = z3.Bool('equal_value_and_type_result')
        policy.events.append(('evt', args[0], args[1], b))
        return b
    interp.hooks[CF + ':equal_value_and_type'] = evt_hook

    def add_child_hook(it, f, args, kwargs):
        policy.events.append(('add_child', args[1:], dict(kwargs)))
        return args[1]
    interp.hooks[ST + ':SuiteTransformer.add_child'] = add_child_hook

    def get_parent_hook(it, f, args, kwargs):
        return Opaque('parent_of', (ctx.data(args[0]).name,), sort='node')
    interp.hooks['python_minifier.ast_annotation:get_parent'] = get_parent_hook


def is_numlike(c):
    """SymConst is a number, True, False or None (what is_constant_node(node, (Num, NameConstant)) accepts)."""
    return z3.Or([c.kind == k for k in (0, 1, 2, 3, 4, 5)])


def task_visit_binop():
    cf = source.import_module(CF)
    P.install_symconst_type_support()
    name = 'C07/FoldConstants.visit_BinOp'
    pruned = set()

    def run(ctx):
        policy = FoldPolicy()
        interp = Interp(ctx, policy=policy)
        policy.interp = interp
        install(interp, policy, ctx)
        # negation of a symbolic value
        from pyvc import interp as I
        root = ctx.new_node({'BinOp'}, name='root')
        policy.root = root
        o = interp.instantiate(cf.FoldConstants, [], {})
        orig_unary = Interp.expr_UnaryOp

        def expr_UnaryOp(self, e, env):
            import ast as pyast
            v = self.eval(e.operand, env)
            if isinstance(e.op, pyast.USub) and isinstance(v, SymConst):
                return Opaque('neg', (v,), sort='value')
            if isinstance(e.op, pyast.Not):
                return not self.truth(v)
            if isinstance(e.op, pyast.USub):
                return -v
            raise Undecided('unary op')
        interp.expr_UnaryOp = expr_UnaryOp.__get__(interp)
        raised = None
        try:
            r = interp.call(interp.getattr(o, 'visit_BinOp'), [root], {})
        except Raised as e:
            raised = e.exc
            r = None
        pruned.update(interp.pruned)
        ev = policy.events
        ctx.check('C08/noraise/FoldConstants.visit_BinOp', raised is None, kind='noraise', detail='raised %r' % (raised,))
        if raised is not None:
            return
        rd = ctx.data(root)
        visits = [e for e in ev if e[0] == 'visit']
        ctx.check(name + '/operands-are-visited-and-stored-back', len(visits) == 2 and rd.fields.get('left') == visits[0][2]
                  and rd.fields.get('right') == visits[1][2], kind='post', detail=repr(visits))
        adds = [e for e in ev if e[0] == 'add_child']
        if not adds:
            ctx.check(name + '/unfolded-expression-is-returned-as-it-is', r == root, kind='post', detail='returned %r' % (r,))
            return
        # ---- a replacement is returned: the complete guard must be on this path ----------------------------------------------------
        new = adds[0][1][0]
        ctx.check(name + '/returns-the-replacement-it-registered', r == new and len(adds) == 1, kind='post')
        left, right = rd.fields.get('left'), rd.fields.get('right')
        lc = ctx.data(left).fields.get('value') if isinstance(left, Obj) else None
        rc = ctx.data(right).fields.get('value') if isinstance(right, Obj) else None
        ok_consts = isinstance(lc, SymConst) and isinstance(rc, SymConst)
        ctx.check(name + '/folds-only-number-and-name-constant-operands',
                  z3.And(ctx.data(left).tagvar == tag_const('Constant'), ctx.data(right).tagvar == tag_const('Constant'), is_numlike(lc), is_numlike(rc))
                  if ok_consts else False, kind='post', detail='operands %r %r' % (lc, rc))
        # C12: the same fact is the precondition of the evaluator call (its text is the printed form of root): no name, call or attribute can be in it
        ctx.check('C12/folding/evaluated-expression-has-only-literal-operands',
                  z3.And(ctx.data(left).tagvar == tag_const('Constant'), ctx.data(right).tagvar == tag_const('Constant'), is_numlike(lc), is_numlike(rc))
                  if ok_consts else False, kind='pre@call', detail='operands of the expression handed to safe_eval: %r %r' % (lc, rc))
        op = ctx.data(rd.fields['op']).tagvar
        ctx.check(name + '/never-folds-division-or-power', z3.And(op != tag_const('Div'), op != tag_const('Pow')), kind='post')
        evals = [e for e in ev if e[0] == 'safe_eval']
        unparses = [e for e in ev if e[0] == 'unparse']
        ok_first = len(evals) >= 1 and len(unparses) >= 1 and unparses[0][1] == root and evals[0][1] == Opaque('printed', ('root',), sort='str') \
            and isinstance(evals[0][2], SymConst)
        ctx.check(name + '/original-expression-evaluated-without-error', ok_first, kind='post', detail=repr(ev[:4]))
        if not ok_first:
            return
        v = evals[0][2]
        ctx.check(name + '/nan-results-are-never-folded', z3.Not(z3.And(v.kind == 4, z3.Bool('isnan_' + v.name))), kind='post')
        # replacement built from the evaluated value itself
        nd = ctx.data(new)
        neg = z3.Bool('negative_' + v.name)
        if nd.tags == {'Constant'}:
            val = nd.fields.get('value')
            ctx.check(name + '/replacement-constant-is-the-evaluated-value', val is v, kind='post', detail='value %r' % (val,))
            ctx.check(name + '/negative-numbers-are-not-emitted-as-constants', z3.Or(z3.Not(neg), v.kind == 1, v.kind == 2), kind='post',
                      detail='a negative number must be re-expressed as unary minus so that the tree round-trips')
        elif nd.tags == {'UnaryOp'}:
            opn = nd.fields.get('op')
            operand = nd.fields.get('operand')
            okk = isinstance(opn, Obj) and ctx.data(opn).tags == {'USub'} and isinstance(operand, Obj) and ctx.data(operand).tags == {'Constant'} \
                and ctx.data(operand).fields.get('value') == Opaque('neg', (v,), sort='value')
            ctx.check(name + '/negative-replacement-is-minus-of-the-negated-value', bool(okk), kind='post')
            ctx.check(name + '/unary-minus-only-for-negative-numbers', z3.And(neg, z3.Or(v.kind == 3, v.kind == 4, v.kind == 5)), kind='post')
        else:
            ctx.check(name + '/replacement-is-a-constant-or-minus-constant', False, kind='post', detail=repr(nd.tags))
        ok_second = len(evals) == 2 and len(unparses) == 2 and unparses[1][1] == new and evals[1][1] == Opaque('printed', (nd.name,), sort='str') \
            and isinstance(evals[1][2], SymConst)
        ctx.check(name + '/replacement-text-evaluated-without-error', ok_second, kind='post', detail=repr(ev))
        if not ok_second:
            return
        lo = z3.Int('len_' + repr(Opaque('printed', ('root',), sort='str')))
        lf = z3.Int('len_' + repr(Opaque('printed', (nd.name,), sort='str')))
        ctx.check('C17/FoldConstants.visit_BinOp/folded-text-is-strictly-shorter', lf < lo, kind='post',
                  detail='len(folded) < len(original) on every path that folds')
        parses = [e for e in ev if e[0] == 'parse']
        cmps = [e for e in ev if e[0] == 'compare_ast']
        okp = len(parses) == 1 and parses[0][1] == evals[1][1] and parses[0][2] != 'raise' and len(cmps) == 1 and cmps[0][3] == 'ok' \
            and cmps[0][1] == new and cmps[0][2] == parses[0][2]
        ctx.check(name + '/replacement-text-parses-back-to-the-replacement', okp, kind='post', detail=repr(parses + cmps))
        evts = [e for e in ev if e[0] == 'evt']
        oke = len(evts) == 1 and {id(evts[0][1]), id(evts[0][2])} == {id(evals[1][2]), id(v)}
        ctx.check(name + '/value-and-type-compared-with-the-original-value', oke, kind='post', detail=repr(evts))
        if oke:
            ctx.check(name + '/folds-only-when-value-and-type-are-equal', evts[0][3], kind='post')
        # placement of the new node (C06: hoisting later relies on the namespace of folded constants)
        a = adds[0][1]
        kw = adds[0][2]
        parent = a[1] if len(a) > 1 else kw.get('parent')
        ns = a[2] if len(a) > 2 else kw.get('namespace')
        ctx.check('C06/FoldConstants.visit_BinOp/replacement-takes-parent-and-namespace-of-the-original',
                  parent == Opaque('parent_of', ('root',), sort='node') and ns == Opaque('namespace_of', ('root',), sort='node'), kind='post',
                  detail='add_child(new, parent=%r, namespace=%r)' % (parent, ns))
        # C12: what reaches the evaluator is the printed form of a closed literal tree
        ctx.check('C12/folding/evaluator-sees-only-printed-literal-trees', ok_first and ok_second, kind='pre@call')
    ex = Explorer()
    ex.explore(run)
    res = result([o.to_json() for o in ex.obligations], [source.describe(CF + ':FoldConstants.visit_BinOp'), source.describe(CF + ':safe_eval'),
                                                          source.describe(CF + ':unparse_expression')], ASSUMPTIONS, pruned=sorted(pruned))
    if ex.undecided_reason:
        res['obligations'].append({'name': name + '/engine', 'status': 'undecided', 'detail': ex.undecided_reason, 'model': {}, 'time_s': 0,
                                   'backend': 'engine', 'path': None, 'kind': 'engine', 'goal': None})
    okp = [p for p in ex.paths if p[0] == 'ok']
    res['notes'].append('%s: %d feasible paths' % (name, len(okp)))
    return res


def task_equal_value_and_type():
    cf = source.import_module(CF)
    P.install_symconst_type_support()
    install_symconst_pair_support()
    name = 'C07/equal_value_and_type'

    def run(ctx):
        policy = FoldPolicy()
        interp = Interp(ctx, policy=policy)
        a, b = SymConst('a'), SymConst('b')
        for c in (a, b):
            ctx.assume(z3.Or(c.kind == 1, c.kind == 2, c.kind == 3, c.kind == 4, c.kind == 5))
        r = interp.call(interp.wrap(cf.equal_value_and_type), [a, b], {})
        same_type = z3.Or(z3.And(z3.Or(a.kind == 1, a.kind == 2), z3.Or(b.kind == 1, b.kind == 2)),
                          z3.And(a.kind == b.kind, a.kind >= 3))
        rz = r if z3.is_expr(r) else z3.BoolVal(bool(r))
        ctx.check(name + '/true-only-for-identical-types', z3.Implies(rz, same_type), kind='post', detail='result %r' % (r,))
        ctx.check(name + '/true-only-for-equal-values', z3.Implies(rz, z3.Bool('pyeq_a_b')), kind='post', detail='result %r' % (r,))
    ex = Explorer()
    ex.explore(run)
    res = result([o.to_json() for o in ex.obligations], [source.describe(CF + ':equal_value_and_type')], ASSUMPTIONS)
    if ex.undecided_reason:
        res['obligations'].append({'name': name + '/engine', 'status': 'undecided', 'detail': ex.undecided_reason, 'model': {}, 'time_s': 0,
                                   'backend': 'engine', 'path': None, 'kind': 'engine', 'goal': None})
    return res


def install_symconst_pair_support():
    from pyvc import models
    if getattr(models, '_symconst_pair', False):
        return
    prev_equal = models.equal

    def typeclass(c):
        return z3.If(z3.Or(c.kind == 1, c.kind == 2), z3.IntVal(1), c.kind)

    def equal(interp, a, b):
        if isinstance(a, P.SymConstType) and isinstance(b, P.SymConstType):
            return typeclass(a.c) == typeclass(b.c)
        if isinstance(a, SymConst) and isinstance(b, SymConst):
            return z3.Bool('pyeq_%s_%s' % (a.name, b.name))
        return prev_equal(interp, a, b)
    models.equal = equal
    models._symconst_pair = True


def task_literal_tokens():
    """C12 (arithmetic sink): printing BinOp / UnaryOp(USub) over number / True / False / None constants with ExpressionPrinter emits only
    number tokens, operator symbols, parentheses and the keywords True / False / None — never an identifier, a string or a call."""
    P.install_symconst_type_support()
    EPc, MPc, FVc = P.printer_classes()
    obs = []
    name = 'C12/folding/literal-tree-prints-only-literal-tokens'
    notes = []
    for tag, method in (('BinOp', 'visit_BinOp'), ('UnaryOp', 'visit_UnaryOp'), ('Constant', 'visit_Constant')):
        def run(ctx, tag=tag, method=method):
            policy = P.FStringAwarePolicy()
            interp = Interp(ctx, policy=policy)
            P.install_hooks(interp, policy, EPc)
            root = ctx.new_node({tag}, name='root')
            policy.root = root
            policy.root_method = method
            selfo = interp.instantiate(EPc, [], {})
            if tag == 'Constant':
                v = interp.getattr(root, 'value')
                ctx.assume(is_numlike(v))
            if tag == 'UnaryOp':
                ctx.assume(ctx.data(interp.getattr(root, 'op')).tagvar == tag_const('USub'))
            try:
                interp.call(interp.getattr(selfo, method), [root], {})
            except Raised as e:
                ctx.check(name + '[%s]/no-exception' % tag, False, detail=repr(e.exc))
                return
            for t in policy.tokens:
                if t.kind in ('child', 'opnode'):
                    continue     # sub-expressions are printed by these same three methods (structural induction); operators print symbols (C02)
                ok = t.kind in ('operator', 'delimiter', 'integer', 'floatnumber', 'imagnumber') or \
                    (t.kind == 'keyword' and isinstance(t.text, Opaque) and t.text.name == 'repr')
                if t.kind == 'delimiter':
                    ok = t.text in ('(', ')')
                ctx.check(name + '[%s]' % tag, ok, kind='pre@call', detail='token %r' % (t,))
        ex = Explorer()
        ex.explore(run)
        obs += [o.to_json() for o in ex.obligations]
        if ex.undecided_reason:
            obs.append({'name': name + '[%s]/engine' % tag, 'status': 'undecided', 'detail': ex.undecided_reason, 'model': {}, 'time_s': 0,
                        'backend': 'engine', 'path': None, 'kind': 'engine', 'goal': None})
        notes.append('%s: %d paths' % (tag, len(ex.paths)))
    return result(obs, [source.describe(P.EP + ':ExpressionPrinter.visit_BinOp'), source.describe(P.EP + ':ExpressionPrinter.visit_UnaryOp'),
                        source.describe(P.EP + ':ExpressionPrinter.visit_Constant')], ASSUMPTIONS, notes=notes)


def task_compare_ast_constants():
    """ast_compare.compare_ast on two Constant nodes with symbolic values: it returns normally only if value AND type agree (C02: 1, 1.0 and True are
    different constants; the f-string printer filters its candidate texts with this function)."""
    P.install_symconst_type_support()
    install_symconst_pair_support()
    mod = source.import_module('python_minifier.ast_compare')
    name = 'C02/L3/compare_ast'

    def run(ctx):
        policy = FoldPolicy() if 'FoldPolicy' in globals() else P.PrinterPolicy()
        interp = Interp(ctx, policy=policy)
        policy.interp = interp
        a = ctx.new_node({'Constant'}, name='left')
        b = ctx.new_node({'Constant'}, name='right')
        va, vb = interp.getattr(a, 'value'), interp.getattr(b, 'value')
        # kind is a free string-or-None field that compare_ast skips for constants
        raised = None
        try:
            interp.call(interp.wrap(mod.compare_ast), [a, b], {})
        except Raised as e:
            raised = e.exc
        norm = lambda k: z3.If(k == 2, z3.IntVal(1), k)        # True and False are both bool
        same_kind = norm(va.kind) == norm(vb.kind)
        if raised is None:
            ctx.check(name + '/constants-accepted-only-when-their-types-agree', same_kind, kind='post',
                      detail='compare_ast(Constant(x), Constant(y)) returned normally')
        else:
            ctx.check(name + '/cover-rejected', True, kind='cover')
    ex = Explorer(max_paths=3000)
    ex.explore(run)
    res = result([o.to_json() for o in ex.obligations], [source.describe('python_minifier.ast_compare:compare_ast')], ASSUMPTIONS)
    if ex.undecided_reason:
        res['obligations'].append({'name': name + '/engine', 'status': 'undecided', 'detail': ex.undecided_reason, 'model': {}, 'time_s': 0, 'backend': 'engine', 'path': None,
                                   'kind': 'engine', 'goal': None})
    res['notes'].append('%s: %d feasible paths' % (name, len([p for p in ex.paths if p[0] == 'ok'])))
    return res
