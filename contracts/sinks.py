"""Contracts for C12: minifying never runs code taken from the input.

1. Sink inventory (every run): every call of eval/exec/compile/__import__/open/getattr/setattr/... and every import of a module that can
   run code or touch files, processes or the network, anywhere in the package, must be one of the contracted sites below.
2. String sinks: the text handed to eval() by ministring.MiniString and f_string.Str / f_string.Bytes is exactly a sequence of complete
   string/bytes literal tokens (and single spaces).  Proved with the string-literal lexer as a DFA: the per-character loops are analysed
   for one arbitrary iteration with a symbolic character (any code point), and the chunk appended in that iteration must keep the lexer
   inside the literal (never closes the quote, never ends in a dangling backslash).
3. The arithmetic sink safe_eval is covered in contracts/folding.py (its argument is the printed form of a closed literal expression).
"""
import ast as pyast

import z3

from pyvc import source
from pyvc.engine import (ExcVal, Explorer, Native, Obj, Opaque, Raised, SymStr, Undecided, mkstr)
from pyvc.interp import PROCEED, Interp, Policy
from pyvc.runner import result

MS = 'python_minifier.ministring'
FS = 'python_minifier.f_string'

ASSUMPTIONS = [
    'string-literal lexer (language reference 2.4.1) as a DFA: inside a literal the closing quote ends it, a backslash takes the next '
    'character, a raw newline inside a short literal is an error (not code); a text that is a complete literal token contains no NAME, '
    'call or operator token',
    'ast.parse / compile(mode=eval of a literal) do not execute code; format(n, "04x"/"08x") yields hex digits only',
    'f_string.Str / f_string.Bytes are constructed with allowed_quotes = [\'"\', "\'", \'"""\', "\'\'\'"] and pep701=True (what '
    'OuterFString passes on CPython 3.12; checked at the construction sites)',
]

DANGEROUS_NAMES = {'eval', 'exec', 'compile', '__import__', 'open', 'getattr', 'setattr', 'delattr', 'globals', 'locals', 'vars', 'input',
                   'breakpoint', 'execfile', 'literal_eval', 'exit', 'quit'}
DANGEROUS_MODULES = {'os', 'subprocess', 'importlib', 'socket', 'ctypes', 'pickle', 'marshal', 'shutil', 'runpy', 'code', 'pty', 'urllib',
                     'http', 'multiprocessing', 'threading', 'tempfile', 'pathlib', 'glob', 'io', 'pkg_resources', 'signal', 'asyncio'}
SAFE_OS_ATTRS = {('os', 'path'), ('os', 'walk'), ('os', 'environ')}

# contracted sites: (module, enclosing function, callee) -> maximum number of occurrences and the required argument shape
ALLOWED = {
    ('ministring', 'MiniString.__str__', 'eval'): (2, 'self.quote + s + self.quote'),
    ('ministring', 'MiniBytes.__str__', 'eval'): (1, "'b' + self.quote + s + self.quote"),
    ('f_string', 'Str.__str__', 'eval'): (1, 's'),
    ('f_string', 'Bytes.__str__', 'eval'): (1, 's'),
    ('transforms/constant_folding', 'safe_eval', 'eval'): (1, 'expression, empty_globals, empty_locals'),
    ('ast_compat', 'Ellipsis.__new__', 'literal_eval'): (1, "'...'"),
    ('__main__', 'main', 'open'): (6, None),
    ('transforms/suite_transformer', 'NodeVisitor.visit', 'getattr'): (1, 'self, method, self.generic_visit'),
    ('transforms/suite_transformer', 'NodeVisitor.visit_Constant', 'getattr'): (1, 'self, method, self.generic_visit'),
    ('expression_printer', 'ExpressionPrinter.visit', 'getattr'): (1, 'self, method, self.visit_Unknown'),
    ('transforms/suite_transformer', 'SuiteTransformer.generic_visit', 'setattr'): (1, 'node, field, new_node'),
    ('rename/rename_literals', 'replace', 'setattr'): (1, 'parent, field, new_node'),
    ('ast_compat', '<module>', 'setattr'): (2, "self, 'value', value"),
    ('ast_compat', '<module>', 'globals'): (3, ''),
    ('ast_compare', 'compare_ast', 'getattr'): (5, None),      # field names come from the _fields of ast classes
    ('transforms/suite_transformer', 'SuiteTransformer.generic_visit', 'delattr'): (1, 'node, field'),
    ('rename/util', 'has_private_names', 'getattr'): (1, 'node, field, None'),     # field ranges over a literal list of four AST field names (checked below)
}


# package functions that hand their argument to a contracted eval sink and rely on a precondition of the CALLER (the argument is the printed form of a
# closed literal expression): every call of one of them is itself a sink site and needs its own entry (dunder methods are reached implicitly and their
# contracts hold for every string, so they are not listed)
WRAPPER_SINKS = sorted(set(f.split('.')[-1] for (m, f, c) in ALLOWED if c in ('eval', 'exec', 'compile') and not f.split('.')[-1].startswith('__')))
ALLOWED[('transforms/constant_folding', 'FoldConstants.visit_BinOp', 'safe_eval')] = (2, None)     # argument shape: contracts/folding.py (C12/evaluator precondition)


def _enclosing(fi, node):
    best = '<module>'
    for q, n in fi.by_qual.items():
        if isinstance(n, (pyast.FunctionDef, pyast.AsyncFunctionDef)) and n.lineno <= node.lineno <= n.end_lineno:
            if best == '<module>' or len(q) > len(best):
                best = q
    return best.replace('.<locals>.', '.')


def _ob(name, ok, detail='', kind='frame'):
    return {'name': name, 'status': 'proved' if ok else 'refuted', 'detail': detail, 'model': {}, 'time_s': 0.0, 'backend': 'eval',
            'path': None, 'kind': kind, 'goal': None}


def task_inventory():
    obs = []
    counts = {}
    samples = []
    for path in source.all_package_files():
        fi = source.file_info(path)
        mod = path[len(source.PKG) + 1:-3]
        imported = set()
        wrappers = set(WRAPPER_SINKS)
        for n in pyast.walk(fi.tree):
            if isinstance(n, pyast.Import):
                imported.update((a.asname or a.name).split('.')[0] for a in n.names)
            elif isinstance(n, pyast.ImportFrom):
                imported.update(a.asname or a.name for a in n.names)
                wrappers.update(a.asname for a in n.names if a.asname and (a.name in WRAPPER_SINKS or a.name in DANGEROUS_NAMES))     # a sink imported under another name
        for n in pyast.walk(fi.tree):
            if isinstance(n, pyast.Call):
                callee = None
                if isinstance(n.func, pyast.Name) and (n.func.id in DANGEROUS_NAMES or n.func.id in wrappers):
                    callee = n.func.id
                elif isinstance(n.func, pyast.Attribute) and n.func.attr in wrappers:
                    callee = n.func.attr
                elif isinstance(n.func, pyast.Attribute):
                    base = n.func.value
                    root = base
                    while isinstance(root, pyast.Attribute):
                        root = root.value
                    if isinstance(root, pyast.Name) and root.id in DANGEROUS_MODULES and root.id in imported:
                        chain = pyast.unparse(n.func)
                        if chain.startswith(('os.path.', 'os.walk', 'os.environ.get')):
                            if mod != '__main__':
                                callee = chain
                        else:
                            callee = chain
                    elif n.func.attr in ('system', 'popen', 'spawn', 'fork', 'exec', 'loads', 'load_module', 'import_module'):
                        callee = pyast.unparse(n.func)
                if callee is None:
                    continue
                func = _enclosing(fi, n)
                args = ', '.join(pyast.unparse(a) for a in n.args)
                if callee == 'getattr' and len(n.args) >= 2 and isinstance(n.args[1], pyast.Constant) and isinstance(n.args[1].value, str):
                    continue      # attribute access by a constant name
                key = (mod, func, callee)
                counts[key] = counts.get(key, 0) + 1
                allowed = ALLOWED.get(key)
                name = 'C12/inventory/%s:%s/%s#%d' % (mod, func, callee, counts[key])
                if allowed is None:
                    obs.append(_ob(name, False, 'uncontracted sink: %s(%s) at line %d' % (callee, args, n.lineno)))
                    continue
                ok = counts[key] <= allowed[0] and (allowed[1] is None or args == allowed[1])
                obs.append(_ob(name, ok, '%s(%s) at line %d; contracted shape: %s(%s), at most %d' % (callee, args, n.lineno, callee, allowed[1], allowed[0])))
                samples.append('%s:%s %s(%s)' % (mod, func, callee, args))
            elif isinstance(n, (pyast.Import, pyast.ImportFrom)):
                names = [a.name.split('.')[0] for a in n.names] if isinstance(n, pyast.Import) else [(n.module or '').split('.')[0]]
                for nm in names:
                    if nm in DANGEROUS_MODULES:
                        ok = (mod == '__main__' and nm in ('os', 'importlib', 'pkg_resources')) or (nm == 'os' and False)
                        obs.append(_ob('C12/inventory/%s/import-%s' % (mod, nm), ok, 'import of %s at line %d' % (nm, n.lineno)))
    # the computed names handed to getattr are 'visit_' + class name or a literal from a fixed table
    for spec, var in (('python_minifier.transforms.suite_transformer:NodeVisitor.visit', 'method'),
                      ('python_minifier.expression_printer:ExpressionPrinter.visit', 'method'),
                      ('python_minifier.transforms.suite_transformer:NodeVisitor.visit_Constant', 'method')):
        fi, node = source.find_def(spec)
        vals = []
        for a in pyast.walk(node):
            if isinstance(a, pyast.Assign) and isinstance(a.targets[0], pyast.Name) and a.targets[0].id == var:
                vals.append(pyast.unparse(a.value))
        ok = all(v == "'visit_' + node.__class__.__name__" or (v.startswith("'visit_") and v.endswith("'")) for v in vals) and vals
        obs.append(_ob('C12/inventory/%s/dispatch-name-is-visit_-plus-class-name' % spec.split(':')[1], bool(ok), repr(vals)))
    # has_private_names: the attribute name handed to getattr comes from a literal list of identifiers
    try:
        fi, node = source.find_def('python_minifier.rename.util:has_private_names')
        loops = [n for n in pyast.walk(node) if isinstance(n, pyast.For) and isinstance(n.target, pyast.Name) and n.target.id == 'field']
        ok = len(loops) == 1 and isinstance(loops[0].iter, pyast.List) and all(isinstance(e, pyast.Constant) and isinstance(e.value, str) and e.value.isidentifier()
                                                                                for e in loops[0].iter.elts)
        obs.append(_ob('C12/inventory/has_private_names/attribute-names-come-from-a-literal-list', bool(ok), pyast.unparse(loops[0].iter) if loops else 'no loop over field'))
    except source.MissingFunction:
        pass
    # MiniBytes is dead code: never referenced
    refs = 0
    for path in source.all_package_files():
        fi = source.file_info(path)
        for n in pyast.walk(fi.tree):
            if isinstance(n, pyast.Name) and n.id == 'MiniBytes':
                refs += 1
            if isinstance(n, pyast.alias) and n.name == 'MiniBytes':
                refs += 1
    obs.append(_ob('C12/inventory/MiniBytes-is-unreferenced', refs == 0, '%d references' % refs))
    # construction sites fix the quote list
    fi, node = source.find_def(FS + ':OuterFString.__init__')
    lit = [pyast.unparse(a) for n in pyast.walk(node) if isinstance(n, pyast.Call) for a in n.args if isinstance(a, pyast.List)]
    obs.append(_ob('C12/pre/OuterFString-passes-the-four-quotes', lit == ["['\"', \"'\", '\"\"\"', \"'''\"]"], repr(lit), kind='pre@call'))
    return result(obs, [source.describe(MS + ':MiniString.__str__'), source.describe(FS + ':Str.__str__'),
                        source.describe(FS + ':Bytes.__str__'),
                        source.describe('python_minifier.transforms.constant_folding:safe_eval')], ASSUMPTIONS, samples=samples[:20])


# ---------------------------------------------------------------------------------------------------------------------
# lexer DFA over appended chunks


class Lex(object):
    """Simulates the string-literal lexer over a list of parts; symbolic characters become obligations."""

    def __init__(self, ctx, quote, name, bytes_mode=False):
        self.ctx = ctx
        self.q = quote[0]
        self.long = len(quote) == 3
        self.state = 'IN'
        self.name = name
        self.ok = True
        self.why = ''

    def feed_concrete(self, text):
        for ch in text:
            if self.state == 'ESC':
                self.state = 'IN'
                continue
            if ch == '\\':
                self.state = 'ESC'
            elif ch == self.q:
                self.ok = False
                self.why = 'a raw quote character %r closes (or may close) the literal' % ch
            elif ch in '\n\r' and not self.long:
                self.ok = False
                self.why = 'raw newline in a short literal'

    def feed_char(self, c, label):
        """c: z3 String of length 1 (any code point)"""
        if self.state == 'ESC':
            self.state = 'IN'
            return
        conds = [c != z3.StringVal(self.q), c != z3.StringVal('\\')]
        if not self.long:
            conds += [c != z3.StringVal('\n'), c != z3.StringVal('\r')]
        self.ctx.check(self.name + '/raw-character-stays-inside-the-literal', z3.And(conds), kind='inv.step',
                       detail='a character appended unescaped must not be the quote, a backslash%s (%s)' % ('' if self.long else ' or a newline', label))

    def feed(self, part, policy):
        if isinstance(part, str):
            self.feed_concrete(part)
        elif z3.is_expr(part):
            self.feed_char(part, part.sexpr()[:40])
        elif isinstance(part, Opaque) and part.name in ('hexdigits',):
            self.feed_concrete('0')
        else:
            self.ok = False
            self.why = 'uninterpreted chunk %r' % (part,)

    def end_ok(self):
        return self.ok and self.state == 'IN'


class CharPolicy(Policy):
    """Strings are iterated character by character: an arbitrary character is a z3 String of length 1."""

    def __init__(self):
        self.chars = {}

    def loop_scheme(self, interp, loop_id, s):
        return 'generic'

    def iterate(self, interp, it):
        ctx = interp.ctx
        if z3.is_expr(it) and z3.is_string(it):
            def elem(key, it=it):
                from pyvc.interp import _keyname
                c = z3.String('ch_%s' % _keyname(key))
                ctx.assume(z3.Length(c) == 1)
                return c
            return 'sym', (z3.Length(it), elem)
        if isinstance(it, Opaque) and it.sort == 'bytesval':
            def belem(key):
                from pyvc.interp import _keyname
                b = z3.Int('byte_%s' % _keyname(key))
                ctx.assume(z3.And(b >= 0, b <= 255))
                # Bytes.__str__ raises before iterating when the value contains a NUL or a backslash (checked in its own task)
                ctx.assume(z3.And(b != 0, b != 92))
                return b
            n = z3.Int('len_bytes')
            ctx.assume(n >= 0)
            return 'sym', (n, belem)
        return PROCEED

    def call_builtin(self, interp, py, args, kwargs):
        if py is ord and z3.is_expr(args[0]):
            return z3.StrToCode(args[0])
        if py is format and len(args) == 2 and args[1] in ('04x', '08x'):
            return SymStr((Opaque('hexdigits', (args[0], args[1]), sort='str'),))
        if py is chr and z3.is_expr(args[0]) and z3.is_int(args[0]):
            c = z3.String('chr_' + args[0].sexpr().replace(' ', '_')[:30])
            interp.ctx.assume(z3.Length(c) == 1)
            interp.ctx.assume(z3.StrToCode(c) == args[0])
            return c
        return PROCEED

    def getitem(self, interp, v, idx):
        ctx = interp.ctx
        if isinstance(v, Obj) and ctx.data(v).kind == 'dict' and z3.is_expr(idx):
            items = ctx.data(v).items
            for k in list(items):
                if ctx.branch(idx == interp.to_z3(k)):
                    return items[k]
            raise Raised(ExcVal(KeyError, (idx,)))
        if isinstance(v, str) and idx == 0:
            return v[0]
        return PROCEED


def loop_chunk(value):
    """The text appended in the analysed (arbitrary) iteration: parts after the havoc'd prefix."""
    if value == '':
        return 'empty', []
    if isinstance(value, SymStr) and value.parts and isinstance(value.parts[0], Opaque) and value.parts[0].name.startswith('hv_'):
        return 'chunk', list(value.parts[1:])
    if isinstance(value, str):
        return 'concrete', [value]
    return 'other', list(value.parts) if isinstance(value, SymStr) else [value]


def task_ministring(method, quote, safe_mode):
    ms = source.import_module(MS)
    name = 'C12/MiniString.%s[%s%s]' % (method, {"'": 'single', '"': 'double', "'''": 'triple-single', '"""': 'triple-double'}[quote],
                                        ',safe' if safe_mode else '')
    pruned = set()

    def run(ctx):
        policy = CharPolicy()
        interp = Interp(ctx, policy=policy)
        s = z3.String('input_string')
        o = interp.instantiate(ms.MiniString, [s, quote], {})
        ctx.data(o).fields['safe_mode'] = safe_mode
        r = interp.call(interp.getattr(o, method), [], {})
        kind, parts = loop_chunk(r)
        if kind == 'empty':
            ctx.check(name + '/empty-input-gives-empty-body', True, kind='inv.init')
            return
        ctx.check(name + '/result-is-prefix-plus-one-chunk', kind == 'chunk', kind='inv.step', detail='returned %r' % (r,))
        if kind != 'chunk':
            return
        lex = Lex(ctx, quote, name)
        for p in parts:
            lex.feed(p, policy)
        ctx.check(name + '/appended-chunk-keeps-the-lexer-inside-the-literal', lex.end_ok(), kind='inv.step',
                  detail='chunk %r: %s' % (parts, lex.why or ('ends in state ' + lex.state)))
        pruned.update(interp.pruned)
    ex = Explorer()
    ex.explore(run)
    return _finish(ex, name, [source.describe('%s:MiniString.%s' % (MS, method))], pruned)


def _finish(ex, name, fns, pruned=()):
    res = result([o.to_json() for o in ex.obligations], fns, ASSUMPTIONS, pruned=sorted(pruned))
    if ex.undecided_reason:
        res['obligations'].append({'name': name + '/engine', 'status': 'undecided', 'detail': ex.undecided_reason, 'model': {}, 'time_s': 0,
                                   'backend': 'engine', 'path': None, 'kind': 'engine', 'goal': None})
    ok = len([p for p in ex.paths if p[0] == 'ok'])
    res['notes'].append('%s: %d feasible paths' % (name, ok))
    if ok == 0 and not ex.undecided_reason:
        res['obligations'].append({'name': name + '/cover', 'status': 'undecided', 'detail': 'vacuous', 'model': {}, 'time_s': 0,
                                   'backend': 'engine', 'path': None, 'kind': 'cover', 'goal': None})
    return res


def task_ministring_str():
    """MiniString.__str__: what reaches eval() is quote + body + quote with body produced by to_short / to_long (by contract)."""
    ms = source.import_module(MS)
    name = 'C12/MiniString.__str__'
    import builtins

    def run(ctx):
        policy = CharPolicy()
        interp = Interp(ctx, policy=policy)
        s = z3.String('input_string')
        qi = ctx.choose(4, 'quote')
        quote = ["'", '"', "'''", '"""'][qi]
        o = interp.instantiate(ms.MiniString, [s, quote], {})
        bodies = []
        sinks = []

        def body_hook(which):
            def h(it, f, args, kwargs):
                b = Opaque('body_%s_%d' % (which, len(bodies)), sort='str')
                bodies.append((which, b))
                return SymStr((b,))
            return h
        interp.hooks[MS + ':MiniString.to_short'] = body_hook('short')
        interp.hooks[MS + ':MiniString.to_long'] = body_hook('long')

        def eval_model(it, args, kwargs):
            sinks.append(args)
            if ctx.branch(z3.Bool(ctx.fresh('eval_raises_unicode_error'))):
                raise Raised(ExcVal(UnicodeEncodeError, ('eval',)))
            return Opaque('evaluated', (args[0],), sort=None)
        interp.natives[builtins.eval] = eval_model
        policy.str_equal = lambda it, a, b: PROCEED
        try:
            r = interp.call(interp.getattr(o, '__str__'), [], {})
        except Raised as e:
            r = None
        except Undecided as e:
            if 'opaque' in str(e) or 'between' in str(e):
                r = None     # the comparison of the evaluated literal with the input: only reached after the sink
            else:
                raise
        for i, a in enumerate(sinks):
            ok = len(a) == 1 and isinstance(a[0], SymStr) and len(a[0].parts) == 3 and a[0].parts[0] == quote and a[0].parts[2] == quote \
                and isinstance(a[0].parts[1], Opaque) and a[0].parts[1].name.startswith('body_' + ('short' if len(quote) == 1 else 'long'))
            ctx.check(name + '/sink-text-is-quote-body-quote', bool(ok), kind='pre@call', detail='eval(%r)' % (a,))
            ctx.check(name + '/sink-has-no-namespace-argument-from-input', len(a) == 1, kind='pre@call')
    ex = Explorer()
    ex.explore(run)
    return _finish(ex, name, [source.describe(MS + ':MiniString.__str__')])


QUOTES = ['"', "'", '"""', "'''"]


class LiteralsPolicy(CharPolicy):
    """Loop-head state of Str._literals / Bytes._literals for an arbitrary iteration, as given by the loop invariant:
    `literal` is '' or an OPEN literal (current_quote + safe body), and then current_quote is that quote."""

    def __init__(self, ctx, bytes_mode):
        CharPolicy.__init__(self)
        self.bytes_mode = bytes_mode
        self.head_literal_open = None
        self.head_quote = None
        self.yielded = []

    def havoc(self, interp, v, base, loop_id, obj, field):
        ctx = interp.ctx
        if base == 'loc_literal':
            self.head_literal_open = ctx.branch(z3.Bool('literal_is_open_at_loop_head'))
            if self.head_literal_open:
                return SymStr((Opaque('hv_open_literal', sort='nonempty_str'),))
            return ''
        if field == 'current_quote':
            n = 4 if self.head_literal_open else 5
            i = ctx.choose(n, 'head_quote')
            self.head_quote = None if i == 4 else QUOTES[i]
            return self.head_quote
        return PROCEED

    def str_equal(self, interp, a, b):
        sym, lit = (a, b) if isinstance(a, SymStr) else (b, a)
        if isinstance(sym, SymStr) and lit == '':
            return False
        return PROCEED

    def on_yield(self, interp, value):
        self.yielded.append((value, self.head_quote, interp.ctx.data(self.obj).fields.get('current_quote')))


def flatten(parts):
    out = []
    for p in parts:
        if isinstance(p, str):
            out.extend(list(p))
        else:
            out.append(p)
    return out


def check_complete_literal(ctx, name, value, head_quote, bytes_mode):
    """value = [open-literal prefix]? chars... : must be  (b)? q body q  with body keeping the lexer inside the literal."""
    parts = list(value.parts) if isinstance(value, SymStr) else [value]
    items = flatten(parts)
    if items and isinstance(items[0], Opaque) and items[0].name == 'hv_open_literal':
        q = head_quote
        if q is None:
            return False, 'an open literal without a current quote'
        items = items[1:]
    else:
        if bytes_mode:
            if not items or items[0] != 'b':
                return False, 'bytes literal does not start with the b prefix'
            items = items[1:]
        q = None
        for cand in ('"""', "'''", '"', "'"):
            if items[:len(cand)] == list(cand):
                q = cand
                break
        if q is None:
            return False, 'literal does not start with a quote'
        items = items[len(q):]
    if items[-len(q):] != list(q):
        return False, 'literal does not end with its opening quote %r' % q
    body = items[:-len(q)]
    lex = Lex(ctx, q, name)
    for it in body:
        if isinstance(it, str):
            lex.feed_concrete(it)
        elif z3.is_expr(it):
            lex.feed_char(it, 'quote %r' % q)
        else:
            return False, 'uninterpreted part %r' % (it,)
    if not lex.end_ok():
        return False, lex.why or 'ends with a dangling backslash'
    return True, ''


def task_fstr_literals(cls):
    fs = source.import_module(FS)
    name = 'C12/f_string.%s._literals' % cls
    pruned = set()

    def run(ctx):
        policy = LiteralsPolicy(ctx, cls == 'Bytes')
        interp = Interp(ctx, policy=policy)
        if cls == 'Str':
            inp = z3.String('input_string')
            o = interp.instantiate(fs.Str, [inp, list(QUOTES), True], {})
        else:
            inp = Opaque('input_bytes', sort='bytesval')
            o = interp.instantiate(fs.Bytes, [inp, list(QUOTES)], {})
        policy.obj = o
        # entry state of the generator as set by __str__: current_quote is one of the allowed quotes
        i = ctx.choose(4, 'start_quote')
        ctx.data(o).fields['current_quote'] = QUOTES[i]
        # make sure the field counts as written inside the loop from the first round on
        ctx.explorer.loop_writes.setdefault('%s:%s._literals@%s' % (FS, cls, 'seed'), set())
        interp.call(interp.getattr(o, '_literals'), [], {})
        pruned.update(interp.pruned)
        for value, head_quote, _now in policy.yielded:
            ok, why = check_complete_literal(ctx, name, value, head_quote, cls == 'Bytes')
            ctx.check(name + '/every-yield-is-one-complete-literal', ok, kind='inv.step', detail='%r (quote at loop head %r): %s' % (value, head_quote, why))
        ctx.check(name + '/cover-some-yield-or-empty', True, kind='cover')
    ex = Explorer()
    ex.explore(run)
    fns = [source.describe('%s:%s.%s' % (FS, cls, m)) for m in ('_literals', '_can_quote', '_get_quote')]
    return _finish(ex, name, fns, pruned)


def task_fstr_str(cls):
    """Str.__str__ / Bytes.__str__: eval() receives complete literals joined by optional single spaces."""
    fs = source.import_module(FS)
    name = 'C12/f_string.%s.__str__' % cls
    import builtins

    def run(ctx):
        policy = CharPolicy()
        interp = Interp(ctx, policy=policy)
        if cls == 'Str':
            inp = z3.String('input_string')
            ctx.assume(z3.Length(inp) > 0)
            o = interp.instantiate(fs.Str, [inp, list(QUOTES), True], {})
        else:
            inp = Opaque('input_bytes', sort='bytesval')
            o = interp.instantiate(fs.Bytes, [inp, list(QUOTES)], {})
        sinks = []
        guards = []

        def literals_hook(it, f, args, kwargs):
            lst = ctx.new_obj('list', name=ctx.fresh('literals'))
            ld = ctx.data(lst)
            ld.items = {}
            ld.symlen = z3.Int(ctx.fresh('n_literals'))
            ctx.assume(ld.symlen >= 1)     # a non-empty input ends with an open literal, which the generator closes and yields
            from pyvc.interp import _keyname
            ld.elem_factory = lambda key: SymStr((Opaque('LIT_%s_%s' % (ld.name, _keyname(key)), sort='nonempty_str'),))
            return lst
        interp.hooks['%s:%s._literals' % (FS, cls)] = literals_hook

        def eval_model(it, args, kwargs):
            sinks.append(args)
            return Opaque('evaluated', sort=None)
        interp.natives[builtins.eval] = eval_model

        class P(CharPolicy):
            def getitem(self, it, v, idx):
                if isinstance(v, SymStr) and idx in (0, -1):
                    p = v.parts[idx]
                    if isinstance(p, str):
                        return p[idx]
                    return Opaque('char_%d_of_%s' % (idx, getattr(p, 'name', 'x')), sort='char')
                return CharPolicy.getitem(self, it, v, idx)

            def str_equal(self, it, a, b):
                if isinstance(a, Opaque) or isinstance(b, Opaque):
                    return z3.Bool(ctx.fresh('same_quote_char'))
                sym, lit = (a, b) if isinstance(a, SymStr) else (b, a)
                if isinstance(sym, SymStr) and isinstance(lit, str) and lit == '':
                    return False
                return PROCEED

            def contains(self, it, container, item):
                if isinstance(container, Opaque) and container.sort == 'bytesval':
                    guards.append(item)
                    return z3.Bool(ctx.fresh('bytes_contains'))
                return PROCEED

            def equal_opaque(self, it, a, b):
                if (isinstance(a, Opaque) and a.sort == 'bytesval') or (isinstance(b, Opaque) and b.sort == 'bytesval'):
                    return z3.Bool(ctx.fresh('bytes_is_empty'))
                if (isinstance(a, Opaque) and a.sort == 'char') or (isinstance(b, Opaque) and b.sort == 'char'):
                    return z3.Bool(ctx.fresh('same_quote_char'))
                return PROCEED

            def havoc(self, it, v, base, loop_id, obj, field):
                if base == 'loc_s':
                    if ctx.branch(z3.Bool(ctx.fresh('s_is_empty_at_loop_head'))):
                        return ''
                    return SymStr((Opaque('hv_literal_sequence', sort='nonempty_str'),))
                return PROCEED
        interp.policy = P()
        try:
            interp.call(interp.getattr(o, '__str__'), [], {})
        except Raised:
            pass
        except Undecided as e:
            if not sinks:
                raise
        for a in sinks:
            ok = len(a) == 1
            parts = list(a[0].parts) if ok and isinstance(a[0], SymStr) else ([a[0]] if ok else [])
            why = ''
            for i, p in enumerate(parts):
                if isinstance(p, Opaque) and (p.name.startswith('LIT_') or (p.name == 'hv_literal_sequence' and i == 0)):
                    continue
                if p == ' ' and 0 < i < len(parts) - 1:
                    continue
                ok = False
                why = 'part %r is neither a complete literal nor a separating space' % (p,)
            ctx.check(name + '/sink-text-is-literals-and-single-spaces', bool(ok) and len(parts) >= 1, kind='pre@call', detail='eval(%r) %s' % (a, why))
        if cls == 'Bytes' and sinks:
            ctx.check(name + '/rejects-backslash-and-nul-before-the-sink', b'\\' in guards and b'\0' in guards, kind='pre@call',
                      detail='membership tests made before eval: %r' % (guards,))
        ctx.check(name + '/reached', True, kind='cover')
    ex = Explorer()
    ex.explore(run)
    return _finish(ex, name, [source.describe('%s:%s.__str__' % (FS, cls))])
