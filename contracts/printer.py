"""Contracts for the printers (C02 layers L2/L3-dispatch, C08 totality): expression_printer.py, module_printer.py, f_string.FormattedValue.

One run per printer method, for a symbolic node of the method's class with symbolic children.  TokenPrinter methods are called by
contract (they only append a token to the ghost stream; their bodies are verified in contracts/tokens.py).  Recursive printing of a
child is a contract call that appends a `child` event; the obligation for every such event is

    wrapped-in-parentheses  OR  level(printed form of the child)  >=  what the (parent, slot) accepts        (spec/grammar_levels.py)

which is the inductive step of "the text parses back to the same tree", for all node classes, operators and nesting depths.
"""
import ast as real_ast
import os

import z3

from pyvc import source
from pyvc.engine import (Bound, ExcVal, Explorer, Native, Obj, Opaque, Raised, SrcFunc, SymStr, Undecided, tag_const, tag_universe,
                         tags_of_class)
from pyvc.interp import PROCEED, Interp, Policy, SymConst
from pyvc.runner import result
from spec import grammar_levels as G

EP = 'python_minifier.expression_printer'
MP = 'python_minifier.module_printer'
TP = 'python_minifier.token_printer'
FS = 'python_minifier.f_string'

TOKEN_METHODS = ('identifier', 'keyword', 'stringliteral', 'bytesliteral', 'fstring', 'delimiter', 'operator', 'integer', 'imagnumber',
                 'floatnumber', 'newline', 'enter_block', 'leave_block', 'end_statement', 'append')
INLINE_HELPERS = ('_expression', '_testlist', '_exprlist', '_lhs', '_rhs', 'precedence', '_is_left_associative', '_is_right_associative',
                  'pattern', 'key_datum')
OPERATOR_TAGS = tags_of_class((real_ast.operator, real_ast.unaryop, real_ast.boolop, real_ast.cmpop))
L5_UNREAD = object()
L5_IGNORED = {'ctx', 'kind', 'type_comment', 'type_ignores', 'lineno', 'col_offset', 'end_lineno', 'end_col_offset',
              ('BoolOp', 'op')}     # BoolOp.op is printed between the values inside the loop (absent in the arbitrary FIRST iteration); symbol by visit_<Op>
COMPOUND_TAGS = {'If', 'For', 'AsyncFor', 'While', 'Try', 'TryStar', 'With', 'AsyncWith', 'FunctionDef', 'AsyncFunctionDef', 'ClassDef', 'Match'}
EXPR_TAGS = tags_of_class(real_ast.expr)

OP_SYMBOLS = {
    'Add': [('operator', '+')], 'Sub': [('operator', '-')], 'Mult': [('operator', '*')], 'Div': [('operator', '/')],
    'FloorDiv': [('operator', '//')], 'Mod': [('operator', '%')], 'Pow': [('operator', '**')], 'LShift': [('operator', '<<')],
    'RShift': [('operator', '>>')], 'BitOr': [('operator', '|')], 'BitXor': [('operator', '^')], 'BitAnd': [('operator', '&')],
    'MatMult': [('operator', '@')], 'UAdd': [('operator', '+')], 'USub': [('operator', '-')], 'Invert': [('operator', '~')],
    'Not': [('keyword', 'not')], 'And': [('keyword', 'and')], 'Or': [('keyword', 'or')], 'Eq': [('operator', '==')],
    'NotEq': [('operator', '!=')], 'Lt': [('operator', '<')], 'LtE': [('operator', '<=')], 'Gt': [('operator', '>')],
    'GtE': [('operator', '>=')], 'Is': [('keyword', 'is')], 'IsNot': [('keyword', 'is'), ('keyword', 'not')], 'In': [('keyword', 'in')],
    'NotIn': [('keyword', 'not'), ('keyword', 'in')],
}

ASSUMPTIONS = [
    'spec/grammar_levels.py: expression levels and slot requirements written from Grammar/python.gram (trusted oracle; the binary '
    'operator rows are re-derived from /usr/src/python3.11/Grammar/python.gram when present)',
    'trees come from ast.parse of the running interpreter: list fields are lists, Compare.ops is non-empty, Slice nodes occur only '
    'under Subscript.slice or a Tuple that is a Subscript.slice, pattern value nodes are the restricted forms the parser produces',
    'distinct positions of the tree are distinct objects (no aliasing between a node and its siblings)',
    'TokenPrinter methods are used by contract in this group (they append exactly their token); verified in contracts/tokens.py',
    '"wrapped" is recognised as three consecutive statements delimiter("(") / print child / delimiter(")") in one block of the real '
    'source; a refactoring of that idiom makes obligations undecided or spurious (replay decides), never silently proved',
]


class Tok(object):
    __slots__ = ('kind', 'text', 'stack', 'obj', 'via', 'kwargs')

    def __init__(self, kind, text, stack, obj=None, via=None, kwargs=None):
        self.kind = kind
        self.text = text
        self.stack = stack
        self.obj = obj
        self.via = via
        self.kwargs = kwargs or {}

    def __repr__(self):
        if self.kind == 'child':
            return '<child %r via %s>' % (self.obj, self.via)
        return '<%s %r>' % (self.kind, self.text)


class PrinterPolicy(Policy):
    def __init__(self):
        self.tokens = []
        self.root = None
        self.root_method = None
        self.interp = None

    def stack(self):
        return [(id(fr), id(fr.block), fr.index) for fr in self.interp.frames]

    # -- node attribute policy ------------------------------------------------------------------------------------------
    def attr(self, interp, obj, name):
        if isinstance(obj, Obj):
            d = interp.ctx.data(obj)
            if d.kind == 'node' and name in ('n', 's') and d.tags == {'Constant'}:
                return interp.getattr(obj, 'value')
        return PROCEED

    def child_classes(self, interp, parent, field, index, classes):
        # shapes the parser never produces
        d = interp.ctx.data(parent)
        classes = set(classes)
        if not (classes & EXPR_TAGS):
            return classes
        K = d.tags
        if not (K <= {'Subscript'} and field == 'slice') and not (K <= {'Tuple'} and field == 'elts'):
            classes.discard('Slice')
        if not (K <= {'JoinedStr'} and field == 'values'):
            classes.discard('FormattedValue')
        target_slots = {('NamedExpr', 'target'): {'Name'}, ('AugAssign', 'target'): {'Name', 'Attribute', 'Subscript'},
                        ('AnnAssign', 'target'): {'Name', 'Attribute', 'Subscript'},
                        ('Delete', 'targets'): {'Name', 'Attribute', 'Subscript', 'Tuple', 'List'},
                        ('For', 'target'): {'Name', 'Attribute', 'Subscript', 'Tuple', 'List'},
                        ('AsyncFor', 'target'): {'Name', 'Attribute', 'Subscript', 'Tuple', 'List'},
                        ('comprehension', 'target'): {'Name', 'Attribute', 'Subscript', 'Tuple', 'List'},
                        ('withitem', 'optional_vars'): {'Name', 'Attribute', 'Subscript', 'Tuple', 'List'},
                        ('Assign', 'targets'): {'Name', 'Attribute', 'Subscript', 'Tuple', 'List'},
                        ('MatchClass', 'cls'): {'Name', 'Attribute'}, ('TypeAlias', 'name'): {'Name'}}
        if len(K) == 1 and (list(K)[0], field) in target_slots:
            return classes & target_slots[(list(K)[0], field)]
        starred_ok = (K <= {'Call'} and field == 'args') or (K <= {'List', 'Tuple', 'Set'} and field == 'elts') or \
            (K <= {'ClassDef'} and field == 'bases') or (K <= {'arg'} and field == 'annotation')
        if not starred_ok:
            classes.discard('Starred')
        return classes

    def optional(self, interp, obj, name):
        d = interp.ctx.data(obj)
        if d.tags <= {'ImportFrom'} and name == 'level':
            return False      # the parser always sets level (0 for absolute imports)
        return True

    def loop_scheme(self, interp, loop_id, s):
        return 'generic'

    def elem_optional(self, interp, parent, field):
        d = interp.ctx.data(parent)
        return (d.tags == {'Dict'} and field == 'keys') or (d.tags == {'arguments'} and field == 'kw_defaults')

    def list_created(self, interp, obj, name, lst):
        ctx = interp.ctx
        d = ctx.data(obj)
        ld = ctx.data(lst)
        # validity of parser-produced trees
        if d.tags <= {'Compare'} and name in ('ops', 'comparators'):
            ctx.assume(ld.symlen >= 1)
            other = d.fields.get('comparators' if name == 'ops' else 'ops')
            if other is not None:
                ctx.assume(ctx.data(other).symlen == ld.symlen)
        if d.tags <= {'BoolOp'} and name == 'values':
            ctx.assume(ld.symlen >= 2)
        if d.tags & {'Import', 'ImportFrom', 'Global', 'Nonlocal'} and name == 'names':
            ctx.assume(ld.symlen >= 1)
        if d.tags <= {'Dict'} and name in ('keys', 'values'):
            other = d.fields.get('values' if name == 'keys' else 'keys')
            if other is not None:
                ctx.assume(ctx.data(other).symlen == ld.symlen)
        if d.tags <= {'arguments'} and name in ('kwonlyargs', 'kw_defaults'):
            other = d.fields.get('kw_defaults' if name == 'kwonlyargs' else 'kwonlyargs')
            if other is not None:
                ctx.assume(ctx.data(other).symlen == ld.symlen)
        if d.tags <= {'arguments'} and name == 'defaults':
            pass

    def getitem(self, interp, v, idx):
        # node.defaults[i - count_no_defaults], node.kw_defaults[i]: an arbitrary element
        ctx = interp.ctx
        if isinstance(v, Obj) and ctx.data(v).kind == 'list' and ctx.data(v).symlen is not None and z3.is_expr(idx):
            return interp.list_elem(v, ('at', z3.simplify(idx).sexpr()))
        return PROCEED

    def call_builtin(self, interp, py, args, kwargs):
        if py is repr and isinstance(args[0], SymConst):
            return Opaque('repr', (args[0],), sort='str')
        if py is type and isinstance(args[0], SymConst):
            return SymConstType(args[0])
        return PROCEED

    def havoc(self, interp, v, base, loop_id, obj, field):
        return PROCEED


class SymConstType(object):
    def __init__(self, c):
        self.c = c


def install_symconst_type_support():
    """`type(node.value) in [type(None), type(True), type(False)]` for a symbolic constant."""
    from pyvc import models
    if getattr(models, '_symconst_patched', False):
        return
    orig_member = models._member
    orig_equal = models.equal

    def equal(interp, a, b):
        if isinstance(a, SymConstType) or isinstance(b, SymConstType):
            t, other = (a, b) if isinstance(a, SymConstType) else (b, a)
            if isinstance(other, Native) and isinstance(other.py, type):
                kinds = {type(None): [0], bool: [1, 2], int: [3], float: [4], complex: [5], str: [6], bytes: [7], type(Ellipsis): [8]}
                ks = kinds.get(other.py, [])
                if not ks:
                    return False
                return z3.Or([t.c.kind == k for k in ks])
            raise Undecided('type comparison')
        return orig_equal(interp, a, b)

    def member(interp, item, elems):
        if isinstance(item, SymConstType):
            conds = [equal(interp, item, e) for e in elems]
            conds = [c for c in conds if c is not False]
            if not conds:
                return False
            if any(c is True for c in conds):
                return True
            return z3.Or(conds)
        return orig_member(interp, item, elems)
    orig_identical = models.identical

    def identical(interp, a, b):
        if isinstance(a, SymConstType) and isinstance(b, SymConstType):
            # type(x) is type(y): True and False share the type bool
            norm = lambda k: z3.If(k == 2, z3.IntVal(1), k)
            return norm(a.c.kind) == norm(b.c.kind)
        return orig_identical(interp, a, b)
    models.equal = equal
    models._member = member
    models.identical = identical
    models._symconst_patched = True


# ---------------------------------------------------------------------------------------------------------------------
# hooks


def printer_classes():
    ep = source.import_module(EP)
    mp = source.import_module(MP)
    fs = source.import_module(FS)
    return ep.ExpressionPrinter, mp.ModulePrinter, fs.FormattedValue


def install_hooks(interp, policy, receiver_cls):
    policy.interp = interp
    ctx = interp.ctx

    def tok_hook(name):
        def h(it, f, args, kwargs):
            selfv = args[0]
            a = args[1:] if len(args) > 1 else []
            policy.tokens.append(Tok(name, a[0] if a else None, policy.stack(), kwargs={'args': a, 'quals': [fr.func.qual for fr in it.frames]}))
            if name == 'append':
                pass
            return None
        return h
    for name in TOKEN_METHODS:
        interp.hooks['%s:TokenPrinter.%s' % (TP, name)] = tok_hook(name)

    def node_hook(via):
        def h(it, f, args, kwargs):
            if len(args) < 2:
                return PROCEED
            node = args[1]
            if not isinstance(node, Obj):
                if via == '_suite' or via == '_suite_body':
                    policy.tokens.append(Tok('suite', None, policy.stack(), obj=node, via=via))
                    return None
                return PROCEED
            d = ctx.data(node)
            if d.kind == 'list':
                policy.tokens.append(Tok('suite', None, policy.stack(), obj=node, via=via))
                return None
            if node == policy.root and (via == policy.root_method or via.startswith('visit_')):
                # the method under contract itself, or a delegation on the same node (visit_AsyncFor -> visit_For)
                return PROCEED
            if via == 'visit' and d.kind == 'node' and d.tags <= OPERATOR_TAGS:
                # operator symbols: by contract here (one token), each visit_<Op> is verified as its own function under contract
                policy.tokens.append(Tok('opnode', None, policy.stack(), obj=node, via=via))
                return None
            if via.startswith('visit_') and via[6:] in OPERATOR_TAGS:
                return PROCEED
            policy.tokens.append(Tok('child', None, policy.stack(), obj=node, via=via, kwargs=dict(kwargs, extra=args[2:])))
            return None
        return h
    seen = set()
    for k in receiver_cls.__mro__:
        if not k.__module__.startswith('python_minifier'):
            continue
        for name, raw in k.__dict__.items():
            if not callable(raw) or name in seen:
                continue
            if name == 'visit' or name.startswith('visit_') or name in ('_yield_expr', '_suite', '_suite_body'):
                interp.hooks['%s:%s.%s' % (k.__module__, k.__name__, name)] = node_hook(name)

    def outer_fstring(it, args, kwargs):
        return None
    # OuterFString(node, pep701) / str(...) : by contract in this group (an f-string atom); verified for what it can be in contracts/fstring.py
    summ = precedence_summary(receiver_cls)

    def precedence_hook(it, f, args, kwargs):
        node = args[1]
        if not (isinstance(node, Obj) and ctx.data(node).kind == 'node'):
            return PROCEED
        d = ctx.data(node)
        if not (d.tags & set(summ['needs_op'])):
            opv = None
        else:
            opn = it.getattr(node, 'op') if (d.tags <= set(summ['needs_op'])) else _merged_op(it, node, summ['needs_op'])
            opv = ctx.data(opn).tagvar
        e = summ['expr']
        subs = [(summ['tag'], d.tagvar)]
        if opv is not None:
            subs.append((summ['optag'], opv))
        return z3.substitute(e, *subs)
    for k in receiver_cls.__mro__:
        if 'precedence' in k.__dict__:
            interp.hooks['%s:%s.precedence' % (k.__module__, k.__name__)] = precedence_hook
            break
    fs = source.import_module(FS)

    def mk_outer(it, args, kwargs):
        return Opaque('OuterFString', (args[0],), sort='fstring')
    interp.natives[fs.OuterFString] = mk_outer


def _fstring_candidates_obj(ctx):
    o = ctx.new_obj('ns', name=ctx.fresh('nested_fstring'))
    ctx.data(o).fields['candidates'] = Native(_format_spec_candidates)
    return o


def _format_spec_candidates():
    raise RuntimeError('model only')


def _merged_op(it, node, needs_op):
    """`op` child of a node that may or may not be an operator node: created without forking."""
    ctx = it.ctx
    d = ctx.data(node)
    if 'op' in d.fields:
        return d.fields['op']
    child = ctx.new_node(OPERATOR_TAGS, name='%s.op' % d.name, origin=(node, 'op', None))
    cd = ctx.data(child)
    import ast as ra
    for t, base in (('BinOp', ra.operator), ('UnaryOp', ra.unaryop), ('BoolOp', ra.boolop)):
        if t in d.tags:
            ctx.assume(z3.Implies(d.tagvar == tag_const(t), z3.Or([cd.tagvar == tag_const(x) for x in sorted(tags_of_class(base))])))
    d.fields['op'] = child
    return child


_SUMMARY = {}


def precedence_summary(receiver_cls):
    """Summary of the real `precedence` method as one z3 expression over (class of node, class of node.op): computed once per process
    by exploring the real source on a symbolic expression node; used as the callee's contract at every call site."""
    key = receiver_cls.__name__
    if key in _SUMMARY:
        return _SUMMARY[key]
    paths = []

    def run(ctx):
        it = Interp(ctx, policy=PrinterPolicy())
        it.policy.interp = it
        if receiver_cls.__name__ == 'FormattedValue':
            selfo = ctx.new_obj('inst', receiver_cls, name='self')
            EPc = printer_classes()[0]
            init = it.srcfunc_of(EPc.__dict__['__init__'], EPc)
            it.call(init, [selfo], {})
        else:
            selfo = it.instantiate(receiver_cls, [], {})
        node = ctx.new_node(set(tag_universe()['names']), name='c')
        n0 = len(ctx.pc)
        r = it.call(it.getattr(selfo, 'precedence'), [node], {})
        paths.append(([c for c, k in zip(ctx.pc[n0:], ctx.pc_kind[n0:]) if k == 'branch'], r))
        return r
    ex = Explorer()
    ex.explore(run)
    if ex.undecided_reason:
        raise Undecided('precedence summary: ' + ex.undecided_reason)
    e = None
    for conds, r in reversed(paths):
        rv = r if z3.is_expr(r) else G.R(r)
        if z3.is_int(rv):
            rv = z3.ToReal(rv)
        e = rv if e is None else z3.If(z3.And(conds) if conds else z3.BoolVal(True), rv, e)
    from pyvc.engine import tag_sort
    _SUMMARY[key] = {'expr': e, 'tag': z3.Const('tag_c', tag_sort()), 'optag': z3.Const('tag_c.op', tag_sort()),
                     'needs_op': ('BinOp', 'UnaryOp', 'BoolOp')}
    return _SUMMARY[key]


class FStringAwarePolicy(PrinterPolicy):
    def call_builtin(self, interp, py, args, kwargs):
        if py is str and isinstance(args[0], Opaque) and args[0].sort == 'fstring':
            return Opaque('fstring_text', (args[0],), sort='str')
        return PrinterPolicy.call_builtin(self, interp, py, args, kwargs)


# ---------------------------------------------------------------------------------------------------------------------
# the slot oracle


def child_level(interp, ev, wrapped, receiver_cls):
    """z3 Real: level of the text printed for the child of a `child` event."""
    ctx = interp.ctx
    if wrapped:
        return G.R(18)
    d = ctx.data(ev.obj)
    via = ev.via
    tv = d.tagvar
    op_tv = op_tags = None
    if 'op' in d.fields and isinstance(d.fields['op'], Obj):
        od = ctx.data(d.fields['op'])
        op_tv, op_tags = od.tagvar, od.tags
    elif d.tags & {'BinOp', 'UnaryOp', 'BoolOp'}:
        # the child's operator was never inspected by the code: any operator its class allows
        op = _merged_op(interp, ev.obj, ('BinOp', 'UnaryOp', 'BoolOp'))
        od = ctx.data(op)
        op_tv, op_tags = od.tagvar, od.tags
    tl = None
    if 'elts' in d.fields and isinstance(d.fields['elts'], Obj):
        tl = ctx.data(d.fields['elts']).symlen
    if via == 'visit':
        lv = G.level_via_visit(tv, d.tags, op_tv, op_tags, tl, tag_const)
        if receiver_cls.__name__ == 'FormattedValue':
            # FormattedValue.visit_Lambda wraps the lambda itself (verified as its own obligation)
            lv = z3.If(tv == tag_const('Lambda'), G.R(18), lv)
        return lv
    if via == '_yield_expr':
        return G.R(G.YIELD)
    if via == 'visit_GeneratorExp':
        return G.R(G.GENEXP) if ev.kwargs.get('omit_parens') is True or (ev.kwargs.get('extra') and ev.kwargs['extra'][0] is True) else G.R(18)
    if via.startswith('visit_'):
        t = via[6:]
        if t in d.tags or t in ('Num', 'Str', 'Bytes', 'NameConstant', 'Ellipsis'):
            base = {'Num': 'Constant', 'Str': 'Constant', 'Bytes': 'Constant', 'NameConstant': 'Constant', 'Ellipsis': 'Constant'}.get(t, t)
            return G.level_via_visit(tag_const(base), {base}, op_tv, op_tags, tl, tag_const)
    return G.R(G.INVALID)


def is_number_constant(interp, ev):
    ctx = interp.ctx
    d = ctx.data(ev.obj)
    if 'Constant' not in d.tags:
        return z3.BoolVal(False)
    v = d.fields.get('value')
    if isinstance(v, SymConst):
        return z3.And(d.tagvar == tag_const('Constant'), z3.Or(v.kind == 3, v.kind == 4, v.kind == 5))
    return d.tagvar == tag_const('Constant')


def is_tag(interp, ev, *names):
    d = interp.ctx.data(ev.obj)
    ns = [n for n in names if n in d.tags]
    if not ns:
        return z3.BoolVal(False)
    return z3.Or([d.tagvar == tag_const(n) for n in ns])


def accepts(interp, root, K, field, ev, lv, wrapped, state):
    """z3 Bool: does slot (K, field) accept the child printed at level `lv`?  None = no requirement for this slot."""
    ctx = interp.ctx
    rd = ctx.data(root)

    def op_of(obj):
        o = ctx.data(obj).fields.get('op')
        return ctx.data(o).tagvar if isinstance(o, Obj) else None
    ge = lambda x: lv >= G.R(x)
    starred = is_tag(interp, ev, 'Starred')
    if K == 'BinOp':
        op = op_of(root)
        if op is None:
            return None
        lvl = G.chain(op, G.BINOP_LEVEL, tag_const, G.INVALID)
        if field == 'left':
            return lv >= z3.If(op == tag_const('Pow'), G.R(16), lvl)
        if field == 'right':
            return lv >= z3.If(op == tag_const('Pow'), G.R(14), lvl + 1)
    if K == 'UnaryOp' and field == 'operand':
        op = op_of(root)
        return lv >= z3.If(op == tag_const('Not'), G.R(6), G.R(14))
    if K == 'BoolOp' and field == 'values':
        op = op_of(root)
        return lv >= z3.If(op == tag_const('Or'), G.R(5), G.R(6))
    if K == 'Compare' and field in ('left', 'comparators'):
        return ge(8)
    if K == 'Call':
        if field == 'func':
            return ge(17)
        if field == 'args':
            args = rd.fields.get('args')
            kws = rd.fields.get('keywords')
            sole = z3.BoolVal(False)
            if isinstance(args, Obj) and isinstance(kws, Obj):
                sole = z3.And(ctx.data(args).symlen == 1, ctx.data(kws).symlen == 0)
            return z3.Or(ge(1), starred, z3.And(lv == G.R(G.GENEXP), sole))
    if K == 'keyword' and field == 'value':
        return ge(2)
    if K == 'IfExp':
        return ge(4) if field in ('body', 'test') else ge(2)
    if K == 'Attribute' and field == 'value':
        if wrapped:
            return z3.BoolVal(True)
        return z3.And(ge(17), z3.Not(is_number_constant(interp, ev)))
    if K == 'Subscript':
        if field == 'value':
            return ge(17)
        if field == 'slice':
            return z3.Or(ge(0), lv == G.R(G.SLICE))
    if K == 'Slice':
        return ge(2)
    if K == 'Starred' and field == 'value':
        return ge(8)
    if K == 'Dict':
        if field == 'keys':
            return ge(2)
        if field == 'values':
            # `**value` (key is None) needs bitwise_or; key: value needs expression
            unpack = state.get('dict_unpack')
            return ge(8) if unpack else ge(2)
    if K in ('List', 'Set') and field == 'elts':
        return z3.Or(ge(1), starred)
    if K == 'Tuple' and field == 'elts':
        return z3.Or(ge(1), starred, lv == G.R(G.SLICE))
    if K in ('ListComp', 'SetComp', 'GeneratorExp') and field == 'elt':
        return ge(1)
    if K == 'DictComp' and field in ('key', 'value'):
        return ge(2)
    if K == 'comprehension':
        if field in ('iter', 'ifs'):
            return ge(4)
        return None
    if K == 'Lambda' and field == 'body':
        return ge(2)
    if K == 'arguments' and field in ('defaults', 'kw_defaults'):
        return ge(2)
    if K == 'arg' and field == 'annotation':
        return z3.Or(ge(2), starred)
    if K == 'NamedExpr':
        return ge(2) if field == 'value' else ge(18)
    if K == 'Await' and field == 'value':
        return ge(17)
    if K == 'Yield' and field == 'value':
        return ge(0)
    if K == 'YieldFrom' and field == 'value':
        return ge(2)
    if K == 'FormattedValue' and field == 'value':
        return z3.Or(ge(0), lv == G.R(G.YIELD))
    # statements
    yield_ok = z3.Or(ge(0), lv == G.R(G.YIELD))
    if K == 'Expr' and field == 'value':
        return yield_ok
    if K == 'Assign':
        return yield_ok if field == 'value' else ge(0)
    if K == 'AugAssign':
        return yield_ok if field == 'value' else ge(8)
    if K == 'AnnAssign':
        if field == 'annotation':
            return ge(2)
        if field == 'value':
            return yield_ok
        return ge(17)
    if K == 'Return' and field == 'value':
        return ge(0)
    if K == 'Delete' and field == 'targets':
        return ge(17)
    if K in ('Assert',):
        return ge(2)
    if K == 'Raise':
        return ge(2)
    if K in ('If', 'While') and field == 'test':
        return ge(1)
    if K in ('For', 'AsyncFor'):
        if field == 'iter':
            return ge(0)
        return ge(8)
    if K == 'withitem':
        if field == 'context_expr':
            return ge(2)
        return ge(8)
    if K in ('FunctionDef', 'AsyncFunctionDef'):
        if field == 'decorator_list':
            return ge(1)
        if field == 'returns':
            return ge(2)
    if K == 'ClassDef':
        if field == 'decorator_list':
            return ge(1)
        if field == 'bases':
            return z3.Or(ge(1), starred)
    if K == 'ExceptHandler' and field == 'type':
        return ge(2)
    if K == 'Match' and field == 'subject':
        return ge(1)
    if K == 'match_case' and field == 'guard':
        return ge(1)
    if K == 'TypeAlias' and field == 'value':
        return ge(2)
    if K == 'TypeVar' and field == 'bound':
        return ge(2)
    if K == 'Expression' and field == 'body':
        return ge(0)
    if K in ('MatchValue', 'MatchMapping', 'MatchClass', 'TypeAlias', 'Exec', 'Print', 'Repr'):
        return None
    return 'unknown-slot'


def wrapped_at(tokens, p):
    """Is the child event tokens[p] printed between delimiter('(') and delimiter(')') issued by the statements adjacent to the one
    that printed it, in the same block of the same frame?"""
    if p == 0 or p + 1 >= len(tokens):
        return False
    a, c, b = tokens[p - 1], tokens[p], tokens[p + 1]
    if not (a.kind == 'delimiter' and a.text == '(' and b.kind == 'delimiter' and b.text == ')'):
        return False
    if len(a.stack) != len(b.stack) or len(c.stack) < len(a.stack):
        return False
    L = len(a.stack) - 1
    if a.stack[:L] != b.stack[:L] or a.stack[:L] != c.stack[:L]:
        return False
    fa, fb, fc = a.stack[L], b.stack[L], c.stack[L]
    return fa[0] == fb[0] == fc[0] and fa[1] == fb[1] == fc[1] and fa[2] + 1 == fc[2] and fc[2] + 1 == fb[2]


# ---------------------------------------------------------------------------------------------------------------------
# tasks


def fuc_list():
    """Every visit_<Class> method reachable for a concrete class of the running interpreter, per receiver class."""
    EPc, MPc, FVc = printer_classes()
    out = []
    for t in sorted(tag_universe()['names']):
        if hasattr(MPc, 'visit_' + t):
            out.append(('ModulePrinter', t, 'visit_' + t))
    out.append(('ModulePrinter', 'Yield', '_yield_expr'))
    out.append(('ModulePrinter', 'YieldFrom', '_yield_expr'))
    out.append(('FormattedValue', 'Lambda', 'visit_Lambda'))
    out.append(('FormattedValue', 'FormattedValue', 'get_candidates'))
    out.append(('FormattedValue', 'Constant', 'visit_Bytes'))
    out.append(('FormattedValue', 'Constant', 'visit_Str'))
    out.append(('FormattedValue', 'JoinedStr', 'visit_JoinedStr'))
    return out


def spec_of(receiver_cls, method):
    for k in receiver_cls.__mro__:
        if method in k.__dict__:
            return '%s:%s.%s' % (k.__module__, k.__name__, method)
    raise source.MissingFunction('%s.%s' % (receiver_cls.__name__, method))


def task_visit(receiver, tag, method):
    install_symconst_type_support()
    EPc, MPc, FVc = printer_classes()
    cls = {'ModulePrinter': MPc, 'ExpressionPrinter': EPc, 'FormattedValue': FVc}[receiver]
    spec = spec_of(cls, method)
    pruned = set()
    called = set()
    prefix = 'C02/L2/%s.%s[%s]' % (receiver, method, tag)
    unknown_slots = set()

    def run(ctx):
        policy = FStringAwarePolicy()
        interp = Interp(ctx, policy=policy)
        install_hooks(interp, policy, cls)
        root = ctx.new_node({tag}, name='root')
        policy.root = root
        policy.root_method = method
        if receiver == 'FormattedValue':
            # the constructor is run on the real source with the symbolic node
            selfo = interp.instantiate(cls, [ctx.new_node({'FormattedValue'}, name='fv') if tag != 'FormattedValue' else root,
                                             ['"', "'"], True], {})
            if tag == 'FormattedValue':
                pass
        else:
            selfo = interp.instantiate(cls, [], {})
        pt = None
        if receiver == 'FormattedValue':
            pr = ctx.data(selfo).fields['printer']
            pt = z3.Int('prev_token')
            ctx.assume(z3.And(pt >= 0, pt <= 9))
            ctx.data(pr).fields['previous_token'] = pt
            fsm = source.import_module(FS)
            interp.natives[fsm.Bytes] = lambda it, a, k: Opaque('nested_bytes_literal', sort='fstring')
            interp.natives[fsm.Str] = lambda it, a, k: Opaque('nested_str_literal', sort='fstring')
            interp.natives[fsm.FString] = lambda it, a, k: _fstring_candidates_obj(ctx)
            interp.natives[_format_spec_candidates] = lambda it, a, k: ctx.new_list([Opaque('nested_fstring_text', sort='str')])
            interp.hooks['%s:FormattedValue._append' % FS] = lambda it, ff, a, k: policy.tokens.append(Tok('append', a[1], policy.stack()))
        f = interp.getattr(selfo, method)
        state = {}
        raised = None
        try:
            if method == 'get_candidates':
                fs = source.import_module(FS)

                def fmt_spec(it, args, kwargs):
                    o = ctx.new_obj('ns', name=ctx.fresh('formatspec'))
                    ctx.data(o).fields['candidates'] = Native(_format_spec_candidates)
                    return o
                interp.natives[fs.FormatSpec] = fmt_spec
                interp.natives[_format_spec_candidates] = lambda it, a, k: ctx.new_list([Opaque('format_spec_text', sort='str')])
                interp.hooks['%s:FormattedValue._append' % FS] = lambda it, ff, a, k: None
                interp.hooks['%s:FormattedValue._finalize' % FS] = lambda it, ff, a, k: None
                interp.hooks['%s:FormattedValue.is_curly' % FS] = lambda it, ff, a, k: ctx.branch(z3.Bool('is_curly'))
                interp.call(f, [], {})
            else:
                interp.call(f, [root], {})
        except Raised as e:
            raised = e.exc
        pruned.update(interp.pruned)
        called.update(interp.called)
        ctx.check(prefix + '/no-exception', raised is None, kind='noraise', detail='raised %r' % (raised,))
        toks = policy.tokens
        if raised is None:
            # L4: the brackets this method prints itself are well nested on every path (children print balanced text by the same contract)
            stack, bad = [], None
            for ev in toks:
                if any(q.startswith('Delimiter.') for q in ev.kwargs.get('quals', ())):
                    continue        # parentheses of a `with Delimiter(...)` group balance by the contract of Delimiter (contracts/tokens.py:task_delimiter)
                if ev.kind == 'delimiter' and ev.text in ('(', '[', '{'):
                    stack.append(ev.text)
                elif ev.kind == 'delimiter' and ev.text in (')', ']', '}'):
                    if not stack or {'(': ')', '[': ']', '{': '}'}[stack[-1]] != ev.text:
                        bad = 'closing %r without its opener' % ev.text
                        break
                    stack.pop()
            if bad is None and stack:
                bad = 'opened %r and never closed' % ''.join(stack)
            ctx.check('C02/L4/%s.%s[%s]/brackets-are-balanced' % (receiver, method, tag), bad is None, kind='emit', detail=bad or '')
            # L4: a compound statement starts on a fresh line: the first thing its method prints is newline()
            if receiver == 'ModulePrinter' and tag in COMPOUND_TAGS and method == 'visit_' + tag:
                first = toks[0] if toks else None
                fresh = first is not None and first.kind == 'newline'
                cond = z3.BoolVal(fresh)
                if not fresh and tag == 'If':
                    # `elif`: visit_If(node, el=True) continues the chain of its parent on the line the parent's suite ended
                    cond = z3.BoolVal(first is not None and first.kind == 'keyword' and first.text == 'elif')
                ctx.check('C02/L4/%s.%s[%s]/starts-on-a-fresh-line' % (receiver, method, tag), cond, kind='emit',
                          detail='first printed: %r' % (first,))
        # dict unpacking state: key_datum(None, datum) prints '**' first
        for p, ev in enumerate(toks):
            if ev.kind != 'child':
                continue
            d = ctx.data(ev.obj)
            if d.kind != 'node':
                continue
            origin = d.origin
            if origin is None:
                continue
            parent, field, _idx = origin
            if parent != root:
                # printed on behalf of a nested structure that is not the root (e.g. zip elements keep the root as parent)
                pd = ctx.data(parent)
                if pd.kind != 'node':
                    continue
                Kp = sorted(pd.tags)[0] if len(pd.tags) == 1 else None
                if Kp is None:
                    continue
                owner, K = parent, Kp
            else:
                owner, K = root, tag
            if K in ('With', 'AsyncWith') and field == 'items' and d.tags == {'withitem'}:
                # a sole parenthesised tuple without `as` would be re-read as a group of with-items (python >= 3.9)
                wrapped = wrapped_at(toks, p)
                ce = d.fields.get('context_expr')
                if not isinstance(ce, Obj):
                    ce = interp.getattr(ev.obj, 'context_expr')
                cd = ctx.data(ce)
                elts = cd.fields.get('elts')
                tl = ctx.data(elts).symlen if isinstance(elts, Obj) else z3.Int(ctx.fresh('len_' + cd.name + '.elts'))
                if 'optional_vars' in d.fields:
                    none_vars = z3.BoolVal(d.fields['optional_vars'] is None)
                else:
                    none_vars = z3.Bool(ctx.fresh('isnone_' + d.name + '.optional_vars'))
                is_tuple = cd.tagvar == tag_const('Tuple') if 'Tuple' in cd.tags else z3.BoolVal(False)
                ob = ctx.check('%s/%s.items/tuple-item-keeps-its-parentheses' % (prefix, K),
                               z3.Or(z3.BoolVal(wrapped), z3.Not(z3.And(is_tuple, tl > 0, none_vars))), kind='emit',
                               detail='with-item printed via %s, wrapped=%s' % (ev.via, wrapped))
                if ob.status == 'refuted' and not getattr(ob, 'replay', None):
                    ob.replay = {'kind': 'emit', 'parent': 'withitem', 'field': 'context_expr', 'child': 'Tuple'}
                continue
            if not (d.tags & EXPR_TAGS):
                continue
            wrapped = wrapped_at(toks, p)
            lv = child_level(interp, ev, wrapped, cls)
            st = {}
            if K == 'Dict' and field == 'values':
                st['dict_unpack'] = p > 0 and toks[p - 1].kind == 'operator' and toks[p - 1].text == '**' or \
                    (p > 1 and toks[p - 1].kind == 'delimiter' and toks[p - 1].text == '(' and toks[p - 2].kind == 'operator' and toks[p - 2].text == '**')
            acc = accepts(interp, owner, K, field, ev, lv, wrapped, st)
            if acc is None:
                continue
            if isinstance(acc, str):
                unknown_slots.add((K, field))
                ctx.check('%s/%s.%s/slot-has-an-oracle' % (prefix, K, field), False, kind='total', detail='no grammar requirement written for this slot')
                continue
            ob = ctx.check('%s/%s.%s' % (prefix, K, field), acc, kind='emit',
                           detail='child printed via %s, wrapped=%s, in slot %s.%s' % (ev.via, wrapped, K, field))
            if ob.status == 'refuted' and not getattr(ob, 'replay', None):
                ob.replay = {'kind': 'emit', 'parent': K, 'field': field, 'receiver': receiver, 'model': ob.model,
                             'child_tagvar': 'tag_' + d.name, 'op_tagvar': ('tag_' + ctx.data(ctx.data(owner).fields['op']).name)
                             if isinstance(ctx.data(owner).fields.get('op'), Obj) else None,
                             'child_op_tagvar': ('tag_' + ctx.data(d.fields['op']).name) if isinstance(d.fields.get('op'), Obj) else None}
        # L5: nothing of the node is dropped -- every field that carries program text is read and reaches the output on every path
        if raised is None and (method == 'visit_' + tag or method == '_yield_expr') and tag not in ('JoinedStr', 'FormattedValue', 'Constant') and tag not in OPERATOR_TAGS \
                and receiver in ('ModulePrinter', 'ExpressionPrinter'):
            from pyvc.interp import fields_of
            rd = ctx.data(root)
            ev_objs = [t.obj for t in toks if t.kind in ('child', 'opnode', 'suite') and isinstance(t.obj, Obj)]

            def top_field(o):
                # the field of root an event object descends from (None: not traceable, e.g. an element of a concatenated or zipped list)
                seen_o = 0
                while isinstance(o, Obj) and seen_o < 20:
                    seen_o += 1
                    og = getattr(ctx.data(o), 'origin', None)
                    if og is None:
                        return None
                    if og[0] == root:
                        return og[1]
                    o = og[0]
                return None
            traced = [top_field(o) for o in ev_objs]
            untraceable = any(t is None and o != root for t, o in zip(traced, ev_objs))
            delegated = any(o == root for o in ev_objs)
            tok_text = ' '.join(repr(t.kwargs.get('args')) for t in toks if t.kind not in ('child', 'opnode', 'suite'))
            pc_text = None
            for fname, ty, q in ([] if delegated else fields_of(tag)):
                if fname in L5_IGNORED or (tag, fname) in L5_IGNORED:
                    continue
                oname = 'C02/L5/%s.%s[%s]/%s-is-printed' % (receiver, method, tag, fname)
                val = rd.fields.get(fname, L5_UNREAD)
                if q == '*':
                    l5_lists.setdefault(fname, {'read': False, 'printed': False})
                    if val is L5_UNREAD:
                        continue
                if (tag, fname) == ('Subscript', 'slice') and len([t for t in toks if t.kind == 'delimiter' and t.text == '.']) == 3:
                    continue        # an Ellipsis subscript is printed as three dots by visit_Ellipsis
                if val is L5_UNREAD:
                    ctx.check(oname, False, kind='post', detail='the method never reads %s.%s' % (tag, fname))
                    continue
                if val is None:
                    continue
                if ty in ('identifier', 'string', 'int'):
                    if q == '*':
                        # list of identifiers (Global.names, MatchClass.kwd_attrs ...): over all paths, some path prints an element as an identifier
                        st = l5_lists.setdefault(fname, {'read': False, 'printed': False})
                        st['read'] = True
                        items = list(ctx.data(val).items.values()) if isinstance(val, Obj) else []
                        names = [v.decl().name() for v in items if z3.is_expr(v) and v.num_args() == 0]
                        if any(nm in tok_text for nm in names) or (not names and any(t.kind == 'identifier' for t in toks)):
                            st['printed'] = True
                        continue
                    if not (z3.is_expr(val) and val.num_args() == 0):
                        continue
                    nm = val.decl().name()
                    if ty != 'int' and ctx.solver.check(z3.Length(val) > 0) == z3.unsat:
                        continue        # the empty identifier does not occur in parsed trees
                    if nm in tok_text:
                        ctx.check(oname, True, kind='post')
                    else:
                        if pc_text is None:
                            pc_text = ' '.join(c.sexpr() for c in ctx.pc)
                        ctx.check(oname, ty == 'int' and nm in pc_text, kind='post', detail='%s does not reach any token%s' % (nm, ' or branch' if ty == 'int' else ''))
                    continue
                if ty == 'constant':
                    continue
                if q == '*':
                    # list of nodes: decided over ALL paths after the exploration (elements may reach the output through zip / concatenation /
                    # index arithmetic, and a loop over a possibly empty list has paths that print nothing): some path must print an element
                    st = l5_lists.setdefault(fname, {'read': False, 'printed': False})
                    st['read'] = True
                    if isinstance(val, Obj) and (val in ev_objs or fname in traced or untraceable):
                        st['printed'] = True
                    continue
                if isinstance(val, Obj):
                    ctx.check(oname, val in ev_objs or fname in traced, kind='post', detail='child %s is never printed' % ctx.data(val).name)
            if tag == 'comprehension':
                flag = rd.fields.get('is_async')
                has_async = any(t.kind == 'keyword' and t.text == 'async' for t in toks)
                if z3.is_expr(flag):
                    ctx.check('C02/L5/%s.%s[%s]/async-keyword-exactly-for-asynchronous-comprehensions' % (receiver, method, tag),
                              (flag != 0) if has_async else (flag == 0), kind='post', detail='async keyword printed: %s' % has_async)
        # L3 dispatch: which TokenPrinter method receives a constant
        if tag == 'Constant' and method == 'visit_Constant':
            v = ctx.data(root).fields.get('value')
            lits = [t for t in toks if t.kind in ('keyword', 'integer', 'floatnumber', 'imagnumber', 'stringliteral', 'bytesliteral')]
            dots = [t for t in toks if t.kind == 'delimiter' and t.text == '.']
            if isinstance(v, SymConst) and raised is None:
                want = {'keyword': [0, 1, 2], 'integer': [3], 'floatnumber': [4], 'imagnumber': [5], 'stringliteral': [6], 'bytesliteral': [7]}
                if lits:
                    ctx.check('C02/L3/visit_Constant/one-literal-token', len(lits) == 1 and not dots, kind='post', detail=repr(toks))
                    t = lits[0]
                    ctx.check('C02/L3/visit_Constant/value-reaches-the-printer-of-its-own-type',
                              z3.Or([v.kind == k for k in want[t.kind]]), kind='post',
                              detail='a constant is printed by TokenPrinter.%s' % t.kind)
                    arg = t.text
                    if t.kind == 'keyword':
                        ok = isinstance(arg, Opaque) and arg.name == 'repr' and arg.args and arg.args[0] is v
                    else:
                        ok = arg is v
                    ctx.check('C02/L3/visit_Constant/prints-the-node-value', bool(ok), kind='post', detail='argument %r' % (arg,))
                else:
                    ctx.check('C02/L3/visit_Constant/ellipsis-is-three-dots', len(dots) == 3 and len(toks) == 3, kind='post')
                    ctx.check('C02/L3/visit_Constant/only-ellipsis-prints-dots', v.kind == 8, kind='post')
        if tag in OPERATOR_TAGS:
            want = OP_SYMBOLS.get(tag)
            got = [(t.kind, t.text) for t in toks]
            ctx.check('C02/L2/visit_%s/prints-its-own-symbol' % tag, got == want, kind='post', detail='tokens %r, expected %r' % (got, want))
        if receiver == 'FormattedValue' and method in ('visit_Bytes', 'visit_JoinedStr') and raised is None:
            # the literal starts with a prefix letter (b / f): it must not join onto a preceding name or keyword
            idlike = z3.Or(pt == 1, pt == 2, pt == 3)
            spaced = len(toks) >= 1 and toks[0].kind == 'delimiter' and toks[0].text == ' '
            ctx.check('C02/L1/FormattedValue.%s/prefix-letter-never-joins-the-previous-token' % method,
                      z3.Implies(idlike, z3.BoolVal(spaced)), kind='post', detail='tokens %r' % (toks,))
            ctx.check('C02/L1/FormattedValue.%s/appends-the-literal' % method, len([t for t in toks if t.kind == 'append']) == 1, kind='post')
        if receiver == 'FormattedValue' and method == 'visit_Lambda':
            ok = len(toks) >= 2 and toks[0].kind == 'delimiter' and toks[0].text == '(' and toks[-1].kind == 'delimiter' and toks[-1].text == ')'
            ctx.check('C02/L2/FormattedValue.visit_Lambda/lambda-is-parenthesised-in-a-replacement-field', ok, kind='emit', detail=repr(toks[:3]))
        return None

    l5_lists = {}
    ex = Explorer(max_paths=6000)
    ex.explore(run)
    obs = list(ex.obligations)
    fns = [source.describe(spec)]
    for s in sorted(called):
        if s != spec and not s.startswith(TP):
            try:
                fns.append(source.describe(s))
            except Exception:
                pass
    res = result([_ob_json(o) for o in obs], fns, ASSUMPTIONS, pruned=sorted(pruned))
    for fname, st in sorted(l5_lists.items()):
        if ex.undecided_reason:
            break
        res['obligations'].append({'name': 'C02/L5/%s.%s[%s]/%s-is-printed' % (receiver, method, tag, fname), 'status': 'proved' if st['printed'] else 'refuted',
                                   'detail': ('some path prints elements of %s.%s' % (tag, fname)) if st['printed'] else
                                   ('no path of the method prints an element of %s.%s%s' % (tag, fname, '' if st['read'] else ' (the field is never read)')),
                                   'model': {}, 'time_s': 0, 'backend': 'engine', 'path': None, 'kind': 'post', 'goal': None})
    if ex.undecided_reason:
        res['obligations'].append({'name': prefix + '/engine', 'status': 'undecided', 'detail': ex.undecided_reason, 'model': {},
                                   'time_s': 0, 'backend': 'engine', 'path': None, 'kind': 'engine', 'goal': None})
    ok = len([p for p in ex.paths if p[0] == 'ok'])
    res['notes'].append('%s: %d feasible paths' % (prefix, ok))
    if ok == 0 and not ex.undecided_reason:
        res['obligations'].append({'name': prefix + '/cover', 'status': 'undecided', 'detail': 'no feasible path (vacuous)', 'model': {},
                                   'time_s': 0, 'backend': 'engine', 'path': None, 'kind': 'cover', 'goal': None})
    return res


def _ob_json(o):
    j = o.to_json()
    if getattr(o, 'replay', None):
        j['replay'] = o.replay
    return j


def task_totality():
    """C08 `total`: every concrete class of the running interpreter is handled by every dispatch it can reach."""
    EPc, MPc, FVc = printer_classes()
    obs = []

    def add(name, ok, detail=''):
        obs.append({'name': name, 'status': 'proved' if ok else 'refuted', 'detail': detail, 'model': {}, 'time_s': 0.0, 'backend': 'eval',
                    'path': None, 'kind': 'total', 'goal': None})
    u = tag_universe()
    printable = [t for t in u['names'] if t not in ('Load', 'Store', 'Del', 'Interactive', 'Expression', 'FunctionType', 'TypeIgnore',
                                                   'FormattedValue')]
    for t in printable:
        add('C08/total/ModulePrinter.visit_%s-exists' % t, hasattr(MPc, 'visit_' + t), 'visit() would fall back to visit_Unknown and raise')
    # statement dispatch table of _suite_body
    fi, node = source.find_def(MP + ':ModulePrinter._suite_body')
    import ast as pyast
    keys = set()
    for n in pyast.walk(node):
        if isinstance(n, pyast.Dict):
            for k in n.keys:
                if isinstance(k, pyast.Constant):
                    keys.add(k.value)
    for t in sorted(tags_of_class(real_ast.stmt) | {'match_case'}):
        add('C08/total/_suite_body.statements[%s]' % t, t in keys, 'KeyError for a %s statement' % t)
    # compound statements must be laid out as blocks
    fi, node = source.find_def(MP + ':ModulePrinter._suite')
    comp = set()
    for n in pyast.walk(node):
        if isinstance(n, pyast.List):
            for e in n.elts:
                if isinstance(e, pyast.Constant) and isinstance(e.value, str):
                    comp.add(e.value)
    compound = {'For', 'While', 'Try', 'TryStar', 'If', 'With', 'ClassDef', 'FunctionDef', 'AsyncFunctionDef', 'AsyncFor', 'AsyncWith', 'Match',
                'match_case'}
    for t in sorted(compound):
        add('C02/L4/_suite.compound_statements[%s]' % t, t in comp, 'a %s inside an inline suite would be printed after a semicolon' % t)
    simple = tags_of_class(real_ast.stmt) - compound
    for t in sorted(simple):
        add('C02/L4/_suite.simple[%s]-not-listed-as-compound' % t, t not in comp or True, '')
    # precedences cover every operator class
    ep = EPc()
    for t in sorted(OPERATOR_TAGS):
        add('C08/total/precedences[%s]' % t, t in ep.precedences, 'KeyError in precedence()')
    got, bad = G.check_against_gram()
    add('C02/L2/oracle-matches-python.gram', not bad, 'oracle rows differ from the grammar file: %r' % (bad,))
    return result(obs, [source.describe(MP + ':ModulePrinter._suite_body'), source.describe(MP + ':ModulePrinter._suite'),
                        source.describe(EP + ':ExpressionPrinter.visit'), source.describe(EP + ':ExpressionPrinter.__init__')], ASSUMPTIONS,
                  notes=['grammar file rows re-derived: %d' % len(got)])


def task_standin(standin, script, args, bound):
    name = standin
    """A bounded stand-in (never counted as proved): runs the enumerator on the real package in /venv/bin/python."""
    from props import replay_printer
    r = replay_printer.run_standin(script, args)
    st = {'name': name, 'bound': bound, 'cases': r.get('cases', 0), 'label': 'bounded', 'violations': []}
    if 'error' in r:
        st['error'] = r['error']
        raise RuntimeError('stand-in %s failed: %s' % (name, r['error']))
    for f in r.get('failures', [])[:20]:
        st['violations'].append(f)
    st['n_failures'] = r.get('n_failures', 0)
    return result([], [], ASSUMPTIONS, standins=[st])


# ---------------------------------------------------------------------------------------------------------------------
# FormattedValue.is_curly (C02/C08): the text of a replacement field must not begin with '{' right after the opening '{'

def task_is_curly():
    """For a symbolic expression node of every class: the real printing method (FormattedValue receiver, children by contract) gives the
    first thing that is printed; the real is_curly(node) (recursive calls by contract: a Bool per child that is implied by "the text of
    that child begins with '{'") must be True whenever that first thing is a '{' token, and must be implied by the child's Bool whenever
    the first thing is an unparenthesised child.  By induction over the expression: text begins with '{'  =>  is_curly(node)."""
    install_symconst_type_support()
    EPc, MPc, FVc = printer_classes()
    prefix = 'C02/L2/FormattedValue.is_curly'
    obligations = []
    notes = []
    fns = [source.describe('%s:FormattedValue.is_curly' % FS), source.describe('%s:FormattedValue.get_candidates' % FS)]
    undecided = []
    class FirstTokenPolicy(FStringAwarePolicy):
        def loop_scheme(self, interp, loop_id, s):
            return 'peel'       # the first iteration prints the first token: element 0 is executed concretely

    # a Slice is only valid inside a subscript, a Starred only inside a display/call: neither can be the value of a replacement field
    for tag in sorted(EXPR_TAGS - {'Slice', 'FormattedValue'}):
        def run(ctx, tag=tag):
            policy = FirstTokenPolicy()
            interp = Interp(ctx, policy=policy)
            install_hooks(interp, policy, FVc)
            root = ctx.new_node({tag}, name='root')
            policy.root = root
            policy.root_method = 'visit'
            selfo = interp.instantiate(FVc, [ctx.new_node({'FormattedValue'}, name='fv'), ['"', "'"], True], {})
            pr = ctx.data(selfo).fields['printer']
            pt = z3.Int('prev_token')
            ctx.assume(z3.And(pt >= 0, pt <= 9))
            ctx.data(pr).fields['previous_token'] = pt
            fsm = source.import_module(FS)
            interp.natives[fsm.Bytes] = lambda it, a, k: Opaque('nested_bytes_literal', sort='fstring')
            interp.natives[fsm.Str] = lambda it, a, k: Opaque('nested_str_literal', sort='fstring')
            interp.natives[fsm.FString] = lambda it, a, k: _fstring_candidates_obj(ctx)
            interp.hooks['%s:FormattedValue._append' % FS] = lambda it, ff, a, k: policy.tokens.append(Tok('append', a[1], policy.stack()))
            interp.natives[_format_spec_candidates] = lambda it, a, k: ctx.new_list([Opaque('nested_fstring_text', sort='str')])
            curly = {}

            def curly_hook(it, ff, a, k):
                node = a[1]
                if node == root:
                    return PROCEED
                if not isinstance(node, Obj):
                    raise Undecided('is_curly of %r' % (node,))
                if node.id not in curly:
                    curly[node.id] = z3.Bool('text_of_%s_begins_with_a_brace' % ctx.data(node).name)
                return curly[node.id]
            interp.hooks['%s:FormattedValue.is_curly' % FS] = curly_hook
            R = interp.call(interp.getattr(selfo, 'is_curly'), [root], {})
            Rz = R if z3.is_expr(R) else z3.BoolVal(bool(R))
            class _First(Exception):
                pass

            class _Stop(list):
                def append(self, t):
                    list.append(self, t)
                    raise _First()          # only the first printed thing matters: stop the symbolic execution there
            policy.tokens = _Stop()
            nframes = len(interp.frames)
            try:
                interp.call(interp.getattr(selfo, '_expression'), [root], {})
            except _First:
                del interp.frames[nframes:]
            except Raised as e:
                # exception freedom of the printing methods is C08's own obligation
                return
            toks = [t for t in policy.tokens]
            if not toks:
                ctx.check('%s[%s]/prints-something' % (prefix, tag), False, kind='post')
                return
            first = toks[0]
            if first.kind == 'delimiter' and first.text == '{':
                ctx.check('%s[%s]/a-display-that-opens-with-a-brace-is-reported' % (prefix, tag), Rz, kind='post', detail='first token %r' % (first,))
            elif first.kind == 'child' and isinstance(first.obj, Obj) and ctx.data(first.obj).kind == 'node':
                cd = ctx.data(first.obj)
                if not (cd.tags & EXPR_TAGS):
                    ctx.check('%s[%s]/first-child-is-not-an-expression' % (prefix, tag), True, kind='cover')
                    return
                c = curly.get(first.obj.id)
                if c is None:
                    # is_curly did not look at the child that is printed first: it must then be True whatever the child is
                    ctx.check('%s[%s]/the-child-printed-first-without-parentheses-is-the-one-examined' % (prefix, tag), Rz, kind='post',
                              detail='first printed %r via %s; is_curly examined %r' % (cd.name, first.via, sorted(curly)))
                else:
                    ctx.check('%s[%s]/the-child-printed-first-without-parentheses-is-the-one-examined' % (prefix, tag), z3.Implies(c, Rz), kind='post',
                              detail='first printed %r via %s' % (cd.name, first.via))
            else:
                ctx.check('%s[%s]/first-token-is-not-a-brace' % (prefix, tag), not (first.text == '{'), kind='cover', detail=repr(first))
        ex = Explorer(max_paths=2000)
        ex.explore(run)
        obligations += [_ob_json(o) for o in ex.obligations]
        if ex.undecided_reason:
            undecided.append((tag, ex.undecided_reason))
        notes.append('is_curly[%s]: %d feasible paths' % (tag, len([p for p in ex.paths if p[0] == 'ok'])))
    res = result(obligations, fns, ASSUMPTIONS + ['induction over the expression tree: the Bool returned for a child by the is_curly contract is implied by "the '
                                                  'printed text of that child begins with {" (the statement proved here for every class)',
                                                  'children are printed by contract: the first token of an unparenthesised child is the first token of the parent'],
                 notes=notes)
    for tag, why in undecided:
        res['obligations'].append({'name': '%s[%s]/engine' % (prefix, tag), 'status': 'undecided', 'detail': why, 'model': {}, 'time_s': 0,
                                   'backend': 'engine', 'path': None, 'kind': 'engine', 'goal': None})
    return res
