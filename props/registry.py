"""Which tasks decide which property, and how verdicts are reported."""
import json
import os
import time

from pyvc import runner
from pyvc.runner import Task

ENGINE_TRUST = [
    'pyvc (the VC generator in /verif/pyvc: symbolic interpreter of the Python subset listed in DESIGN.md section 2.2, heap and '
    'loop treatment, obligation bookkeeping)',
    'z3 5.1.0 (z3-solver wheel), cvc5 1.0.3 CLI as second opinion for unknowns',
    'CPython 3.12.1 only: sys.version_info branches are decided concretely and the dead branch is listed as version-pruned',
    'type invariant of every symbolic ast node: the list fields `targets` (Assign, Delete) and `names` (Import, ImportFrom, Global, Nonlocal) are '
    'never empty (CPython ast.c validator; assumed, no function of the package is checked to preserve it)',
]

PROPS = {}


def prop(pid, title, level, tasks, select, replay=None, trusted=(), explanation='', standins=None):
    PROPS[pid] = {'title': title, 'level': level, 'tasks': tasks, 'select': select, 'replay': replay, 'trusted': list(trusted),
                  'explanation': explanation, 'standins': standins}


def cli_tasks(tier):
    return [Task('cli.argtable', 'contracts.cli:task_argtable'), Task('cli.do_minify', 'contracts.cli:task_do_minify'),
            Task('cli.parse_args', 'contracts.cli:task_parse_args'), Task('cli.main', 'contracts.cli:task_main'),
            Task('cli.source_modules', 'contracts.cli:task_source_modules'),
            Task('standin.cli_scenarios', 'contracts.printer:task_standin', standin='cli scenarios', script='cli_scenarios.py',
                 args=['--subsets', '12' if tier == 'quick' else '200'],
                 bound='14 end-to-end scenarios on temporary trees (stdout, --output, in-place tree with sibling and non-python files, unparsable and '
                       'unreadable modules, not-beneficial and latin-1 sources, invalid combinations) plus every single flag and seeded flag subsets vs the API')]


CLI_TRUST = ['argparse action semantics, os.walk / open / os.environ effects as axiomatised in contracts/cli.py:ASSUMPTIONS',
             'python_minifier.minify treated by contract (uninterpreted result) inside this group',
             'documented flag meaning = spelling rule (--no-x => x=False, --x => x=True), cross-read from docs/source/transforms/*.rst']

prop('C13', 'The command line tool writes exactly what the API would return', 'proof', cli_tasks,
     ['C13/', 'C14/do_minify/', 'C14/main/'], replay='props.replay:replay_cli', trusted=CLI_TRUST,
     explanation='Symbolic execution of the real parse_args validation tail, do_minify and main with all 19 boolean flags, both preserve '
                 'lists, the output mode and the environment override as free symbols (loop-free in the flags: the full 2^19 domain). '
                 'Each minify keyword is proved equal to the documented function of the flags; the I/O trace of main is proved to '
                 'carry exactly the API result (or the original bytes when larger).')
prop('C14', 'The command line tool never emits more bytes than it was given', 'proof', cli_tasks,
     ['C14/', 'C13/main/', 'C13/do_minify/returns', 'C13/do_minify/raises', 'C13/do_minify/calls'], replay='props.replay:replay_cli',
     trusted=CLI_TRUST,
     explanation='do_minify: returned bytes are the UTF-8 encoding of the API result and no longer than the source unless the documented '
                 'override is set, else MinificationNotBeneficialError; main: every write/stdout event carries either that value or the '
                 'source bytes read for the same module, on every path including the exception handlers (linear integer arithmetic).')
prop('C15', 'In-place minification touches only Python files and never corrupts one', 'proof', cli_tasks,
     ['C15/', 'C13/main/', 'C14/main/', 'C13/parse_args/rejects'], replay='props.replay:replay_cli', trusted=CLI_TRUST,
     explanation='source_modules: every yielded path is a non-directory argument as given or join(root, f) with f ending in .py/.pyw from '
                 'os.walk of a directory argument (proved at each yield for an arbitrary iteration of the three nested loops). main: '
                 'the only paths opened for writing are --output or, with --in-place, the module just minified; the destination is '
                 'opened only after do_minify returned normally; read and minify errors propagate and nothing is written for that '
                 'module or any later one.')


def printer_tasks(tier):
    from contracts import printer
    ts = [Task('printer.totality', 'contracts.printer:task_totality')]
    for rec, tag, meth in printer.fuc_list():
        ts.append(Task('printer.%s.%s[%s]' % (rec, meth, tag), 'contracts.printer:task_visit', receiver=rec, tag=tag, method=meth))
    from contracts import tokens
    for m in tokens.METHODS:
        ts.append(Task('tokens.%s' % m, 'contracts.tokens:task_method', method=m))
    ts.append(Task('tokens.callsites', 'contracts.tokens:task_callsites'))
    ts.append(Task('tokens.delimiter', 'contracts.tokens:task_delimiter'))
    ts.append(Task('compare_ast.constants', 'contracts.folding:task_compare_ast_constants'))
    ts.append(Task('printer.FormattedValue.is_curly', 'contracts.printer:task_is_curly'))
    ts.append(Task('standin.enum_print.depth2', 'contracts.printer:task_standin', standin='enum_print depth 2', script='enum_print.py',
                   args=['--depth', '2'], bound='every (slot, child kind) pair of spec/astlib.py, nesting depth 2, strict re-parse'))
    ts.append(Task('standin.fstring_curly', 'contracts.printer:task_standin', standin='f-string field opening', script='fstring_curly.py',
                   args=['--depth', '2' if tier == 'quick' else '3'],
                   bound='6 brace-opening displays under every chain (depth 2 quick / 3 thorough) of 24 left-most wrappers x 3 field endings; strict re-parse'))
    ts.append(Task('standin.stmt_layout', 'contracts.printer:task_standin', standin='statement layout', script='stmt_layout.py',
                   args=[] if tier == 'quick' else ['--triples', '20000'],
                   bound='every ordered pair of 40 statement templates (all simple and compound statement kinds) in 12 suite contexts, all transforms off, strict re-parse'))
    ts.append(Task('standin.literal_pool', 'contracts.printer:task_standin', standin='literal pool', script='literal_pool.py', args=[],
                   bound='constants of every type plus 7 mantissas (1 to 17 significant digits) in each of 65 decades x 19 token contexts, and 39 parsed sources; strict re-parse'))
    if tier == 'thorough':
        for i in range(8):
            ts.append(Task('standin.enum_print.depth3.%d' % i, 'contracts.printer:task_standin', standin='enum_print depth 3 shard %d/8' % i,
                           script='enum_print.py', args=['--depth', '3', '--shard', '%d/8' % i],
                           bound='every (slot, child, grandchild) triple of spec/astlib.py, nesting depth 3, strict re-parse'))
        ts.append(Task('standin.float_sweep', 'contracts.printer:task_standin', standin='float sweep', script='literal_pool.py',
                       args=['--sweep', '6'], bound='every binary exponent x (4 boundary + 6 seeded random mantissas), 4 contexts'))
    return ts


PRINTER_TRUST = ['spec/grammar_levels.py (expression levels and slot requirements written from Grammar/python.gram; trusted oracle)',
                 'trees are parser-produced (AST validity assumptions listed in contracts/printer.py:ASSUMPTIONS)',
                 'TokenPrinter methods by contract inside the printer group; f-string candidate search trusted to its own re-parse filter']

prop('C02', 'Printed source re-parses to exactly the same syntax tree', 'other', printer_tasks, ['C02/', 'C08/total'],
     replay='props.replay_printer:replay_printer', trusted=PRINTER_TRUST,
     explanation='Inductive step of the round-trip proved per printer method for a symbolic node of every class with symbolic children: '
                 'every child print event is either parenthesised or sits at a grammar level the slot accepts (all operators, all '
                 'child classes, any depth; z3 over enum tags and Real levels). Constants reach the TokenPrinter method of their own '
                 'type. Level "other": the grammar oracle is hand-written and f-string/float text is covered by bounded stand-ins only.')
def c08_tasks(tier):
    # the printed text compiles only if the names handed out by the renamer do not collide (duplicate parameter, parameter declared global ...)
    return printer_tasks(tier) + [Task('renamer.name_assigner', 'contracts.renamer:task_name_assigner'),
                                  Task('renamer.reservation_scope', 'contracts.renamer:task_reservation_scope'),
                                  sweep('compile', tier, 'C08')]


prop('C08', 'Every compilable module is minified without error into a compilable module', 'other', c08_tasks,
     ['C08/', 'C02/L2/', 'C02/L1/', 'C02/L4/', 'C02/L5/', 'C03/NameAssigner', 'C03/reservation_scope', 'C03/reserve_name'], replay='props.replay_rename:replay_c08', trusted=PRINTER_TRUST,
     explanation='Partial: exception-freedom of every printer method for a symbolic node of its class (no-exception obligations), totality '
                 'of every class/operator dispatch table of the running interpreter, and the L2 obligations that make the printed text '
                 'parse (so the internal UnstableMinification check cannot fire for the covered part); the name-assignment obligations of the '
                 'renamer (every kept or reserved name is blocked in the whole reservation scope before any new name is chosen, a new name is one '
                 'found free in that scope) because colliding names give duplicate-parameter / global-parameter SyntaxErrors. Code outside these '
                 'is covered by the other groups; whole-package termination/memory are not decided.')


def generic_standin(name, script, args, bound):
    return Task('standin.' + name.replace(' ', '_'), 'contracts.printer:task_standin', standin=name, script=script, args=args, bound=bound)


def folding_tasks(tier):
    ts = [Task('folding.visit_BinOp', 'contracts.folding:task_visit_binop'), Task('folding.evt', 'contracts.folding:task_equal_value_and_type'),
          Task('folding.literal_tokens', 'contracts.folding:task_literal_tokens')]
    from contracts import tokens
    for m in ('integer', 'floatnumber', 'imagnumber', 'keyword', 'operator', 'delimiter'):
        ts.append(Task('tokens.%s' % m, 'contracts.tokens:task_method', method=m))
    for rec, tag, meth in (('ModulePrinter', 'Constant', 'visit_Constant'), ('ModulePrinter', 'BinOp', 'visit_BinOp'),
                           ('ModulePrinter', 'UnaryOp', 'visit_UnaryOp')):
        ts.append(Task('printer.%s.%s[%s]' % (rec, meth, tag), 'contracts.printer:task_visit', receiver=rec, tag=tag, method=meth))
    ts.append(generic_standin('fold sweep depth 2', 'fold_sweep.py', ['--depth', '2', '--samples', '1000'],
                              '34 operands x 13 operators x 34 operands; systematic second level over 6 operands x 6 operators (both nestings); 2000 seeded '
                              'nested samples; 150 modules of 40 assignments in seeded order; value/type/sign/exception and length compared'))
    if tier == 'thorough':
        ts.append(generic_standin('fold sweep depth 3', 'fold_sweep.py', ['--depth', '3', '--samples', '20000'],
                                  'second level over 12 operands x 11 operators, 40000 seeded nested samples, all depth-1 expressions in batches of 40'))
        ts.append(generic_standin('float sweep', 'literal_pool.py', ['--sweep', '6'], 'every binary exponent x 10 mantissas, 4 contexts'))
    return ts


FOLD_TRUST = ['safe_eval / ast.parse / compare_ast by contract (external or verified elsewhere); CPython arithmetic itself is evaluated by the code, '
              'not predicted', 'literal printing relies on the C02 L3 contracts; float text value preservation is bounded-only']

prop('C07', 'Constant folding never changes a value, its type, or an error', 'proof', folding_tasks,
     ['C07/', 'C17/FoldConstants', 'C02/L3/', 'C02/L2/ModulePrinter.visit_BinOp', 'C02/L2/ModulePrinter.visit_UnaryOp', 'C08/noraise/FoldConstants',
      'C08/noraise/TokenPrinter'],
     replay='props.replay_printer:replay_fold', trusted=FOLD_TRUST,
     explanation='Guard argument on the real visit_BinOp: a replacement node is returned only on paths whose event log and path condition contain '
                 'the full guard (operands are number/True/False/None constants, not Div/Pow, original evaluates without error to v, v not NaN, '
                 'replacement built from v itself, its text evaluates, is strictly shorter, re-parses to itself, equal_value_and_type holds); '
                 'every other path returns the original node. equal_value_and_type proved to imply identical type and ==. Literal printing '
                 'by the L3 contracts of C02.')


def sink_tasks(tier):
    ts = [Task('sinks.inventory', 'contracts.sinks:task_inventory'), Task('sinks.MiniString.__str__', 'contracts.sinks:task_ministring_str')]
    for m, q in (('to_short', "'"), ('to_short', '"'), ('to_long', "'''"), ('to_long', '"""')):
        for sm in (False, True):
            ts.append(Task('sinks.MiniString.%s[%s,%s]' % (m, q, sm), 'contracts.sinks:task_ministring', method=m, quote=q, safe_mode=sm))
    for c in ('Str', 'Bytes'):
        ts.append(Task('sinks.%s._literals' % c, 'contracts.sinks:task_fstr_literals', cls=c))
        ts.append(Task('sinks.%s.__str__' % c, 'contracts.sinks:task_fstr_str', cls=c))
    ts.append(Task('folding.visit_BinOp', 'contracts.folding:task_visit_binop'))
    ts.append(Task('folding.literal_tokens', 'contracts.folding:task_literal_tokens'))
    ts.append(generic_standin('sink canary len 2', 'sink_canary.py', ['--len', '2'],
                              'all sequences of up to 2 of 40 adversarial pieces through MiniString, f_string.Str/Bytes, minify and unparse with eval wrapped'))
    if tier == 'thorough':
        ts.append(generic_standin('sink canary len 3', 'sink_canary.py', ['--len', '3'], 'all sequences of up to 3 of 40 adversarial pieces'))
    return ts


prop('C12', 'Minifying never runs code taken from the input', 'other', sink_tasks, ['C12/'], replay='props.replay_printer:replay_sinks',
     trusted=['string-literal lexer DFA (language reference 2.4.1), hand-written', 'ast.parse/compile do not execute code',
              'f_string.Str/Bytes receive the four-quote list and pep701=True (checked at the construction site)'],
     explanation='Sink inventory over every call in the package (a new eval/exec/open/getattr-by-computed-name site is a refuted obligation). '
                 'For each string sink the text handed to eval is proved to be complete string/bytes literal tokens only: the per-character '
                 'loops of MiniString.to_short/to_long and f_string.Str/Bytes._literals are analysed for one arbitrary iteration with a symbolic '
                 'character of any code point against the lexer DFA (loop invariant: the lexer is inside the literal). The arithmetic sink '
                 'receives only the printed form of literal trees, which prints number/operator/True/False/None tokens only. Level "other": the contracts are proved, but one '
                 'open known finding lies outside them (KF-31: ast.parse of a bytes source imports the codec module named by the coding cookie of the input).')


def transform_tasks(tier):
    ts = [Task('transforms.suite.%s' % k, 'contracts.transforms:task_suite_filter', kind=k, module=m) for k, m in
          (('RemovePass', 'remove_pass'), ('RemoveAsserts', 'remove_asserts'), ('RemoveLiteralStatements', 'remove_literal_statements'),
           ('RemoveDebug', 'remove_debug'))]
    ts += [Task('transforms.docstring_guard', 'contracts.transforms:task_docstring_guard'), Task('transforms.can_remove', 'contracts.transforms:task_can_remove'), Task('transforms.remove_object', 'contracts.transforms:task_remove_object'),
           Task('transforms.posargs', 'contracts.transforms:task_posargs'), Task('transforms.return_none', 'contracts.transforms:task_return_none'),
           Task('transforms.return_none_fn', 'contracts.transforms:task_return_none_functiondef'), Task('transforms.rls', 'contracts.transforms:task_rls_module'),
           Task('transforms.combine_import', 'contracts.transforms:task_combine_imports', which='import'),
           Task('transforms.combine_from', 'contracts.transforms:task_combine_imports', which='from'),
           Task('transforms.combine_suite', 'contracts.transforms:task_combine_suite'), Task('transforms.exception_brackets', 'contracts.transforms:task_exception_brackets'),
           Task('transforms.annotations', 'contracts.transforms:task_annotations'), Task('transforms.base', 'contracts.transforms:task_base_routing'),
           Task('pipeline.minify', 'contracts.pipeline:task_minify')]
    ts.append(generic_standin('transform sweep', 'transform_sweep.py', [], 'a pool of statement shapes x every single option on/off: only the documented rewrite of the '
                              'enabled option appears, compared on the tree'))
    ts.append(Task('pipeline.defaults', 'contracts.pipeline:task_defaults'))
    return ts


prop('C05', 'Each option performs only its documented rewrite, only where it is valid', 'other', transform_tasks, ['C05/', 'C01/minify/'],
     replay='props.replay_transforms:replay_transforms',
     trusted=['recursive visit by contract (structural induction over the tree)', 'tree-level contracts instead of compiled-code bisimulation',
              'ast.walk / iter_child_nodes / iter_fields enumerate the tree (external)'],
     explanation='One contract per transformer method, taken from the property sentence: the statement filters of RemovePass/RemoveAsserts/'
                 'RemoveLiteralStatements/RemoveDebug are compared pointwise (arbitrary statement of an arbitrary-length list) with the documented '
                 'predicate, including the non-empty rule and the Module exception; can_remove, CombineImports (loop invariant on the pending run), '
                 'return None, object base, exception brackets (builtin, not redefined, whitelisted, no arguments, directly under raise), annotations '
                 '(per option, never in dataclass/NamedTuple/TypedDict), posargs; and minify() runs each stage exactly under its own option. "The class" of an annotated assignment is the '
                 'namespace of its statement (a field may sit in a block of the class body; KF-18, repaired in 9ef57d1). The proof is at tree level: '
                 'equality with the -O compiled code for asserts/__debug__ is argued from the documented rewrite, not from bytecode. Level "other": the per-method '
                 'contracts are proved, but two open known findings show where the documented tree-level rewrite itself falls short of the property sentence (KF-32: scope effects '
                 'of a removed assert / __debug__ block under -O; KF-33: dataclass / NamedTuple recognised by spelling only).')


def sweep(only, tier, label, extra=()):
    return Task('standin.rename_sweep.' + label, 'contracts.printer:task_standin', standin='rename sweep', script='rename_sweep.py',
                args=['--only', only, '--random', '40' if tier == 'quick' else '400'] + list(extra),
                bound='%s runnable programs over scope shapes (hand-written pool, every literal kind x use count, seeded random functions) x 9 option sets, '
                      'preserve lists and taint triggers; oracles: %s' % ('~230' if tier == 'quick' else '~600', only))


def renamer_tasks(tier):
    ts = [Task('scopes.add_parent', 'contracts.scopes:task_add_parent'), Task('scopes.arguments', 'contracts.scopes:task_arguments'),
          Task('scopes.namedexpr', 'contracts.scopes:task_namedexpr')]
    for t in ('arg_rename_in_place', 'namebinding_init', 'binder_get_binding', 'name_binder_visitors', 'has_private_names', 'resolve_get_binding', 'resolve_names', 'namebinding_rename', 'name_assigner', 'reservation_scope', 'allow_rename',
              'taint_alias'):
        ts.append(Task('renamer.' + t, 'contracts.renamer:task_' + t))
    for t in ('hoist_visitors', 'hoist_call', 'hoisted_value', 'insert', 'placement', 'cost_model'):
        ts.append(Task('hoist.' + t, 'contracts.hoist:task_' + t))
    ts.append(Task('pipeline.minify', 'contracts.pipeline:task_minify'))
    ts.append(Task('pipeline.awslambda', 'contracts.pipeline:task_awslambda'))
    ts.append(Task('folding.visit_BinOp', 'contracts.folding:task_visit_binop'))
    return ts


REN_TRUST = ['scoping table spec_scope (language reference 4.2, 6.2.4, PEP 572), hand-written', 'recursive calls and callee functions used by contract '
             '(each verified as its own function under contract)', 'CPython symtable conformance of the scoping table is only cross-checked boundedly (rename sweep)']

prop('C03', 'Renaming preserves which binding every name refers to', 'other', lambda tier: renamer_tasks(tier) + [sweep('compile,behaviour:rename', tier, 'C03')],
     ['C03/', 'C04/NameAssigner', 'C04/util.arg_rename_in_place', 'C09/resolve_names'], replay='props.replay_rename:replay_rename', trusted=REN_TRUST,
     explanation='(a) mapper.add_parent and its helpers: for a symbolic node of every class the namespace passed for every child equals the scoping table '
                 '(enclosing vs own namespace, first comprehension iterable, walrus targets, annotations of every parameter kind). (b) resolve_names.'
                 'get_binding continues only through get_global_namespace / get_nonlocal_namespace (class bodies skipped); unresolved names are pinned. '
                 '(c) NameAssigner.__call__ for an arbitrary binding: reserved names are blocked in the whole reservation scope first, a rename uses exactly '
                 'the name available_name found free in that scope, the name in use afterwards is blocked; is_available implies freedom in every namespace of '
                 'the scope; NameBinding.rename writes exactly the name slot of each reference class and only the own positions of global/nonlocal statements. '
                 '(d) resolve_names for a symbolic node of every class: reads are attached to get_binding(id, namespace) and to nothing else, binders of '
                 'names shared with the outside to the binding of the name they bind; a name bound directly in a class body pins its binding and the '
                 'module-level binding of the same name (class-body lookup goes class -> globals). (e) reservation_scope: inductive per-iteration '
                 'contract of the namespace-chain walk (every namespace between a reference and the binding is in the scope, whatever its class); '
                 'reserve_name and available_name against the same scope. The proof is relative to the hand-written scoping table (trusted); its '
                 'conformance with CPython symtable is only sampled by the bounded sweep. Level "other": open known findings found by sub-agents (KF-25 first parameter of an old-style static method, KF-26 PEP 695 type parameters bound in the enclosing scope - the scoping table follows the code there -, KF-27 parameter alias lifetime).')
prop('C04', 'Externally visible names are never changed', 'proof', lambda tier: renamer_tasks(tier) + [sweep('interface', tier, 'C04')],
     ['C04/'], replay='props.replay_rename:replay_rename', trusted=REN_TRUST,
     explanation='arg_rename_in_place is true exactly for self/cls-like first parameters of plain or @classmethod methods, star parameters and positional-only '
                 'parameters; NameBinding.__init__ pins dunder names in every scope; NameBinder.get_binding pins class-body and builtin-shadowing names; '
                 'unresolved names are pinned; permissions are never re-enabled (frame scan of every _allow_rename assignment); NameAssigner renames only '
                 'bindings that allow it and prefixes new module names with "_" exactly when globals are not renamed; minify passes the options through.')
prop('C06', 'Hoisted literals are bound once, before use, to an identical value', 'proof', lambda tier: renamer_tasks(tier) + [sweep('hoist,behaviour:hoist', tier, 'C06')],
     ['C06/'], replay='props.replay_rename:replay_rename', trusted=REN_TRUST + ['dict lookup follows __eq__/__hash__'],
     explanation='Visitor contracts: strings in statement position, f-string text, match patterns and __slots__ assignments are never referenced; literal '
                 'kind decided by type (numbers are not name constants); HoistedValue.__eq__ implies identical type and value; aliases live in function or '
                 'module namespaces only (nearest_function_namespace), on the common prefix of all uses (common_path step); HoistedBinding.rename assigns the '
                 'first occurrence\'s own node once through util.insert, whose generator is proved to place the statement after exactly the docstring/'
                 '__future__ prefix (loop invariant); folded constants keep parent and namespace.')
prop('C09', 'Dynamic name access freezes every name in the module', 'proof', lambda tier: renamer_tasks(tier) + [sweep('freeze', tier, 'C09')],
     ['C09/'], replay='props.replay_rename:replay_rename', trusted=REN_TRUST,
     explanation='Detection: resolve_names.get_binding taints the module for exec/eval/locals/globals/vars resolved as builtins, visit_alias for star imports. '
                 'Freeze: on every path of minify() with module.tainted, allow_rename_locals/allow_rename_globals receive False, rename_literals and '
                 'remove_no_arg_exception_call are not called; pinned bindings are never renamed (C04). A `global` declaration of a reflective builtin taints as well (KF-24, repaired in 8cd404d).')
prop('C10', 'Names the user asks to preserve are preserved', 'proof', lambda tier: renamer_tasks(tier) + [sweep('preserve,frame', tier, 'C10'), Task('cli.do_minify', 'contracts.cli:task_do_minify')],
     ['C10/', 'C13/do_minify/preserve'], replay='props.replay_rename:replay_rename', trusted=REN_TRUST,
     explanation='minify normalises str/None/list arguments and passes every name on (plus module.preserved); allow_rename_locals pins every listed binding of '
                 'every non-module namespace and recurses into every child with the same arguments; allow_rename_globals adds the literal __all__ entries and '
                 'pins listed module bindings; asking to preserve changes no other permission (frame); preserved globals are reserved before names are chosen; '
                 'the CLI splits comma separated, repeated lists as documented.')
prop('C17', 'Turning a size optimisation on never makes the output longer', 'other', lambda tier: [Task('hoist.cost_model', 'contracts.hoist:task_cost_model'),
     Task('folding.visit_BinOp', 'contracts.folding:task_visit_binop'), sweep('size', tier, 'C17')],
     ['C17/'], replay='props.replay_rename:replay_rename',
     trusted=['byte-cost accounting table (contracts/hoist.py:true_delta) written from what rename() writes and the printers print', 'printed literal length = len(repr)'],
     explanation='Second clause only ("names changed and literals hoisted only where the result is smaller"): for every reference kind and for mixed reference '
                 'lists, should_rename(new) implies that the exact byte change (per-reference deltas + the re-binding statement) is <= 0 (linear integer arithmetic '
                 'over symbolic name lengths); hoisting: should_rename implies alias definition + uses <= literal uses; folding keeps only strictly shorter text. '
                 'The first clause (a corpus of real-world modules) is not expressible as a contract and is not claimed; open known findings where the cost model leaves out bytes the printer writes: KF-19 (re-binding before a compound statement), KF-23 (space after a keyword), KF-29 (a tie rename steals the name of an import), KF-30 (indentation of a hoisted assignment).')


prop('C11', 'Output depends only on source, options and interpreter version', 'proof',
     lambda tier: [Task('purity.scan', 'contracts.purity:task_purity'), Task('pipeline.minify', 'contracts.pipeline:task_minify'),
                   generic_standin('determinism', 'determinism.py', [], '7 programs x 5 option sets: 8 hash seeds in fresh processes, every ordered pair of calls in one '
                                   'process, re-used argument objects, 6 concurrent threads; byte-identical output and unchanged arguments')],
     ['C11/'], replay='props.replay_rename:replay_determinism',
     trusted=['purity corollary: a function that reads only its arguments and interpreter constants, writes only what it allocated and never lets set order reach '
              'its result is history-, schedule- and hash-seed independent', 'CPython-internal caches are semantically transparent', 'call graph by name'],
     explanation='Frame analysis (syntactic obligations decided by evaluation over the AST of each function, back end "eval", not SMT) of all 401 functions of the package on every run: no global statement, no shared mutable default that is mutated/returned/'
                 'passed on, no module- or class-level container mutated, no ambient read (environment, clock, random, id, hash outside __hash__), every loop '
                 'or comprehension over a set-valued expression has an order-insensitive body or consumer; minify() copies the caller\'s preserve lists before '
                 'extending them (symbolic execution, contracts/pipeline.py). No schedule is executed: thread independence follows from the write frame.')
prop('C16', 'Shebang, source encoding and line endings are handled faithfully', 'other',
     lambda tier: [Task('shebang.find', 'contracts.shebang:task_find_shebang'), Task('pipeline.minify', 'contracts.pipeline:task_minify'),
                   Task('cli.do_minify', 'contracts.cli:task_do_minify'), Task('cli.main', 'contracts.cli:task_main'), Task('tokens.stringliteral', 'contracts.tokens:task_method', method='stringliteral'),
                   Task('tokens.bytesliteral', 'contracts.tokens:task_method', method='bytesliteral'),
                   generic_standin('encoding sweep', 'encoding_sweep.py', [], '4 programs x 7 encodings/cookies/BOM x 3 line endings x 14 shebang lines x preserve on/off, API on bytes and '
                                   'text, and the CLI on a subset')],
     ['C16/', 'C13/do_minify/returns-utf8', 'C14/main/output-is-minified-or-original-source', 'C02/L3/TokenPrinter.stringliteral', 'C02/L3/TokenPrinter.bytesliteral'], replay='props.replay_rename:replay_encoding',
     trusted=['decoding of bytes sources (cookie / BOM) happens inside ast.parse (external)', 'regex fragment translation in contracts/shebang.py'],
     explanation='_find_shebang: with the pattern text of the real source translated to a z3 regular expression, the result is proved to be exactly the first source line '
                 '(starts with #!, contains no CR or LF, followed by a terminator or the end) or None; minify() re-attaches it exactly when preserve_shebang is True '
                 '(pipeline contract); string and bytes constants are printed with repr and the CLI encodes the result as UTF-8. Level "other": three open known '
                 'findings (KF-12 cookie in the shebang line, KF-13 non-UTF-8 shebang bytes, KF-20 BOM before the shebang) and external decoding.')


def c01_tasks(tier):
    ts = [Task('pipeline.composition', 'contracts.pipeline:task_composition')]
    seen = set(t.name for t in ts)
    for group in (transform_tasks(tier), folding_tasks(tier), renamer_tasks(tier)):
        for t in group:
            if t.name not in seen and not t.name.startswith('standin.'):
                seen.add(t.name)
                ts.append(t)
    from contracts import printer
    for rec, tag, meth in printer.fuc_list():
        nm = 'printer.%s.%s[%s]' % (rec, meth, tag)
        if nm not in seen:
            seen.add(nm)
            ts.append(Task(nm, 'contracts.printer:task_visit', receiver=rec, tag=tag, method=meth))
    ts.append(sweep('compile,behaviour', tier, 'C01', extra=['--safe-only']))
    return ts


prop('C01', 'Minified module behaves exactly like the original (safe options)', 'other', c01_tasks,
     ['C01/', 'C02/L2/', 'C03/', 'C05/', 'C06/', 'C07/'], replay='props.replay_rename:replay_rename',
     trusted=['adequacy axioms, one per rewrite schema, with explicit side conditions (contracts/pipeline.py:ADEQUACY): NOT proved, there is no formal semantics of Python here',
              'the stage contracts of C02, C03, C04, C05, C06, C07 (re-run as part of this check)'],
     explanation='Conditional proof: (1) the syntactic stage contracts of every transform, the renamer, the hoister, the folder and the printer are re-discharged; '
                 '(2) minify() is proved to run each stage under its own option, in dependency order, on the one parsed module; (3) a z3 lemma composes the stage '
                 'equivalences for every subset of enabled stages. The semantic adequacy of each rewrite schema is an axiom; one side condition is not '
                 'established by the code and is an open known finding (KF-15 effectful annotation); further open findings from the bug-hunting wave are witnessed by the sweep (KF-25, KF-26, KF-27); a string statement after a removed `pass` became the docstring (repaired in e235f6e); two others were repaired (posargs with **kwargs: 7a1a7a4; shadowed object base: 3bb1e82). The '
                 'behaviour oracle of the bounded sweep (run original and minified program) stands behind the axioms.')


BASELINE_FILE = os.path.join(os.path.dirname(os.path.abspath(__file__)), 'obligation_baseline.json')


def obligation_baseline():
    if os.path.exists(BASELINE_FILE):
        with open(BASELINE_FILE) as f:
            return json.load(f)
    return {}


def run_property(pid, tier):
    p = PROPS[pid]
    t0 = time.time()
    tasks = p['tasks'](tier)
    results = runner.run_tasks(tasks)
    sel = tuple(p['select'])
    names = set()
    for r in results:
        if 'obligations' in r:
            # an exploration that stopped early (engine / vacuous cover) in ANY task of the property is kept: obligations may be missing because of it
            r['obligations'] = [o for o in r['obligations'] if o['name'].startswith(sel) or
                                (o['status'] == 'undecided' and (o.get('kind') in ('engine', 'cover') or o['name'].endswith(('/engine', '/cover'))))]
            names.update(o['name'] for o in r['obligations'])
    # vacuity guard: every obligation generated on the reference tree must be generated again (a missing one is undecided, never a pass)
    if os.environ.get('PYVC_WRITE_BASELINE') == '1' and tier == 'quick' and not os.environ.get('VERIF_REPO'):
        b = obligation_baseline()
        b[pid] = sorted(n for n in names if '/engine' not in n and '/vacuity/' not in n)
        with open(BASELINE_FILE, 'w') as f:
            json.dump(b, f, indent=0, sort_keys=True)
    base = obligation_baseline().get(pid)
    if base and not any('crash' in r for r in results):
        missing = sorted(set(base) - names)
        if missing:
            results.append({'task': 'vacuity', 'wall_s': 0, 'functions': [], 'assumptions': [], 'notes': [], 'pruned': [], 'samples': [], 'standins': [], 'obligations': [
                {'name': '%s/vacuity/obligation-no-longer-generated' % pid, 'status': 'undecided', 'kind': 'cover', 'model': {}, 'time_s': 0, 'backend': 'engine',
                 'path': None, 'goal': None, 'detail': '%d obligations of the committed baseline were not generated, e.g. %s' % (len(missing), missing[:5])}]})
    replay_fn = None
    if p['replay']:
        import importlib
        m, f = p['replay'].split(':')
        replay_fn = getattr(importlib.import_module(m), f)
    return runner.finish(pid, tier, p['level'], results, replay_fn=replay_fn, trusted_base=ENGINE_TRUST + p['trusted'],
                         explanation=p['explanation'], t0=t0)
