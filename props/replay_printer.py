"""Replay of printer obligations (C02, C08) on the real code: exhaustive over the obligation's own (slot, child class) domain."""
import json
import os
import subprocess

from .replay import HERE, PY, REPO


_CACHE = {}


def run_standin(script, args, timeout=1800):
    key = (script, tuple(args))
    if key not in _CACHE:
        _CACHE[key] = _run_standin(script, args, timeout)
    return _CACHE[key]


def _run_standin(script, args, timeout=1800):
    env = dict(os.environ)
    env['PYTHONPATH'] = os.path.join(REPO, 'src')
    p = subprocess.run([PY, os.path.join(HERE, 'standins', script)] + list(args), capture_output=True, timeout=timeout, env=env)
    if p.returncode != 0:
        return {'error': p.stderr.decode('utf-8', 'replace')[-2000:]}
    try:
        return json.loads(p.stdout.decode())
    except Exception:
        return {'error': 'bad output %r' % p.stdout[-300:]}


def replay_printer(ob):
    rp = ob.get('replay') or {}
    name = ob['name']
    if '/L4/' in name:
        for script, args in (('stmt_layout.py', []), ('enum_print.py', ['--depth', '2'])):
            r = run_standin(script, args)
            if r.get('n_failures'):
                return {'reproduced': True, 'input': r['failures'][:4]}
        return {'reproduced': None, 'note': 'neither the statement-layout pairs nor the depth-2 enumeration fail', 'detail': r.get('error')}
    if 'is_curly' in name:
        r = run_standin('fstring_curly.py', ['--depth', '2'])
        if r.get('n_failures'):
            return {'reproduced': True, 'input': r['failures'][:4]}
        r = run_standin('fstring_curly.py', ['--depth', '3'])
        if r.get('n_failures'):
            return {'reproduced': True, 'input': r['failures'][:4]}
        return {'reproduced': None, 'note': 'no f-string of the enumerated shapes (depth 3) fails', 'detail': r.get('error')}
    if rp.get('kind') == 'emit':
        model = rp.get('model') or ob.get('model') or {}
        child = rp.get('child') or model.get(rp.get('child_tagvar') or '', None)
        slot = '%s.%s' % (rp['parent'], rp['field'])
        args = ['--slot-filter', slot]
        if child:
            args += ['--child-filter', child]
        r = None
        for depth in ('2', '3'):
            r = run_standin('enum_print.py', ['--depth', depth] + args)
            if 'error' in r:
                return {'reproduced': None, 'error': r['error']}
            if r['n_failures']:
                return {'reproduced': True, 'input': r['failures'][:3], 'cases_tried': r['cases']}
            if r['cases'] == 0 and child:
                return {'reproduced': False, 'note': 'no parser-producible instance of %s in slot %s' % (child, slot)}
        return {'reproduced': False, 'cases_tried': r['cases'],
                'note': 'every parser-producible instance of this (slot, child class) up to nesting depth 3 round-trips strictly'}
    if '/L3/' in name or '/L1/' in name:
        r = run_standin('literal_pool.py', [])
        if r.get('n_failures'):
            return {'reproduced': True, 'input': r['failures'][:5]}
        r3 = run_standin('enum_print.py', ['--depth', '2'])
        if 'error' not in r3 and r3['n_failures']:
            return {'reproduced': True, 'input': r3['failures'][:3]}
        return {'reproduced': None, 'note': 'literal pool and depth-2 enumeration round-trip', 'detail': r.get('error')}
    r = run_standin('enum_print.py', ['--depth', '2'])
    if 'error' not in r and r['n_failures']:
        return {'reproduced': True, 'input': r['failures'][:3]}
    r2 = run_standin('literal_pool.py', [])
    if r2.get('n_failures'):
        return {'reproduced': True, 'input': r2['failures'][:5]}
    return {'reproduced': None, 'note': 'depth-2 enumeration and literal pool show no failure'}


def replay_fold(ob):
    r = run_standin('fold_sweep.py', ['--depth', '2', '--samples', '6000'])
    if r.get('n_failures'):
        return {'reproduced': True, 'input': r['failures'][:5]}
    if 'printer' in ob['name'] or '/L' in ob['name']:
        return replay_printer(ob)
    return {'reproduced': None, 'note': 'folding sweep (depth 2) shows no failure', 'detail': r.get('error')}


def replay_sinks(ob):
    r = run_standin('sink_canary.py', ['--len', '3'])
    if r.get('n_failures'):
        return {'reproduced': True, 'input': r['failures'][:5]}
    return {'reproduced': None, 'note': 'adversarial pool up to 3 pieces triggers no non-literal evaluation', 'detail': r.get('error')}
