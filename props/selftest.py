"""Mutant self-test: every patch under selftest/mutants, selftest/historic and seeded/*/patch.diff is applied to a scratch copy of
the repository (outside /repo and /verif, removed afterwards) and the checks named in its expectation must exit 1.

Expectation: first line(s) of a .patch starting with '# expect:' list the properties that must report a violation; historic
reverts and seeded changes take theirs from selftest/expectations.json.
"""
import glob
import json
import os
import shutil
import subprocess
import sys
import tempfile
import time

HERE = os.path.dirname(os.path.dirname(os.path.abspath(__file__)))
REPO = '/repo'


def scratch_copy():
    d = tempfile.mkdtemp(prefix='vcheck-scratch-')
    for sub in ('src', 'docs'):
        shutil.copytree(os.path.join(REPO, sub), os.path.join(d, sub), ignore=shutil.ignore_patterns('__pycache__', '*.pyc'))
    return d


def apply_patch(d, patch):
    p = subprocess.run(['patch', '-p1', '-s', '-i', patch], cwd=d, capture_output=True, text=True)
    return p.returncode == 0, p.stdout + p.stderr


def expectations():
    p = os.path.join(HERE, 'selftest', 'expectations.json')
    if os.path.exists(p):
        with open(p) as f:
            return json.load(f)
    return {}


def collect(filters):
    exp = expectations()
    out = []
    for path in sorted(glob.glob(os.path.join(HERE, 'selftest', 'mutants', '*.patch')) +
                       glob.glob(os.path.join(HERE, 'selftest', 'historic', '*.patch')) +
                       glob.glob(os.path.join(HERE, 'seeded', '*', 'patch.diff'))):
        rel = os.path.relpath(path, HERE)
        props = []
        with open(path) as f:
            for line in f:
                if line.startswith('# expect:'):
                    props += line.split(':', 1)[1].split()
        props = props or exp.get(rel, [])
        if filters and not any(x in rel or x in props for x in filters):
            continue
        out.append((rel, path, props))
    return out


def run_one(rel, path, props, tier):
    d = scratch_copy()
    try:
        ok, msg = apply_patch(d, path)
        if not ok:
            return {'mutant': rel, 'status': 'patch-failed', 'detail': msg[-300:]}
        res = {}
        env = dict(os.environ)
        env['VERIF_REPO'] = d
        env['PYVC_EVIDENCE_DIR'] = os.path.join(d, 'evidence')
        env['PYVC_REPLAY_DIR'] = os.path.join(d, 'replays')
        for p in props:
            t0 = time.time()
            r = subprocess.run([os.path.join(HERE, 'vcheck'), p, '--tier', tier], capture_output=True, text=True, env=env, cwd=HERE)
            viol = [l for l in r.stdout.splitlines() if l.startswith(('VIOLATION', 'refuted:', 'bounded stand-in'))]
            res[p] = {'rc': r.returncode, 'lines': viol[:6], 'wall_s': round(time.time() - t0, 1)}
        caught = [p for p in props if res[p]['rc'] == 1]
        return {'mutant': rel, 'status': 'caught' if caught else 'MISSED', 'caught_by': caught, 'results': res}
    finally:
        shutil.rmtree(d, ignore_errors=True)


def main(filters, tier):
    items = collect(filters)
    if not items:
        print('no mutants selected')
        return 3
    import concurrent.futures
    missed = 0
    out = []
    with concurrent.futures.ThreadPoolExecutor(max_workers=int(os.environ.get('SELFTEST_JOBS', '4'))) as ex:
        futs = [ex.submit(run_one, rel, path, props, tier) for rel, path, props in items]
        for f in futs:
            r = f.result()
            out.append(r)
            print('%-60s %s %s' % (r['mutant'], r['status'], r.get('caught_by', r.get('detail', ''))))
            if r['status'] != 'caught':
                missed += 1
                for p, rr in (r.get('results') or {}).items():
                    print('      %s rc=%s %s' % (p, rr['rc'], rr['lines'][:2]))
    with open(os.path.join(HERE, 'selftest', 'last_run.json'), 'w') as f:
        json.dump(out, f, indent=1)
    # cumulative record (committed): the latest result per patch, used for the detection table in DESIGN.md
    full = os.path.join(HERE, 'selftest', 'detection.json')
    allr = {}
    if os.path.exists(full):
        with open(full) as f:
            allr = json.load(f)
    for r in out:
        allr[r['mutant']] = r
    present = set(rel for rel, _, _ in collect([]))
    allr = dict((k, v) for k, v in allr.items() if k in present)
    with open(full, 'w') as f:
        json.dump(allr, f, indent=1, sort_keys=True)
    print('selftest: %d mutants, %d not caught' % (len(items), missed))
    return 0 if missed == 0 else 1
