"""Replay of refuted obligations against the real code under $VERIF_REPO, always in a fresh /venv/bin/python process."""
import json
import os
import shutil
import subprocess
import sys
import tempfile

REPO = os.environ.get('VERIF_REPO', '/repo')
PY = '/venv/bin/python'
HERE = os.path.dirname(os.path.dirname(os.path.abspath(__file__)))


def run_py(code, stdin=None, cwd=None, timeout=120, env_extra=None):
    env = dict(os.environ)
    env['PYTHONPATH'] = os.path.join(REPO, 'src')
    env.pop('PYMINIFY_FORCE_BEST_EFFORT', None)
    if env_extra:
        env.update(env_extra)
    p = subprocess.run([PY, '-c', code], input=stdin, capture_output=True, cwd=cwd, timeout=timeout, env=env)
    return p.returncode, p.stdout, p.stderr


def run_json(code, payload, timeout=120):
    """Run `code` (which reads a JSON object from stdin and prints a JSON object) against the real package."""
    rc, out, err = run_py(code, stdin=json.dumps(payload).encode(), timeout=timeout)
    if rc != 0:
        return {'error': err.decode('utf-8', 'replace')[-2000:], 'rc': rc}
    try:
        return json.loads(out.decode())
    except Exception:
        return {'error': 'bad output: %r' % out[-500:], 'rc': rc}


def run_cli(argv, stdin=None, cwd=None, env_extra=None, timeout=120):
    env = dict(os.environ)
    env['PYTHONPATH'] = os.path.join(REPO, 'src')
    env.pop('PYMINIFY_FORCE_BEST_EFFORT', None)
    if env_extra:
        env.update(env_extra)
    p = subprocess.run([PY, '-m', 'python_minifier'] + list(argv), input=stdin, capture_output=True, cwd=cwd, timeout=timeout, env=env)
    return p.returncode, p.stdout, p.stderr


SAMPLE = '''#!/usr/bin/env python
"""module doc"""
from typing import NamedTuple
import os
import sys
class Base(object):
    """class doc"""
    attr: int = 3
    def method(self, argument_one: int, /, argument_two: str = 'some text value') -> None:
        """doc"""
        local_variable = argument_one + 10 * 10
        assert local_variable
        if __debug__:
            print('some text value', 'some text value', 'some text value')
        pass
        try:
            raise ValueError()
        except ValueError:
            return None
def global_function(first_value):
    second_value: int = first_value
    third: str
    'literal statement'
    return [second_value, second_value, 'another text value', 'another text value', 'another text value']
global_variable = global_function(3)
print(global_variable, Base().method(1))
'''


def replay_file(path):
    with open(path) as f:
        rep = json.load(f)
    print(json.dumps(rep, indent=1)[:6000])
    r = rep.get('replay')
    if r and r.get('reproduced'):
        print('reproduced on the real code: yes')
        return 1
    print('reproduced on the real code: %s' % (r.get('reproduced') if r else 'not attempted'))
    return 0


# ---------------------------------------------------------------------------------------------------------------------
# CLI


def documented_kwargs(flags):
    sys.path.insert(0, HERE) if HERE not in sys.path else None
    from spec import cli_docs
    kw = {}
    ann = {}
    ann_off = False
    for f in flags:
        opt, val = cli_docs.by_spelling(f)
        if opt == 'remove_annotations':
            ann_off = True
        elif opt in cli_docs.ANNOTATION_FIELDS:
            ann[opt] = val
        else:
            kw[opt] = val
    return kw, ann, ann_off


API_CODE = r'''
import sys, json
import python_minifier
from python_minifier.transforms.remove_annotations_options import RemoveAnnotationsOptions
p = json.load(sys.stdin)
kw = dict(p['kw'])
if p['ann_off']:
    kw['remove_annotations'] = RemoveAnnotationsOptions(False, False, False, False)
else:
    o = RemoveAnnotationsOptions()
    for k, v in p['ann'].items():
        setattr(o, k, v)
    kw['remove_annotations'] = o
try:
    r = python_minifier.minify(p['source'].encode('utf-8'), **kw)
    print(json.dumps({'result': r}))
except Exception as e:
    print(json.dumps({'exception': type(e).__name__}))
'''


def cli_vs_api(flags, source=SAMPLE, preserve=None):
    """-> dict with the CLI bytes and the bytes the documented API call gives (size rule applied)."""
    kw, ann, ann_off = documented_kwargs(flags)
    argv = list(flags)
    if preserve:
        for name, occurrences in preserve.items():
            lst = []
            for occ in occurrences:
                argv += ['--' + name.replace('_', '-'), occ]
                lst += [x.strip() for x in occ.split(',') if x]
            kw[name] = lst
    api = run_json(API_CODE, {'kw': kw, 'ann': ann, 'ann_off': ann_off, 'source': source})
    rc, out, err = run_cli(argv + ['-'], stdin=source.encode('utf-8'))
    exp = None
    if 'result' in api:
        b = api['result'].encode('utf-8')
        exp = b if len(b) <= len(source.encode('utf-8')) else source.encode('utf-8')
    return {'flags': argv, 'cli_rc': rc, 'cli_out': out.decode('utf-8', 'replace'), 'cli_err': err.decode('utf-8', 'replace')[-500:],
            'expected': exp.decode('utf-8', 'replace') if exp is not None else None, 'api': api if 'result' not in api else 'ok',
            'agree': exp is not None and rc == 0 and out == exp}


def cli_scenarios():
    """A fixed pool of end-to-end CLI scenarios used when a refuted obligation has no model of its own. -> list of failures"""
    failures = []
    tmp = tempfile.mkdtemp(prefix='vcheck-cli-')
    try:
        src = SAMPLE.encode()
        small = b'a=1\n'                 # minification is not beneficial: 'a=1' is shorter, use something that grows
        grows = b'x=0\n'                  # stays
        bad = b'def (:\n'
        exp = run_json(API_CODE, {'kw': {}, 'ann': {}, 'ann_off': False, 'source': SAMPLE})
        if 'result' not in exp:
            return [{'scenario': 'api', 'detail': exp}]
        expb = exp['result'].encode()

        def w(rel, data):
            p = os.path.join(tmp, rel)
            os.makedirs(os.path.dirname(p), exist_ok=True)
            with open(p, 'wb') as f:
                f.write(data)
            return p

        def r(p):
            with open(p, 'rb') as f:
                return f.read()
        # 1 file to stdout
        a = w('one/a.py', src)
        rc, out, err = run_cli([a])
        if rc != 0 or out != expb or r(a) != src:
            failures.append({'scenario': 'file to stdout', 'rc': rc, 'out': out.decode('utf-8', 'replace')[:300]})
        # 2 --output
        o = os.path.join(tmp, 'one', 'out.txt')
        rc, out, err = run_cli([a, '--output', o])
        if rc != 0 or not os.path.exists(o) or r(o) != expb or r(a) != src:
            failures.append({'scenario': '--output', 'rc': rc})
        # 3 in place over a tree with non-python files, and a not-beneficial file
        w('tree/pkg/m.py', src)
        w('tree/pkg/n.pyw', src)
        w('tree/pkg/data.txt', src)
        w('tree/pkg/script', src)
        w('tree/pkg/x.pyc', src)
        w('tree/pkg/notpy', b'x = 1 + 1\n')
        w('tree/pkg/happy', b'x = 1 + 1\n')
        w('tree/pkg/tiny.py', b'0')
        siblings = ['m.py.tmp', 'm.py.bak', 'm.py~', 'm.py.orig', 'm.pyc', '.m.py.swp', 'm.py.new', 'n.pyw.tmp']
        for sname in siblings:
            w('tree/pkg/' + sname, b'sibling ' + sname.encode())
        rc, out, err = run_cli([os.path.join(tmp, 'tree'), '--in-place'])
        for rel, want in (('m.py', expb), ('n.pyw', expb), ('data.txt', src), ('script', src), ('x.pyc', src), ('notpy', b'x = 1 + 1\n'), ('happy', b'x = 1 + 1\n'),
                          ('tiny.py', b'0')):
            got = r(os.path.join(tmp, 'tree', 'pkg', rel))
            if got != want:
                failures.append({'scenario': 'in-place tree', 'file': rel, 'got': got.decode('utf-8', 'replace')[:200]})
        for sname in siblings:
            sp = os.path.join(tmp, 'tree', 'pkg', sname)
            if not os.path.exists(sp) or r(sp) != b'sibling ' + sname.encode():
                failures.append({'scenario': 'in-place tree', 'file': sname, 'got': 'a file next to a module was modified or removed'})
        extra = sorted(set(os.listdir(os.path.join(tmp, 'tree', 'pkg'))) - set(siblings) - {'m.py', 'n.pyw', 'data.txt', 'script', 'x.pyc', 'notpy', 'happy', 'tiny.py'})
        if extra:
            failures.append({'scenario': 'in-place tree', 'got': 'new files left behind: %r' % extra})
        if rc != 0:
            failures.append({'scenario': 'in-place tree', 'rc': rc, 'err': err.decode('utf-8', 'replace')[-300:]})
        # 3b a module that cannot be read stops the run with a non-zero status
        w('unreadable/ok.py', src)
        os.symlink(os.path.join(tmp, 'unreadable', 'does-not-exist'), os.path.join(tmp, 'unreadable', 'broken.py'))
        rc, out, err = run_cli([os.path.join(tmp, 'unreadable'), '--in-place'])
        if rc == 0:
            failures.append({'scenario': 'directory with an unreadable module (dangling symlink broken.py)', 'rc': rc,
                             'got': 'exit status 0 although a selected module could not be read'})
        # 4 a file that does not parse stops the run and is left alone; later files untouched
        w('bad/a_bad.py', bad)
        w('bad/z_good.py', src)
        rc, out, err = run_cli([os.path.join(tmp, 'bad', 'a_bad.py'), os.path.join(tmp, 'bad', 'z_good.py'), '--in-place'])
        if rc == 0 or r(os.path.join(tmp, 'bad', 'a_bad.py')) != bad or r(os.path.join(tmp, 'bad', 'z_good.py')) != src:
            failures.append({'scenario': 'unparsable file', 'rc': rc})
        # 5 not beneficial to stdout: original bytes
        t = w('nb/t.py', b'0')
        rc, out, err = run_cli([t])
        if rc != 0 or out != b'0':
            failures.append({'scenario': 'not beneficial', 'rc': rc, 'out': out.decode('utf-8', 'replace')})
        # 5b a latin-1 source whose UTF-8 minified form has fewer characters but more bytes than the source
        lat = ("# coding: latin-1\nx='" + '\xe9' * 30 + "'\n").encode('latin-1')
        lt = w('nb/lat.py', lat)
        rc, out, err = run_cli([lt])
        if rc != 0 or len(out) > len(lat):
            failures.append({'scenario': 'latin-1 source: output longer than input', 'rc': rc, 'in_bytes': len(lat), 'out_bytes': len(out)})
        # 5c compact modules in every line-ending convention, with and without a final newline, through every output mode: never more bytes than read;
        #    also with the opt-in removal flags (the size rule does not depend on the flags)
        compact = [b'a=1;b=2;c=3;d=4', b'True if 0in x else False', b'x=1\ny=2', b'if a:b=1']
        k = 0
        for body in compact:
            for nl in (b'\n', b'\r\n', b'\r'):
                for final, split in ((b'', False), (nl, False), (nl, True)):
                    data = body.replace(b'\n', nl) + final
                    if split:
                        if not body.count(b';'):
                            continue
                        data = body.replace(b';', nl) + final
                    k += 1
                    try:
                        import warnings as _w
                        with _w.catch_warnings():
                            _w.simplefilter('ignore')
                            compile(data, 'm', 'exec')
                    except SyntaxError:
                        continue
                    for extra in ([], ['--remove-asserts'], ['--remove-literal-statements', '--remove-debug']):
                        f1 = w('nb/c%d.py' % k, data)
                        rc, out, err = run_cli([f1] + extra)
                        if rc != 0 or len(out) > len(data):
                            failures.append({'scenario': 'compact module to stdout: more bytes written than read', 'source': repr(data), 'flags': extra, 'rc': rc,
                                             'in_bytes': len(data), 'out_bytes': len(out)})
                        rc, out, err = run_cli([f1, '--in-place'] + extra)
                        if rc != 0 or len(r(f1)) > len(data):
                            failures.append({'scenario': 'compact module in place: file grew', 'source': repr(data), 'flags': extra, 'rc': rc, 'in_bytes': len(data),
                                             'out_bytes': len(r(f1))})
        # 6 invalid combinations
        for argv in ([a, t], ['-', a], ['-', '--in-place'], [os.path.join(tmp, 'tree')],
                     [a, '--remove-class-attribute-annotations', '--no-remove-annotations']):
            rc, out, err = run_cli(argv, stdin=src)
            if rc == 0 or out:
                failures.append({'scenario': 'invalid combination', 'argv': argv, 'rc': rc, 'out': out.decode('utf-8', 'replace')[:100]})
        if r(a) != src:
            failures.append({'scenario': 'invalid combination modified a file'})
    finally:
        shutil.rmtree(tmp, ignore_errors=True)
    return failures


def replay_cli(ob):
    model = ob.get('model') or {}
    flags = sorted(k[4:] for k, v in model.items() if k.startswith('flag--') and v == 'True' and k != 'flag--in-place')
    flags = [f for f in flags if f not in ('--in-place',)]
    rp = ob.get('replay') or {}
    if rp.get('kind') == 'cli' and not flags:
        flags = list(rp.get('flags') or [])
    name = ob['name']
    if '/kw-' in name or '/flag--' in name or '/dest-' in name:
        if '--remove-class-attribute-annotations' in flags and '--no-remove-annotations' in flags:
            flags.remove('--remove-class-attribute-annotations')
        res = cli_vs_api(flags)
        if not res['agree']:
            return {'reproduced': True, 'input': res}
        # the model may differ from the reported flag set in don't-care flags: try every single flag and the given set
        sys.path.insert(0, HERE) if HERE not in sys.path else None
        from contracts import cli as cli_contracts
        for flag, _e in cli_contracts.bool_flags(cli_contracts.extract_argtable()):
            r2 = cli_vs_api([flag])
            if not r2['agree']:
                return {'reproduced': True, 'input': r2}
        r0 = cli_vs_api([])
        if not r0['agree']:
            return {'reproduced': True, 'input': r0}
        return {'reproduced': None, 'note': 'the CLI agrees with the documented API call for the model flags and for every single flag', 'input': res}
    if '/preserve' in name:
        src = 'def f():\n    alpha_name=1;beta_name=2;gamma_name=3\n    return alpha_name+alpha_name+beta_name+beta_name+gamma_name+gamma_name\nALPHA_GLOBAL=1;BETA_GLOBAL=2\nprint(ALPHA_GLOBAL,ALPHA_GLOBAL,BETA_GLOBAL,BETA_GLOBAL)\n'
        for pres in ({'preserve_locals': ['alpha_name, beta_name,,', ' gamma_name']},
                     {'preserve_globals': ['ALPHA_GLOBAL ,BETA_GLOBAL'], 'preserve_locals': ['beta_name']},
                     {'preserve_globals': [',', 'BETA_GLOBAL,']}):
            res = cli_vs_api(['--rename-globals'], src, pres)
            if not res['agree']:
                return {'reproduced': True, 'input': res}
        return {'reproduced': None, 'note': 'preserve-list scenarios agree'}
    fails = cli_scenarios()
    if fails:
        return {'reproduced': True, 'input': fails[:5]}
    return {'reproduced': None, 'note': 'the fixed CLI scenario pool shows no failure'}
