"""Replay for renamer-group obligations: the rename sweep on the real code (every oracle)."""
from .replay_printer import run_standin


def replay_rename(ob):
    r = run_standin('rename_sweep.py', ['--random', '80'])
    fails = [f for f in r.get('failures', []) if f.get('mechanism') != 'param-rebind-before-compound-statement']
    if fails:
        return {'reproduced': True, 'input': fails[:4]}
    return {'reproduced': None, 'note': 'the rename sweep shows no failure for this change', 'detail': r.get('error')}
