"""Replay for renamer-group obligations: the rename sweep on the real code (every oracle)."""
from .replay_printer import run_standin


def replay_rename(ob):
    r = run_standin('rename_sweep.py', ['--random', '80'])
    fails = [f for f in r.get('failures', []) if not f.get('mechanism')]
    if fails:
        return {'reproduced': True, 'input': fails[:4]}
    return {'reproduced': None, 'note': 'the rename sweep shows no failure for this change', 'detail': r.get('error')}


def replay_determinism(ob):
    r = run_standin('determinism.py', [])
    if r.get('n_failures'):
        return {'reproduced': True, 'input': r['failures'][:4]}
    return {'reproduced': None, 'note': 'determinism sweep (hash seeds, history, re-used arguments, threads) shows no difference', 'detail': r.get('error')}


def replay_encoding(ob):
    r = run_standin('encoding_sweep.py', [])
    new = [f for f in r.get('failures', []) if not f.get('mechanism')]
    if new:
        return {'reproduced': True, 'input': new[:4]}
    return {'reproduced': None, 'note': 'encoding sweep shows no new failure', 'detail': r.get('error')}


def replay_c08(ob):
    if ob.get('name', '').startswith(('C03/', 'C04/')):
        return replay_rename(ob)
    from props.replay_printer import replay_printer
    return replay_printer(ob)
