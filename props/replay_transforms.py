"""Replay for C05 obligations: the transform sweep on the real code."""
from .replay_printer import run_standin


def replay_transforms(ob):
    r = run_standin('transform_sweep.py', [])
    fails = [f for f in r.get('failures', []) if 'if 1:' not in f.get('input', '')]
    if fails:
        return {'reproduced': True, 'input': fails[:5]}
    return {'reproduced': None, 'note': 'the transform sweep shows no failure for this change', 'detail': r.get('error')}
